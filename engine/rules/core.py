"""Whole-workspace program graph over the MIR facts produced by engine/ba-facts.

Nothing in here judges a property; it only offers the analysis primitives (CFG reachability with
edge deletion and flag pruning, dominance, backward slices to atoms, condition canonicalisation,
call graph reachability, success/error path labelling) that the per-property rule modules use.
"""
import json, os, re, sys
from collections import defaultdict, deque

RUNTIME = 'fil_actors_runtime::runtime::Runtime::'
MSGINFO = 'fil_actors_runtime::runtime::MessageInfo::'

# --------------------------------------------------------------------------- data model


class Call:
    __slots__ = ('fn', 'bb', 'defp', 'res', 'callee', 'args', 'dst', 'target', 'unwind', 'line',
                 'exp', 'cl', 'fd', 'ga', 'ind', 'unres', 'trait')

    def __init__(self, fn, bb, t):
        self.fn = fn
        self.bb = bb
        f = t[1]
        self.ind = f.get('ind')
        self.defp = f.get('def')
        self.res = f.get('res')
        self.callee = self.res or self.defp
        self.unres = f.get('unres', False)
        self.trait = f.get('trait')
        self.ga = f.get('ga', [])
        self.args = t[2]
        self.dst = t[3]
        self.target = t[4]
        self.unwind = t[5]
        self.line = t[6]
        self.exp = t[7]
        self.cl = t[8]
        self.fd = t[9]

    @property
    def where(self):
        return '%s:%s' % (self.fn.file, self.line)

    def const_ga(self):
        return [g['c'] for g in self.ga if 'c' in g]

    def __repr__(self):
        return 'Call(%s @%s bb%d -> %s)' % (self.fn.short, self.where, self.bb, self.callee)


class Fn:
    def __init__(self, prog, crate, d):
        self.prog = prog
        self.crate = crate
        self.id = d['id']
        self.kind = d['kind']
        self.file = d['file']
        self.line = d['line']
        self.exp = d['exp']
        self.nargs = d['nargs']
        self.locals = d['locals']
        self.names = d['names']
        self.blocks = d['blocks']
        self.parent = d.get('parent')
        self.promoted = d.get('promoted')
        self.impl_self = d.get('impl_self')
        self.impl_self_adt = d.get('impl_self_adt')
        self.impl_trait = d.get('impl_trait')
        self.is_pub = d.get('pub')
        self._calls = None
        self._succ = None
        self._pred = None
        self._defs = None
        self._dom = None
        self._flags = None
        self._errblocks = None
        self._conds = None

    @property
    def short(self):
        return self.id

    @property
    def key(self):
        """cache key: an inlined view shares its id with the plain body but not its statements"""
        return self.id + '#v' if getattr(self, 'inlined', None) else self.id

    def __repr__(self):
        return 'Fn(%s)' % self.id

    # ---- CFG (normal edges only; unwind/cleanup ignored)
    def term(self, bb):
        return self.blocks[bb]['t']

    @property
    def succ(self):
        if self._succ is None:
            S = []
            for b in self.blocks:
                t = b['t']
                k = t[0]
                if k == 'goto':
                    S.append([(t[1], None)])
                elif k == 'switch':
                    e = [(tb, v) for v, tb in t[2]]
                    e.append((t[3], 'otherwise'))
                    S.append(e)
                elif k == 'call':
                    S.append([(t[4], None)] if t[4] is not None else [])
                elif k == 'drop':
                    S.append([(t[2], None)])
                elif k == 'assert':
                    S.append([(t[3], None)])
                else:
                    S.append([])
            self._succ = S
        return self._succ

    @property
    def pred(self):
        if self._pred is None:
            P = [[] for _ in self.blocks]
            for i, es in enumerate(self.succ):
                for (t, _l) in es:
                    P[t].append(i)
            self._pred = P
        return self._pred

    @property
    def calls(self):
        if self._calls is None:
            self._calls = []
            for i, b in enumerate(self.blocks):
                if b['t'][0] == 'call' and not b.get('cleanup'):
                    self._calls.append(Call(self, i, b['t']))
        return self._calls

    def call_at(self, bb):
        for c in self.calls:
            if c.bb == bb:
                return c
        return None

    def ret_blocks(self):
        return [i for i, b in enumerate(self.blocks) if b['t'][0] == 'ret']

    # ---- defs
    @property
    def defs(self):
        """local -> list of ('=', bb, idx, place, rvalue) | ('call', bb, Call) | ('mutcall', bb, Call)"""
        if self._defs is None:
            D = defaultdict(list)
            mutref = {}  # temp local -> base local it mutably borrows
            for bi, b in enumerate(self.blocks):
                if b.get('cleanup'):
                    continue
                for si, st in enumerate(b['s']):
                    if st[0] == '=':
                        pl, rv = st[1], st[2]
                        D[pl[0]].append(('=', bi, si, pl, rv))
                        if rv[0] == 'ref' and rv[1] == 'mut' and not pl[1]:
                            mutref[pl[0]] = (rv[2][0], first_field(rv[2]))
                        if rv[0] == 'rawptr' and 'Mut' in rv[1] and not pl[1]:
                            mutref[pl[0]] = (rv[2][0], first_field(rv[2]))
                    elif st[0] == 'sd':
                        D[st[1][0]].append(('sd', bi, si, st[1], st[2]))
            # second pass: moves of &mut temps
            changed = True
            while changed:
                changed = False
                for l, ds in list(D.items()):
                    if l in mutref:
                        continue
                    for d in ds:
                        if d[0] == '=' and not d[3][1] and d[4][0] == 'use' and d[4][1][0] in ('m', 'c'):
                            src = d[4][1][1]
                            if not src[1] and src[0] in mutref:
                                mutref[l] = mutref[src[0]]
                                changed = True
            # raw-pointer aliases (`vec![..]` lowers to a write through a pointer obtained from the fresh box):
            # p = cast(copy q.<ptr fields>)  =>  a store through (*p) is a definition of q
            palias = {}
            for l, ds in list(D.items()):
                for d in ds:
                    if d[0] == '=' and not d[3][1] and d[4][0] == 'cast' and d[4][2][0] in ('c', 'm') and l < len(self.locals) and self.locals[l][0].startswith('*'):
                        src = d[4][2][1]
                        palias[l] = palias.get(src[0], src[0])
            if palias:
                for bi, b in enumerate(self.blocks):
                    if b.get('cleanup'):
                        continue
                    for si, st in enumerate(b['s']):
                        if st[0] == '=' and st[1][0] in palias and st[1][1] and st[1][1][0] == '*':
                            D[palias[st[1][0]]].append(('=', bi, si, [palias[st[1][0]], []], st[2]))
            # inside a closure: locals that hold a captured `&mut` upvar (`_t = copy (_1.i)`); writes through them are
            # writes to upvar i
            if self.kind == 'closure':
                alias = {}
                for l, ds in list(D.items()):
                    for d in ds:
                        if d[0] == '=' and not d[3][1] and d[4][0] in ('use', 'cfd'):
                            src = d[4][1][1] if d[4][0] == 'use' and d[4][1][0] in ('c', 'm') else (d[4][1] if d[4][0] == 'cfd' else None)
                            if src and src[0] == 1 and src[1]:
                                fs = [p for p in src[1] if isinstance(p, list) and p[0] == 'f']
                                if fs and fs[0][2].startswith('closure:') and all(p == '*' or p is fs[0] for p in src[1]):
                                    alias[l] = fs[0][1]
                for t, (base, ff) in list(mutref.items()):
                    if base in alias:
                        mutref[t] = (1, alias[base])
                for l, idx in alias.items():
                    for d in D.get(l, []):
                        pass
                for bi, b in enumerate(self.blocks):
                    if b.get('cleanup'):
                        continue
                    for si, st in enumerate(b['s']):
                        if st[0] == '=' and st[1][0] in alias and st[1][1] and st[1][1][0] == '*':
                            D[1].append(('=', bi, si, [1, [['f', alias[st[1][0]], 'closure:' + self.id, str(alias[st[1][0]])]]], st[2]))
            # closures capturing a local by mutable reference may write it
            for bi, b in enumerate(self.blocks):
                if b.get('cleanup'):
                    continue
                for st in b['s']:
                    if st[0] == '=' and st[2][0] == 'agg' and st[2][1].get('k') == 'closure':
                        for i, o in enumerate(st[2][2]):
                            if o[0] in ('m', 'c') and not o[1][1] and o[1][0] in mutref:
                                D[mutref[o[1][0]][0]].append(('closuremut', bi, st[2][1]['def'], i))
            for c in self.calls:
                D[c.dst[0]].append(('call', c.bb, c))
                for a in c.args:
                    if a[0] in ('m', 'c') and not a[1][1] and a[1][0] in mutref:
                        D[mutref[a[1][0]][0]].append(('mutcall', c.bb, c, mutref[a[1][0]][1]))
            self._defs = D
            self._mutref = mutref
        return self._defs

    # ---- dominators (iterative, over normal edges)
    @property
    def dom(self):
        if self._dom is None:
            n = len(self.blocks)
            order = []
            seen = [False] * n
            stack = [(0, iter(self.succ[0]))]
            seen[0] = True
            while stack:
                b, it = stack[-1]
                adv = False
                for (t, _l) in it:
                    if not seen[t]:
                        seen[t] = True
                        stack.append((t, iter(self.succ[t])))
                        adv = True
                        break
                if not adv:
                    order.append(b)
                    stack.pop()
            rpo = order[::-1]
            idx = {b: i for i, b in enumerate(rpo)}
            idom = {0: 0}

            def inter(a, b):
                while a != b:
                    while idx[a] > idx[b]:
                        a = idom[a]
                    while idx[b] > idx[a]:
                        b = idom[b]
                return a
            changed = True
            while changed:
                changed = False
                for b in rpo[1:]:
                    ps = [p for p in self.pred[b] if p in idom]
                    if not ps:
                        continue
                    new = ps[0]
                    for p in ps[1:]:
                        new = inter(p, new)
                    if idom.get(b) != new:
                        idom[b] = new
                        changed = True
            self._dom = idom
        return self._dom

    def dominates(self, a, b):
        """block a dominates block b (both reachable)"""
        idom = self.dom
        if b not in idom or a not in idom:
            return False
        while True:
            if a == b:
                return True
            if b == 0:
                return False
            b = idom[b]

    # ---- flag locals: bool locals whose every def is a constant; used to prune infeasible paths
    @property
    def flags(self):
        if self._flags is None:
            F = {}
            for l, ds in self.defs.items():
                if l < len(self.locals) and self.locals[l][0] == 'bool' and l > self.nargs:
                    ok = True
                    for d in ds:
                        if d[0] == '=' and not d[3][1] and d[4][0] == 'use' and d[4][1][0] == 'k' and 'val' in d[4][1][1]:
                            continue
                        ok = False
                        break
                    if ok and ds:
                        F[l] = True
            self._flags = F
        return self._flags

    @property
    def tracked_bools(self):
        """bool locals whose value is known on some paths: flags (every definition a constant), materialised short-circuit
        results (`let t = a && b`: one definition a constant, another a comparison) and plain copies of those"""
        if getattr(self, '_tracked', None) is None:
            T = set(self.flags)
            for l, ds in self.defs.items():
                if l in T or l >= len(self.locals) or self.locals[l][0] != 'bool' or l <= self.nargs:
                    continue
                dd = [d for d in ds if d[0] in ('=', 'call')]
                if len(dd) != len(ds) or any(d[0] == '=' and d[3][1] for d in dd) or l in self._mutref.values() or any(v[0] == l for v in self._mutref.values()):
                    continue      # also written through a `&mut` (a closure capturing it, a callee): its value is not known from the statements here
                if any(d[0] == '=' and not d[3][1] and d[4][0] == 'use' and d[4][1][0] == 'k' and 'val' in d[4][1][1] for d in dd):
                    T.add(l)
            changed = True
            while changed:
                changed = False
                for l, ds in self.defs.items():
                    if l in T or l >= len(self.locals) or self.locals[l][0] != 'bool' or l <= self.nargs:
                        continue
                    dd = [d for d in ds if d[0] in ('=', 'call')]
                    if dd and all(d[0] == '=' and not d[3][1] and d[4][0] == 'use' and d[4][1][0] in ('m', 'c') and not d[4][1][1][1] and d[4][1][1][0] in T for d in dd):
                        T.add(l)
                        changed = True
            self._tracked = T
        return self._tracked

    def _flag_updates(self, bb):
        """[(local, value)] with value a constant, ('copy', src) or None (unknown) for the tracked bools assigned in block bb"""
        ups = []
        T = self.tracked_bools
        for st in self.blocks[bb]['s']:
            if st[0] == '=' and not st[1][1] and st[1][0] in T:
                rv = st[2]
                if rv[0] == 'use' and rv[1][0] == 'k' and 'val' in rv[1][1]:
                    ups.append((st[1][0], rv[1][1]['val']))
                elif rv[0] == 'use' and rv[1][0] in ('m', 'c') and not rv[1][1][1] and rv[1][1][0] in T:
                    ups.append((st[1][0], ('copy', rv[1][1][0])))
                else:
                    ups.append((st[1][0], None))
        t = self.blocks[bb]['t']
        if t[0] == 'call' and not t[3][1] and t[3][0] in T:
            ups.append((t[3][0], None))
        return ups

    def reach(self, starts, removed=(), blocked=(), use_flags=True, stop_at=None):
        """Set of blocks reachable from `starts` along normal edges, not following edges in `removed`
        ((src,dst) or (src,dst,label)), not entering blocks in `blocked`. With use_flags, constant bool
        flags are tracked so that a switch on a flag with a known value follows only the matching arm."""
        removed = set(removed)
        blocked = set(blocked)
        seen = set()
        out = set()
        dq = deque()
        flagset = self.tracked_bools if use_flags else {}
        for s in starts:
            if s in blocked:
                continue
            st = (s, ())
            seen.add(st)
            dq.append(st)
        while dq:
            bb, facts = dq.popleft()
            out.add(bb)
            if stop_at and bb in stop_at:
                continue
            f = dict(facts)
            if flagset:
                for (l, v) in self._flag_updates(bb):
                    if v is None:
                        f.pop(l, None)
                    elif isinstance(v, tuple):
                        if v[1] in f:
                            f[l] = f[v[1]]
                        else:
                            f.pop(l, None)
                    else:
                        f[l] = v
            t = self.blocks[bb]['t']
            edges = self.succ[bb]
            if t[0] == 'switch' and flagset:
                op = t[1]
                fl = None
                if op[0] in ('m', 'c') and not op[1][1]:
                    fl = op[1][0]
                    if fl not in flagset:
                        # `_t = copy flag; switchInt(move _t)`: a temporary holding the flag, defined in this very block
                        for st in self.blocks[bb]['s']:
                            if st[0] == '=' and st[1][0] == fl and not st[1][1] and st[2][0] == 'use' and st[2][1][0] in ('m', 'c') and not st[2][1][1][1] and st[2][1][1][0] in flagset:
                                ds = self.defs.get(fl, [])
                                if len(ds) == 1:
                                    fl = st[2][1][1][0]
                                break
                if fl is not None and fl in f:
                    v = f[fl]
                    hit = [(tb, lab) for (tb, lab) in edges if lab == v]
                    if not hit:
                        hit = [(tb, lab) for (tb, lab) in edges if lab == 'otherwise']
                    edges = hit
            nf = tuple(sorted(f.items()))
            for (tb, lab) in edges:
                if tb in blocked:
                    continue
                if (bb, tb) in removed or (bb, tb, lab) in removed:
                    continue
                st = (tb, nf)
                if st not in seen:
                    seen.add(st)
                    dq.append(st)
        return out

    # ---- success / error labelling
    @property
    def errblocks(self):
        """blocks in which the return place _0 is given an error value: `_0 = Err(..)` aggregate,
        `_0 = from_residual(..)`, or (ControlFlow/Option-less) explicit moves of a local known to be Err."""
        if self._errblocks is None:
            E = set()
            for bi, b in enumerate(self.blocks):
                if b.get('cleanup'):
                    continue
                for st in b['s']:
                    if st[0] == '=' and st[1][0] == 0 and not st[1][1]:
                        rv = st[2]
                        if rv[0] == 'agg' and rv[1].get('k') == 'adt' and rv[1]['adt'] == 'core::result::Result' and rv[1]['variant'] == 'Err':
                            E.add(bi)
                t = b['t']
                if t[0] == 'call':
                    f = t[1]
                    if f.get('def', '').endswith('FromResidual::from_residual') and t[3][0] == 0 and not t[3][1]:
                        E.add(bi)
            E |= set(getattr(self, 'extra_err', ()))     # error exits of `?`-propagated helpers spliced into a view
            self._errblocks = E
        return self._errblocks

    def returns_result(self):
        return self.locals[0][0].startswith('core::result::Result<') or self.locals[0][0].startswith('std::result::Result<')

    def ok_returns_from(self, starts, blocked=(), removed=()):
        """True if some path from `starts` reaches a return without passing an error block / blocked block"""
        blk = set(blocked) | self.errblocks
        r = self.reach(starts, removed=removed, blocked=blk)
        return any(self.blocks[b]['t'][0] == 'ret' for b in r)

    def name_of(self, local):
        for n, pl in self.names:
            if pl[0] == local and not pl[1]:
                return n
        return '_%d' % local


def fingerprint(f):
    """shape of a function body that survives renaming it: crate, arity, impl type, number of blocks and the multiset of callees"""
    import hashlib
    cs = sorted((c.defp or c.callee or '?') for c in f.calls)
    h = hashlib.sha1(('%s|%s|%s|%d|%s' % (f.crate, f.nargs, f.impl_self_adt or '', len(f.blocks), ';'.join(cs))).encode()).hexdigest()[:16]
    return h


class Program:
    def __init__(self, factdir, crates=None):
        self.fns = {}
        self.consts = {}
        self.adts = {}
        self.crates = []
        self.nonces = {}
        import pickle
        raw = None
        pk = os.path.join(factdir, '.parsed.pickle')
        if crates is None and os.path.exists(pk):
            try:
                with open(pk, 'rb') as fh:
                    raw = pickle.load(fh)
            except Exception:
                raw = None
        if raw is None:
            raw = []
            for fn in sorted(os.listdir(factdir)):
                if not fn.endswith('.json'):
                    continue
                cname = fn[:-5]
                if crates and cname not in crates:
                    continue
                raw.append(json.load(open(os.path.join(factdir, fn))))
            if crates is None:
                try:
                    tmp = pk + '.%d' % os.getpid()
                    with open(tmp, 'wb') as fh:
                        pickle.dump(raw, fh, protocol=pickle.HIGHEST_PROTOCOL)
                    os.replace(tmp, pk)
                except Exception:
                    pass
        for d in raw:
            self.crates.append(d['crate'])
            self.nonces[d['crate']] = d.get('nonce')
            for f in d['fns']:
                F = Fn(self, d['crate'], f)
                self.fns[F.id] = F
            for c in d['consts']:
                self.consts[c['id']] = c
            for a in d['adts']:
                self.adts[a['id']] = a
        self.renamed = self._normalise_renames(raw)
        self._closures_of = None
        self._callees = {}
        self._callers = None
        self._reach_cache = {}
        self.inline_depth = 0      # >0: lookups return bodies with workspace helpers inlined that deep (see inline.py)
        self._views = {}

    def _normalise_renames(self, raw):
        """A function of the pinned inventory (tables/known_fns.json) that is missing, and a new function of the same crate with
        the identical body shape (fingerprint), are the same function under a new name: give it its pinned name again - in its own
        id, in its closures' ids and in every call site - so that rows naming it keep applying.  Unique matches only."""
        try:
            known = json.load(open(os.path.join(os.path.dirname(os.path.dirname(os.path.dirname(os.path.abspath(__file__)))), 'tables', 'known_fns.json')))['fns']
        except Exception:
            return {}
        if not isinstance(known, dict):
            return {}
        loaded = set(self.crates)
        present = {f.id for f in self.fns.values() if f.kind in ('fn', 'assocfn')}
        missing = [k for k in known if k not in present and k.split('::')[0] in loaded]
        if not missing:
            return {}
        new = [f for f in self.fns.values() if f.kind in ('fn', 'assocfn') and f.id not in known]
        byfp = {}
        for f in new:
            byfp.setdefault(fingerprint(f), []).append(f)
        mfp = {}
        for k in missing:
            mfp.setdefault(known[k], []).append(k)
        ren = {}
        for fp, olds in mfp.items():
            cands = byfp.get(fp, [])
            if len(olds) == 1 and len(cands) == 1 and cands[0].id.split('::')[0] == olds[0].split('::')[0]:
                ren[cands[0].id] = olds[0]
        if not ren:
            return {}

        def fix(s):
            if not isinstance(s, str):
                return s
            for a, b in ren.items():
                if s == a:
                    return b
                if s.startswith(a + '::'):
                    return b + s[len(a):]
            return s
        newfns = {}
        for f in self.fns.values():
            f.id = fix(f.id)
            f.parent = fix(f.parent)
            for b in f.blocks:
                t = b['t']
                if t[0] == 'call':
                    for k in ('def', 'res'):
                        if k in t[1]:
                            t[1][k] = fix(t[1][k])
                    t[8] = [fix(x) for x in t[8]]
                    t[9] = [fix(x) for x in t[9]]
                for st in b['s']:
                    if st[0] == '=' and st[2][0] == 'agg' and st[2][1].get('k') == 'closure':
                        st[2][1]['def'] = fix(st[2][1]['def'])
            newfns[f.id] = f
        self.fns = newfns
        return ren

    def bodies(self):
        """every body a whole-program rule should visit. Inline mode: views instead of plain bodies, and functions that are new
        relative to the pinned inventory are skipped (their statements are accounted for inside their callers' views)"""
        if not self.inline_depth:
            return list(self.fns.values())
        import inline
        K = inline.known_fns() or set()
        out = []
        for f in self.fns.values():
            if f.kind in ('fn', 'assocfn') and f.id not in K and self.callers.get(f.id):
                continue
            if f.kind == 'closure':
                root = f
                while root is not None and root.kind == 'closure':
                    root = self.fns.get(root.parent)
                if root is not None and root.kind in ('fn', 'assocfn') and root.id not in K and self.callers.get(root.id):
                    continue
            out.append(self.V(f))
        return out

    def V(self, f):
        """the body rules should look at: f itself, or (inline mode) f with its workspace callees spliced in"""
        if not self.inline_depth or f is None or getattr(f, 'inlined', None) or f.kind not in ('fn', 'assocfn', 'closure'):
            return f
        v = self._views.get(f.id)
        if v is None:
            import inline
            v = inline.view(self, f, self.inline_depth)
            self._views[f.id] = v
        return v

    # ---- lookup
    def fn(self, fid):
        return self.fns.get(fid)

    def find(self, suffix, crate=None):
        """functions whose id ends with `suffix` on a path-segment boundary"""
        out = []
        for k, f in self.fns.items():
            if crate and f.crate != crate:
                continue
            if k == suffix or k.endswith('::' + suffix):
                out.append(f)
        return out

    def one(self, suffix, crate=None):
        r = [f for f in self.find(suffix, crate) if f.kind in ('fn', 'assocfn', 'closure', 'const')]
        if len(r) != 1:
            raise AnchorMissing('anchor %s%s: expected exactly one function, found %d %s' % (
                (crate + ' ') if crate else '', suffix, len(r), [f.id for f in r][:5]))
        return self.V(r[0])

    def closures_of(self, fid, recursive=True):
        if self._closures_of is None:
            m = defaultdict(list)
            for f in self.fns.values():
                if f.kind == 'closure' and f.parent:
                    m[f.parent].append(f)
            self._closures_of = m
        out = []
        st = [fid]
        seen = set()
        while st:
            x = st.pop()
            cs = list(self._closures_of.get(x, []))
            if self.inline_depth and x in self._views:
                cs += [c for c in getattr(self._views[x], 'extra_closures', []) if c not in cs]
            for c in cs:
                if c.id in seen:
                    continue
                seen.add(c.id)
                out.append(self.V(c))
                if recursive:
                    st.append(c.id)
        return out

    def family(self, f):
        """a function plus all closures (transitively) defined in it"""
        return [f] + self.closures_of(f.id)

    def promoted_of(self, fn, idx):
        base = fn
        while base.kind in ('promoted',) and base.parent:
            base = self.fns[base.parent]
        return self.fns.get('%s::promoted[%d]' % (base.id, idx))

    # ---- call graph
    def callees(self, f):
        """set of function ids that may run when f runs: resolved callees, closures and fn items
        mentioned at its call sites (generic args / operands), closure aggregates built in f."""
        r = self._callees.get(f.key)
        if r is None:
            r = set()
            for c in f.calls:
                if c.callee:
                    r.add(c.callee)
                    if c.defp and c.defp != c.callee:
                        pass
                for x in c.cl:
                    r.add(x)
                for x in c.fd:
                    r.add(x)
                for a in c.args:
                    if a[0] == 'k':
                        if 'fn' in a[1]:
                            r.add(a[1].get('res') or a[1]['fn'])
                        if 'closure' in a[1]:
                            r.add(a[1]['closure'])
            for b in f.blocks:
                if b.get('cleanup'):
                    continue
                for st in b['s']:
                    if st[0] == '=':
                        rv = st[2]
                        if rv[0] == 'agg' and rv[1].get('k') == 'closure':
                            r.add(rv[1]['def'])
                        elif rv[0] == 'cast' and rv[2][0] == 'k' and 'fn' in rv[2][1]:
                            r.add(rv[2][1].get('res') or rv[2][1]['fn'])
                        elif rv[0] == 'use' and rv[1][0] == 'k' and 'fn' in rv[1][1]:
                            r.add(rv[1][1].get('res') or rv[1][1]['fn'])
            self._callees[f.key] = r
        return r

    def reachable_fns(self, fid):
        """ids of all functions reachable in the call graph from fid (including itself, including
        unknown/external ids as leaves)"""
        r = self._reach_cache.get(fid)
        if r is None:
            r = set()
            st = [fid]
            while st:
                x = st.pop()
                if x in r:
                    continue
                r.add(x)
                f = self.fns.get(x)
                if f is not None:
                    st.extend(self.callees(f))
            self._reach_cache[fid] = r
        return r

    @property
    def callers(self):
        if self._callers is None:
            m = defaultdict(set)
            for f in self.fns.values():
                if f.kind in ('promoted', 'const'):
                    continue
                for x in self.callees(f):
                    m[x].add(f.id)
            self._callers = m
        return self._callers

    def call_sites(self, pred, fns=None):
        """all Call objects (in non-const, non-promoted bodies) whose callee satisfies pred(callee_path)"""
        out = []
        for f in (fns if fns is not None else self.bodies()):
            if f.kind in ('promoted', 'const'):
                continue
            for c in f.calls:
                if c.callee and pred(c.callee) or (c.defp and c.defp != c.callee and pred(c.defp)):
                    out.append(c)
        return out

    def reaches(self, fid, pred_fn=None, pred_call=None):
        """does any function reachable from fid satisfy pred_fn(id) / contain a call satisfying pred_call(Call)"""
        for x in self.reachable_fns(fid):
            if pred_fn and pred_fn(x):
                return True
            if pred_call:
                f = self.fns.get(x)
                if f is not None:
                    for c in f.calls:
                        if pred_call(c):
                            return True
        return False

    def sites_reaching(self, f, pred_call, direct_only=False):
        """call sites inside body f that are the effect (pred_call) or whose callee / mentioned closures
        transitively reach a call satisfying pred_call. Returns list of (Call, direct: bool)"""
        out = []
        for c in f.calls:
            if pred_call(c):
                out.append((c, True))
                continue
            if direct_only:
                continue
            tgts = set()
            if c.callee:
                tgts.add(c.callee)
            tgts.update(c.cl)
            tgts.update(c.fd)
            for a in c.args:
                if a[0] == 'k' and 'fn' in a[1]:
                    tgts.add(a[1].get('res') or a[1]['fn'])
            hit = False
            for t in tgts:
                if t in self.fns and self.reaches(t, pred_call=pred_call):
                    hit = True
                    break
            if hit:
                out.append((c, False))
        return out

    # ---- field writes
    def field_writes(self, adt_suffix, field, fns=None):
        """[(Fn, bb, line)] for every statement/call-destination writing (ADT, field), including writes
        through &mut borrows of the field handed to a call (`ref mut place.field`)."""
        out = []
        for f in (fns if fns is not None else self.bodies()):
            if f.kind in ('promoted', 'const'):
                continue
            for bi, b in enumerate(f.blocks):
                if b.get('cleanup'):
                    continue
                for st in b['s']:
                    if st[0] != '=':
                        continue
                    pl, rv = st[1], st[2]
                    if _place_has_field(pl, adt_suffix, field, last_only=False):
                        out.append((f, bi, st[3], 'assign'))
                    if rv[0] == 'ref' and rv[1] == 'mut' and _place_has_field(rv[2], adt_suffix, field, last_only=False):
                        out.append((f, bi, st[3], 'mutref'))
                    if rv[0] == 'rawptr' and 'Mut' in rv[1] and _place_has_field(rv[2], adt_suffix, field, last_only=False):
                        out.append((f, bi, st[3], 'mutref'))
                    if rv[0] == 'agg' and rv[1].get('k') == 'adt' and _sfx(rv[1]['adt'], adt_suffix) and field in rv[1].get('fields', []):
                        out.append((f, bi, st[3], 'construct'))
                t = b['t']
                if t[0] == 'call' and _place_has_field(t[3], adt_suffix, field, last_only=False):
                    out.append((f, bi, t[6], 'calldst'))
        return out


class AnchorMissing(Exception):
    pass


def first_field(pl):
    """index of the first field projection of a place (skipping derefs / downcasts), or None"""
    for p in pl[1]:
        if p == '*':
            continue
        if isinstance(p, list) and p[0] == 'dc':
            continue
        if isinstance(p, list) and p[0] == 'f':
            return p[1]
        return None
    return None


def _sfx(path, suffix):
    return path == suffix or path.endswith('::' + suffix)


def _place_has_field(pl, adt_suffix, field, last_only=False):
    projs = pl[1]
    for p in projs:
        if isinstance(p, list) and p[0] == 'f' and p[3] == field and _sfx(p[2], adt_suffix):
            return True
    return False


def place_fields(pl):
    """[(adt, field)] along a place's projection chain"""
    return [(p[2], p[3]) for p in pl[1] if isinstance(p, list) and p[0] == 'f']


# --------------------------------------------------------------------------- slices / atoms

def short(path):
    """drop generic noise for printing"""
    return path


class Slicer:
    """Backward slice of an operand to a set of atoms:
       ('F', adt, field)  field read along the chain
       ('K', const_path)  named constant
       ('V', int)         literal scalar
       ('C', callee)      result of a call (callee = resolved or declared def path)
       ('P', n)           n-th parameter of the root function
       ('E', adt, variant) enum / struct aggregate
       ('S', str)         string literal
       ('FN', path)       function item
    Closure upvars are followed into the enclosing function's operands at the closure aggregate."""

    def __init__(self, prog, narrow=False):
        self.prog = prog
        self.cache = {}
        self.narrow = narrow

    def opaque(self, c):
        """narrow mode: calls into workspace code and the runtime traits are value sources (atoms), not
        followed into their arguments; library calls (iterators, clone, deref, `?`, conversions) are transparent."""
        cal = c.callee or ''
        d0 = c.defp or ''
        if d0.startswith('core::ops::') or d0.startswith('core::clone::') or d0.startswith('core::convert::') or d0.startswith('core::iter::') or d0.startswith('core::borrow::'):
            return False      # operator / conversion traits are value plumbing even when implemented in the workspace
        if cal in self.prog.fns:
            return True
        if cal.startswith('fil_actor') or cal.startswith('<fil_actor') or cal.startswith('fil_actors_runtime::runtime::'):
            return True
        d = c.defp or ''
        if d.startswith('fil_actors_runtime::runtime::'):
            return True
        return False

    # Every public query (operand / place / local / rvalue / call) is a fresh depth-first closure over the def-use graph:
    # the atom set of a node is the union over all nodes reachable from it, so a per-query visited set is exact and no
    # partially computed result is ever cached (a cycle guard with a shared cache would poison inner nodes).
    def operand(self, fn, op, depth=0):
        return self._q(('op', fn, op))

    def place(self, fn, pl):
        return self._q(('pl', fn, pl))

    def local(self, fn, l, ff=None):
        return self._q(('lo', fn, l, ff))

    def rvalue(self, fn, rv):
        return self._q(('rv', fn, rv))

    def call(self, fn, c, mut=False):
        return self._q(('ca', fn, c))

    def upvar(self, cfn, idx):
        return self._q(('up', cfn, idx))

    def konst(self, fn, k):
        return self._q(('ko', fn, k))

    def _result_call(self, fn, local):
        """the Call whose (possibly `?`-unwrapped, moved) result `local` holds, or None"""
        seen = set()
        l = local
        for _ in range(8):
            if l in seen:
                return None
            seen.add(l)
            ds = [d for d in fn.defs.get(l, []) if d[0] in ('=', 'call')]
            if len(ds) != 1:
                return None
            d = ds[0]
            if d[0] == '=':
                rv = d[4]
                if d[3][1]:
                    return None
                if rv[0] == 'use' and rv[1][0] in ('m', 'c'):
                    l = rv[1][1][0]
                    continue
                return None
            c = d[2]
            if (c.defp or '').endswith('Try::branch') and c.args and c.args[0][0] in ('m', 'c'):
                l = c.args[0][1][0]
                continue
            if c.callee in ADAPTERS or c.defp in ADAPTERS or (c.defp or '').endswith('::map_err'):
                if c.args and c.args[0][0] in ('m', 'c'):
                    l = c.args[0][1][0]
                    continue
            return c
        return None

    def _tx_component(self, fn, local, idx, depth=0):
        """operands (closure fn, operand) that form component `idx` of the tuple a transaction closure returns, if
        `local` is (a move / `?` of) the result of Runtime::transaction; else None"""
        seen = set()
        l = local
        for _ in range(8):
            if l in seen:
                return None
            seen.add(l)
            ds = [d for d in fn.defs.get(l, []) if d[0] in ('=', 'call')]
            if len(ds) != 1:
                return None
            d = ds[0]
            if d[0] == '=':
                rv = d[4]
                if d[3][1]:
                    return None
                if rv[0] == 'use' and rv[1][0] in ('m', 'c'):
                    l = rv[1][1][0]
                    continue
                return None
            c = d[2]
            if (c.defp or '').endswith('Try::branch') and c.args and c.args[0][0] in ('m', 'c'):
                l = c.args[0][1][0]
                continue
            if c.defp == RUNTIME + 'transaction' and c.cl:
                out = []
                for cid in c.cl:
                    cf = self.prog.fns.get(cid)
                    if cf is None or cf.parent != fn.id and not cid.startswith(fn.id):
                        continue
                    for b in cf.blocks:
                        for st in b['s']:
                            if st[0] == '=' and st[1][0] == 0 and not st[1][1] and st[2][0] == 'agg' and st[2][1].get('variant') == 'Ok' and st[2][2]:
                                op = st[2][2][0]
                                if op[0] in ('m', 'c') and not op[1][1]:
                                    for d2 in cf.defs.get(op[1][0], []):
                                        if d2[0] == '=' and d2[4][0] == 'agg' and d2[4][1].get('k') == 'tuple' and idx < len(d2[4][2]):
                                            out.append((cf, d2[4][2][idx]))
                return out or None
            return None
        return None

    def _q(self, item):
        ck = None
        if item[0] == 'lo':
            ck = ('lo', item[1].key, item[2], item[3])
        elif item[0] == 'up':
            ck = ('up', item[1].key, item[2])
        if ck is not None and ck in self.cache:
            return self.cache[ck]
        out = set()
        seen = set()
        work = [item]
        while work:
            it = work.pop()
            kind = it[0]
            fn = it[1]
            if kind == 'op':
                op = it[2]
                if op[0] in ('c', 'm'):
                    work.append(('pl', fn, op[1]))
                elif op[0] == 'k':
                    work.append(('ko', fn, op[1]))
            elif kind == 'ko':
                k = it[2]
                if 'fn' in k:
                    out.add(('FN', k.get('res') or k['fn']))
                if 'def' in k and 'promoted' not in k:
                    out.add(('K', k['def']))
                    if 'val' in k:
                        out.add(('V', k['val']))
                    elif not self.narrow:
                        cf = self.prog.fns.get(k['def'])
                        if cf is not None and cf.kind == 'const':
                            work.append(('lo', cf, 0, None))
                elif 'promoted' in k:
                    pf = self.prog.promoted_of(fn, k['promoted'])
                    if pf is not None:
                        work.append(('lo', pf, 0, None))
                elif 'val' in k:
                    out.add(('V', k['val']))
                if 'str' in k:
                    out.add(('S', k['str']))
            elif kind == 'pl':
                pl = it[2]
                for (adt, field) in place_fields(pl):
                    out.add(('F', adt, field))
                base = pl[0]
                if fn.kind == 'closure' and base == 1 and pl[1]:
                    for p in pl[1]:
                        if p == '*':
                            continue
                        if isinstance(p, list) and p[0] == 'f' and p[2].startswith('closure:'):
                            work.append(('up', fn, p[1]))
                            work.append(('lo', fn, 1, p[1]))     # in-closure updates of a captured-by-value variable
                        break
                    continue
                for p in pl[1]:
                    if isinstance(p, list) and p[0] == 'i':
                        work.append(('lo', fn, p[1], None))
                # a component of the tuple returned by `rt.transaction(|st, rt| .. Ok((a, b, c)))?`: follow component i
                # into the closure's return value instead of treating the transaction as an opaque source
                tup = [p for p in pl[1] if isinstance(p, list) and p[0] == 'f']
                if tup and tup[0][2] == 'tuple':
                    src = self._result_call(fn, base)
                    if src is not None and src.defp != RUNTIME + 'transaction':
                        out.add(('T', src.callee or src.defp, tup[0][1]))   # component idx of that call's result tuple
                    comp = self._tx_component(fn, base, tup[0][1])
                    if comp:
                        for (cf, op) in comp:
                            work.append(('op', cf, op))
                        out.add(('C', RUNTIME + 'transaction'))
                        continue
                work.append(('lo', fn, base, first_field(pl)))
            elif kind == 'up':
                idx = it[2]
                key = ('up', fn.key, idx)
                if key in seen:
                    continue
                seen.add(key)
                par = self.prog.V(self.prog.fns.get(fn.parent))
                if par is not None:
                    for b in par.blocks:
                        for st in b['s']:
                            if st[0] == '=' and st[2][0] == 'agg' and st[2][1].get('k') == 'closure' and st[2][1]['def'] == fn.id:
                                ops = st[2][2]
                                if idx < len(ops):
                                    work.append(('op', par, ops[idx]))
            elif kind == 'lo':
                l, ff = it[2], it[3]
                key = ('lo', fn.key, l, ff)
                if key in seen:
                    continue
                seen.add(key)
                if 1 <= l <= fn.nargs and not (fn.kind == 'closure' and l == 1):
                    out.add(('P', l))
                for d in fn.defs.get(l, []):
                    if fn.kind == 'closure' and l == 1 and ff is None:
                        continue
                    if d[0] == '=':
                        if ff is not None:
                            dff = first_field(d[3])
                            if dff is not None and dff != ff:
                                continue
                        work.append(('rv', fn, d[4]))
                    elif d[0] == 'call':
                        work.append(('ca', fn, d[2]))
                    elif d[0] == 'mutcall':
                        if ff is not None and d[3] is not None and d[3] != ff:
                            continue
                        work.append(('ca', fn, d[2]))
                    elif d[0] == 'closuremut':
                        cf = self.prog.fns.get(d[2])
                        if cf is not None:
                            for d2 in cf.defs.get(1, []):
                                if d2[0] == 'mutcall' and d2[3] == d[3]:
                                    work.append(('ca', cf, d2[2]))
                                elif d2[0] == '=' and first_field(d2[3]) == d[3]:
                                    work.append(('rv', cf, d2[4]))
            elif kind == 'ca':
                c = it[2]
                key = ('ca', fn.key, c.bb)
                if key in seen:
                    continue
                seen.add(key)
                if c.callee:
                    out.add(('C', c.callee))
                    if c.defp and c.defp != c.callee:
                        out.add(('C', c.defp))
                if c.defp == RUNTIME + 'transaction' and c.cl:
                    # the value of a transaction is what its closure returns
                    for cid in c.cl:
                        cf = self.prog.fns.get(cid)
                        if cf is None or cf.kind != 'closure':
                            continue
                        for b in cf.blocks:
                            for st in b['s']:
                                if st[0] == '=' and st[1][0] == 0 and not st[1][1] and st[2][0] == 'agg' and st[2][1].get('variant') == 'Ok' and st[2][2]:
                                    work.append(('op', cf, st[2][2][0]))
                    continue
                if self.narrow and self.opaque(c):
                    continue
                for a in c.args:
                    work.append(('op', fn, a))
            elif kind == 'rv':
                rv = it[2]
                k = rv[0]
                if k == 'use':
                    work.append(('op', fn, rv[1]))
                elif k in ('ref', 'rawptr'):
                    work.append(('pl', fn, rv[2]))
                elif k == 'cfd':
                    work.append(('pl', fn, rv[1]))
                elif k == 'cast':
                    work.append(('op', fn, rv[2]))
                elif k == 'bin':
                    out.add(('OP', norm_op(rv[1])))
                    work.append(('op', fn, rv[2]))
                    work.append(('op', fn, rv[3]))
                elif k == 'un':
                    work.append(('op', fn, rv[2]))
                elif k == 'discr':
                    work.append(('pl', fn, rv[1]))
                elif k == 'agg':
                    if rv[1].get('k') == 'adt':
                        out.add(('E', rv[1]['adt'], rv[1]['variant']))
                    for o in rv[2]:
                        work.append(('op', fn, o))
                elif k == 'repeat':
                    work.append(('op', fn, rv[1]))
        if ck is not None:
            self.cache[ck] = out
        return out


def norm_op(o):
    return o.replace('WithOverflow', '').replace('Unchecked', '')


ARITH_CALLS = {'add': 'Add', 'sub': 'Sub', 'mul': 'Mul', 'div': 'Div', 'rem': 'Rem', 'neg': 'Neg',
               'add_assign': 'Add', 'sub_assign': 'Sub', 'mul_assign': 'Mul', 'div_assign': 'Div',
               'checked_add': 'Add', 'checked_sub': 'Sub', 'checked_mul': 'Mul', 'saturating_sub': 'Sub', 'saturating_add': 'Add',
               'div_floor': 'Div', 'div_ceil': 'Div', 'min': 'Min', 'max': 'Max'}


def expr_ops(prog, fn, op, depth=0, seen=None):
    """operators and literals of the *expression tree* of an operand: walks back through single-definition temporaries
    only and stops at field reads, user variables with several definitions and calls into workspace code. Used to pin the
    arithmetic shape of a comparison operand (x vs x+1) without the noise of flow-insensitive slices."""
    out = set()
    seen = seen if seen is not None else set()
    if depth > 12:
        return out
    if op[0] == 'k':
        if 'val' in op[1] and 'def' not in op[1]:
            out.add(('V', op[1]['val']))     # literals only; a named constant is identified by its K atom
        return out
    if op[0] not in ('c', 'm'):
        return out
    pl = op[1]
    for p in pl[1]:
        if isinstance(p, list) and p[0] == 'f' and p[2] != 'tuple':
            return out      # a field read: leaf
    l = pl[0]
    if (fn.id, l) in seen:
        return out
    seen.add((fn.id, l))
    if 1 <= l <= fn.nargs:
        return out          # a parameter is a leaf (its incoming value is a definition of its own)
    ds = [d for d in fn.defs.get(l, []) if d[0] in ('=', 'call')]
    if len(ds) != 1:
        return out
    d = ds[0]
    if d[0] == '=':
        rv = d[4]
        if d[3][1]:
            return out
        k = rv[0]
        if k == 'use':
            return expr_ops(prog, fn, rv[1], depth + 1, seen)
        if k == 'cast':
            return expr_ops(prog, fn, rv[2], depth + 1, seen)
        if k == 'bin':
            o = norm_op(rv[1])
            if o not in ('Lt', 'Le', 'Gt', 'Ge', 'Eq', 'Ne'):
                out.add(('OP', o))
            return out | expr_ops(prog, fn, rv[2], depth + 1, seen) | expr_ops(prog, fn, rv[3], depth + 1, seen)
        if k == 'un':
            out.add(('OP', rv[1]))
            return out | expr_ops(prog, fn, rv[2], depth + 1, seen)
        if k in ('ref', 'rawptr'):
            return expr_ops(prog, fn, ['c', rv[2]], depth + 1, seen)
        if k == 'cfd':
            return expr_ops(prog, fn, ['c', rv[1]], depth + 1, seen)
        return out
    c = d[2]
    cal = c.callee or ''
    if not (c.defp or '').startswith('core::ops::') and (cal in prog.fns or cal.startswith('fil_actor') or (c.defp or '').startswith('fil_actors_runtime::runtime::')):
        return out          # (operator traits implemented in the workspace - PowerPair + PowerPair - are arithmetic, not opaque calls)
    last = (c.defp or cal).split('::')[-1]
    if last in ARITH_CALLS:
        out.add(('OP', ARITH_CALLS[last]))
    for a in c.args:
        out |= expr_ops(prog, fn, a, depth + 1, seen)
    return out


_LIN_OPS = re.compile(r'core::ops::arith::(Add|Sub|Neg)(Assign)?\b')
_LIN_THROUGH = ('core::clone::Clone::clone', 'core::ops::deref::Deref::deref', 'core::borrow::Borrow::borrow', 'core::convert::From::from', 'core::convert::Into::into',
                'core::convert::AsRef::as_ref', 'core::ops::try_trait::Try::branch', 'alloc::borrow::ToOwned::to_owned')


def linear_form(prog, fn, op, sign=1, depth=0, seen=None, out=None):
    """Signed leaves of an additive expression: {leaf: set(signs)} where a leaf is 'F:Adt.field' (a field read), 'P:n' (a parameter),
    'C:<callee>' (result of a call that is not +, -, unary -, clone/deref/`?` plumbing), 'K:<const>' or 'V:<literal>'.
    `a - b - c`, `a - (b + c)` and `let t = b + c; a - t` give the same form, so a ledger formula can be pinned up to
    re-association.  Walks single-definition temporaries only; anything else becomes a leaf 'L:<local>' with both signs."""
    out = out if out is not None else {}
    seen = seen if seen is not None else set()

    def leaf(k, sg):
        out.setdefault(k, set()).add(sg)
    if depth > 40:
        return out
    if op[0] == 'k':
        k = op[1]
        if 'def' in k and 'promoted' not in k:
            leaf('K:' + k['def'].split('::')[-1], sign)
        elif 'promoted' in k:
            pf = prog.promoted_of(fn, k['promoted'])
            if pf is not None:
                linear_form(prog, pf, ['c', [0, []]], sign, depth + 1, seen, out)
        elif 'val' in k:
            leaf('V:%s' % k['val'], sign)
        return out
    if op[0] not in ('c', 'm'):
        return out
    pl = op[1]
    flds = [p for p in pl[1] if isinstance(p, list) and p[0] == 'f' and p[2] != 'tuple' and not p[2].startswith('core::') and not p[2].startswith('closure:')]
    if flds:
        leaf('F:%s.%s' % (flds[-1][2].split('::')[-1], flds[-1][3]), sign)
        return out
    l = pl[0]
    if 1 <= l <= fn.nargs and not (fn.kind == 'closure' and l == 1):
        leaf('P:%d' % l, sign)
        return out
    ds = [d for d in fn.defs.get(l, []) if d[0] in ('=', 'call')]
    if len(ds) > 1:
        # a Result that is Ok(value) on one path and an error on the others: the value is what the Ok arm carries
        ds = [d for d in ds if not (d[0] == '=' and d[4][0] == 'agg' and d[4][1].get('variant') == 'Err') and not (d[0] == 'call' and (d[2].defp or '').endswith('FromResidual::from_residual'))]
    if (fn.key, l, sign) in seen:
        return out
    if len(ds) != 1:
        if 2 <= len(ds) <= 4 and all(not d[3][1] for d in ds if d[0] == '='):
            # a value chosen among a few alternatives (`if c { a } else { b }`): the union of their forms
            seen.add((fn.key, l, sign))
            for d in ds:
                _lin_def(prog, fn, l, d, sign, depth, seen, out, leaf)
            return out
        leaf('L:%s' % fn.name_of(l), 1)
        leaf('L:%s' % fn.name_of(l), -1)
        return out
    seen.add((fn.key, l, sign))
    return _lin_def(prog, fn, l, ds[0], sign, depth, seen, out, leaf)


def _lin_def(prog, fn, l, d, sign, depth, seen, out, leaf):
    if d[0] == '=':
        rv = d[4]
        k = rv[0]
        if k == 'use':
            return linear_form(prog, fn, rv[1], sign, depth + 1, seen, out)
        if k == 'cast':
            return linear_form(prog, fn, rv[2], sign, depth + 1, seen, out)
        if k in ('ref', 'rawptr'):
            return linear_form(prog, fn, ['c', rv[2]], sign, depth + 1, seen, out)
        if k == 'cfd':
            return linear_form(prog, fn, ['c', rv[1]], sign, depth + 1, seen, out)
        if k == 'bin':
            o = norm_op(rv[1])
            if o == 'Add':
                linear_form(prog, fn, rv[2], sign, depth + 1, seen, out)
                return linear_form(prog, fn, rv[3], sign, depth + 1, seen, out)
            if o == 'Sub':
                linear_form(prog, fn, rv[2], sign, depth + 1, seen, out)
                return linear_form(prog, fn, rv[3], -sign, depth + 1, seen, out)
            leaf('L:%s' % fn.name_of(l), sign)
            return out
        if k == 'un' and rv[1] == 'Neg':
            return linear_form(prog, fn, rv[2], -sign, depth + 1, seen, out)
        if k == 'agg' and rv[1].get('k') == 'adt' and rv[1].get('adt') in ('core::result::Result', 'core::option::Option') and len(rv[2]) == 1:
            return linear_form(prog, fn, rv[2][0], sign, depth + 1, seen, out)
        leaf('L:%s' % fn.name_of(l), sign)
        return out
    c = d[2]
    dp, cal = c.defp or '', c.callee or ''
    m = _LIN_OPS.search(dp) or _LIN_OPS.search(cal)
    if m and not m.group(2):
        if m.group(1) == 'Neg':
            return linear_form(prog, fn, c.args[0], -sign, depth + 1, seen, out)
        linear_form(prog, fn, c.args[0], sign, depth + 1, seen, out)
        return linear_form(prog, fn, c.args[1], sign if m.group(1) == 'Add' else -sign, depth + 1, seen, out)
    if dp in _LIN_THROUGH or cal in _LIN_THROUGH or dp.endswith('::clone') or dp in ADAPTERS or cal in ADAPTERS or dp.endswith('::map_err') or dp.endswith('::neg') and False:
        return linear_form(prog, fn, c.args[0], sign, depth + 1, seen, out)
    if dp.endswith('Neg::neg') or cal.endswith('::neg'):
        return linear_form(prog, fn, c.args[0], -sign, depth + 1, seen, out)
    if (dp.endswith(('cmp::Ord::max', 'cmp::Ord::min', 'cmp::max', 'cmp::min')) or cal.endswith(('cmp::max', 'cmp::min'))) and len(c.args) == 2:
        leaf('C:' + (dp or cal).split('::')[-1], sign)        # monotone in both arguments: they keep their sign
        linear_form(prog, fn, c.args[0], sign, depth + 1, seen, out)
        return linear_form(prog, fn, c.args[1], sign, depth + 1, seen, out)
    leaf('C:' + '::'.join((cal or dp).split('::')[-2:]), sign)
    return out


def atom_str(a):
    if a[0] == 'F':
        return 'F:%s.%s' % (a[1].split('::')[-1] if not a[1].startswith('closure:') else a[1], a[2])
    if a[0] == 'E':
        return 'E:%s::%s' % (a[1].split('::')[-1], a[2])
    if a[0] in ('K', 'C', 'FN'):
        return '%s:%s' % (a[0], a[1])
    if a[0] == 'T':
        return 'T:%s.%s' % (a[1], a[2])
    return '%s:%s' % (a[0], a[1])


def has_atom(atoms, pat):
    """pat: 'F:MinerInfo.owner', 'K:...SYSTEM_ACTOR_ADDR' (suffix match on path), 'C:...::caller', 'V:0', 'E:Type::Miner', 'P:2'"""
    kind, _, rest = pat.partition(':')
    for a in atoms:
        if a[0] != kind:
            continue
        if kind == 'F':
            adt, _, field = rest.rpartition('.')
            if a[2] == field and _sfx(a[1], adt):
                return True
        elif kind == 'E':
            adt, _, var = rest.rpartition('::')
            if not adt:
                if _sfx(a[1], var):
                    return True
            elif a[2] == var and _sfx(a[1], adt):
                return True
        elif kind in ('K', 'C', 'FN'):
            if _sfx(a[1], rest) or a[1].endswith(rest):
                return True
        elif kind == 'T':
            fnp, _, idx = rest.rpartition('.')
            if str(a[2]) == idx and (a[1] or '').endswith(fnp):
                return True
        elif kind == 'V':
            if str(a[1]) == rest:
                return True
        elif kind == 'P':
            if str(a[1]) == rest:
                return True
        elif kind in ('S', 'OP', 'XOP'):
            if rest in str(a[1]):
                return True
    return False


def has_all(atoms, pats):
    return all(has_atom(atoms, p) for p in pats)


# --------------------------------------------------------------------------- conditions

CMP_TRAIT = {
    'core::cmp::PartialOrd::lt': 'lt', 'core::cmp::PartialOrd::le': 'le',
    'core::cmp::PartialOrd::gt': 'gt', 'core::cmp::PartialOrd::ge': 'ge',
    'core::cmp::PartialEq::eq': 'eq', 'core::cmp::PartialEq::ne': 'ne',
}
BINOP = {'Lt': 'lt', 'Le': 'le', 'Gt': 'gt', 'Ge': 'ge', 'Eq': 'eq', 'Ne': 'ne'}
NEG = {'lt': 'ge', 'le': 'gt', 'gt': 'le', 'ge': 'lt', 'eq': 'ne', 'ne': 'eq'}
SWAP = {'lt': 'gt', 'le': 'ge', 'gt': 'lt', 'ge': 'le', 'eq': 'eq', 'ne': 'ne'}


class Cond:
    """A two-way branch: `kind` in {'rel','pred','variant'};
       rel: rel in lt/le/eq/ne (canonical: gt/ge swapped), A, B atom sets; arms {True: bb, False: bb}
       pred: callee path (bool-returning call), A = atoms of all args; arms {True, False}
       variant: place atoms A, adt, arms {variant_name_or_value: bb, 'otherwise': bb}"""

    def __init__(self, fn, bb, kind):
        self.fn = fn
        self.bb = bb
        self.kind = kind
        self.rel = None
        self.pred = None
        self.A = set()
        self.B = set()
        self.arms = {}
        self.line = None

    def __repr__(self):
        if self.kind == 'rel':
            return 'Cond(bb%d %s: [%s] %s [%s])' % (self.bb, self.line, ','.join(sorted(atom_str(a) for a in self.A))[:200], self.rel, ','.join(sorted(atom_str(a) for a in self.B))[:200])
        return 'Cond(bb%d %s: %s %s [%s] arms=%s)' % (self.bb, self.line, self.kind, self.pred, ','.join(sorted(atom_str(a) for a in self.A))[:300], self.arms)


def conds(fn, slicer):
    """Canonical conditions of all switch blocks in fn."""
    if fn._conds is not None:
        return fn._conds
    out = []
    for bi, b in enumerate(fn.blocks):
        if b.get('cleanup'):
            continue
        t = b['t']
        if t[0] != 'switch':
            continue
        op = t[1]
        if op[0] not in ('m', 'c') or op[1][1]:
            # switch directly on a field place (e.g. bool field)
            if op[0] in ('m', 'c'):
                c = Cond(fn, bi, 'pred')
                c.pred = 'field'
                c.A = slicer.place(fn, op[1])
                arms = {}
                for v, tb in t[2]:
                    if v == 0:
                        arms[False] = tb
                arms[True] = t[3]
                c.arms = arms
                out.append(c)
            continue
        l = op[1][0]
        c = _cond_of_local(fn, slicer, bi, l, t, neg=False, depth=0)
        if c is not None:
            out.append(c)
    fn._conds = out
    return out


def _bool_arms(t, neg):
    arms = {}
    for v, tb in t[2]:
        if v == 0:
            arms[False] = tb
        elif v == 1:
            arms[True] = tb
    other = t[3]
    if False not in arms:
        arms[False] = other
    if True not in arms:
        arms[True] = other
    if neg:
        arms = {True: arms[False], False: arms[True]}
    return arms


def _single_def(fn, l):
    ds = fn.defs.get(l, [])
    if len(ds) == 1 and ds[0][0] in ('=', 'call'):
        return ds[0]
    return None


def _semi_def(fn, l):
    """`let t = a && b` / `a || b` materialised: one definition computes the condition, the others are bool constants (the
    short-circuit arms, whose value the path-sensitive reachability knows). Returns the computing definition."""
    if l >= len(fn.locals) or fn.locals[l][0] != 'bool':
        return None
    ds = [d for d in fn.defs.get(l, []) if d[0] in ('=', 'call')]
    if len(ds) < 2 or len(ds) != len(fn.defs.get(l, [])) or l not in fn.tracked_bools:
        return None
    nonconst = [d for d in ds if not (d[0] == '=' and not d[3][1] and d[4][0] == 'use' and d[4][1][0] == 'k' and 'val' in d[4][1][1])]
    if len(nonconst) == 1 and len(ds) - 1 >= 1:
        return nonconst[0]
    return None


def _cond_of_local(fn, slicer, bi, l, t, neg, depth):
    if depth > 6:
        return None
    d = _single_def(fn, l) or _semi_def(fn, l)
    if d is None:
        # multi-def bool (phi of constants or user variable): describe by slice
        if fn.locals[l][0] == 'bool':
            c = Cond(fn, bi, 'pred')
            c.pred = 'flag' if l in fn.flags else 'boolvar'
            c.A = slicer.local(fn, l)
            c.arms = _bool_arms(t, neg)
            c.flag = l
            return c
        return None
    if d[0] == '=':
        rv = d[4]
        line = None
        if rv[0] == 'bin' and rv[1] in BINOP:
            rel = BINOP[rv[1]]
            A = slicer.operand(fn, rv[2])
            B = slicer.operand(fn, rv[3])
            return _mk_rel(fn, bi, rel, A, B, t, neg, ops=(expr_ops(slicer.prog, fn, rv[2]), expr_ops(slicer.prog, fn, rv[3])))
        if rv[0] == 'un' and rv[1] == 'Not' and rv[2][0] in ('m', 'c') and not rv[2][1][1]:
            return _cond_of_local(fn, slicer, bi, rv[2][1][0], t, not neg, depth + 1)
        if rv[0] == 'use' and rv[1][0] in ('m', 'c') and not rv[1][1][1]:
            return _cond_of_local(fn, slicer, bi, rv[1][1][0], t, neg, depth + 1)
        if rv[0] == 'use' and rv[1][0] in ('m', 'c'):
            c = Cond(fn, bi, 'pred')
            c.pred = 'field'
            c.A = slicer.place(fn, rv[1][1])
            c.arms = _bool_arms(t, neg)
            return c
        if rv[0] == 'discr':
            c = Cond(fn, bi, 'variant')
            c.A = slicer.place(fn, rv[1])
            c.place = rv[1]
            adt = None
            if not rv[1][1]:
                adt = fn.locals[rv[1][0]][1]
            else:
                # type of last field unknown here; leave None
                adt = None
            c.adt = adt
            arms = {}
            for v, tb in t[2]:
                arms[v] = tb
            arms['otherwise'] = t[3]
            c.arms = arms
            c.values = [v for v, _ in t[2]]
            return c
        if rv[0] in ('bin',):
            c = Cond(fn, bi, 'pred')
            c.pred = 'binop:' + rv[1]
            c.A = slicer.operand(fn, rv[2]) | slicer.operand(fn, rv[3])
            c.arms = _bool_arms(t, neg)
            return c
        return None
    if d[0] == 'call':
        call = d[2]
        cal = call.defp or ''
        if cal in CMP_TRAIT or (call.callee or '') in CMP_TRAIT:
            rel = CMP_TRAIT.get(cal) or CMP_TRAIT.get(call.callee)
            A = slicer.operand(fn, call.args[0])
            B = slicer.operand(fn, call.args[1])
            return _mk_rel(fn, bi, rel, A, B, t, neg, line=call.line, ops=(expr_ops(slicer.prog, fn, call.args[0]), expr_ops(slicer.prog, fn, call.args[1])))
        # resolved impl of PartialEq/PartialOrd: `<T as PartialOrd>::lt`
        m = re.search(r'as core::cmp::Partial(Ord|Eq)(<.*>)?>::(lt|le|gt|ge|eq|ne)$', call.callee or '')
        if m and len(call.args) == 2:
            A = slicer.operand(fn, call.args[0])
            B = slicer.operand(fn, call.args[1])
            return _mk_rel(fn, bi, m.group(3), A, B, t, neg, line=call.line, ops=(expr_ops(slicer.prog, fn, call.args[0]), expr_ops(slicer.prog, fn, call.args[1])))
        if fn.locals[l][0] == 'bool':
            c = Cond(fn, bi, 'pred')
            c.pred = call.callee
            c.predcall = call
            c.direct = direct_fields(fn, call.args[0]) if call.args else []
            A = set()
            for a in call.args:
                A |= slicer.operand(fn, a)
            c.A = A
            c.arms = _bool_arms(t, neg)
            c.line = call.line
            return c
    return None


def direct_fields(fn, op, depth=0):
    """(adt, field) chain of the place an operand refers to *directly* (through `&place` temporaries and copies), without
    following the base local's other definitions - i.e. which field a predicate such as `x.f.is_negative()` is about"""
    if depth > 5 or op[0] not in ('c', 'm'):
        return []
    pl = op[1]
    fs = place_fields(pl)
    if fs:
        return fs
    ds = [d for d in fn.defs.get(pl[0], []) if d[0] == '=']
    if len(ds) != 1:
        return []
    rv = ds[0][4]
    if rv[0] in ('ref', 'rawptr'):
        fs = place_fields(rv[2])
        if fs:
            return fs
        return direct_fields(fn, ['c', rv[2]], depth + 1)
    if rv[0] == 'use':
        return direct_fields(fn, rv[1], depth + 1)
    if rv[0] == 'cfd':
        return direct_fields(fn, ['c', rv[1]], depth + 1)
    return []


def _mk_rel(fn, bi, rel, A, B, t, neg, line=None, ops=(frozenset(), frozenset())):
    c = Cond(fn, bi, 'rel')
    arms = _bool_arms(t, neg)
    oa, ob = ops
    # canonical: only lt / le / eq / ne ; gt,ge -> swap operands
    if rel in ('gt', 'ge'):
        rel = SWAP[rel]
        A, B = B, A
        oa, ob = ob, oa
    c.opsA = oa
    c.opsB = ob
    c.rel = rel
    c.A = A
    c.B = B
    c.arms = arms
    c.line = line
    return c


_ZERO_ATOMS = frozenset([('C', 'num_traits::identities::Zero::zero'), ('V', 0), ('K', 'ZERO')])


class _SignRel:
    """view of a sign predicate condition as a relation with zero"""
    kind = 'rel'

    def __init__(self, c):
        self.bb, self.arms, self.line = c.bb, c.arms, c.line
        if c.pred.endswith('::is_negative'):
            self.rel, self.A, self.B = 'lt', c.A, _ZERO_ATOMS
        elif c.pred.endswith('::is_positive'):
            self.rel, self.A, self.B = 'lt', _ZERO_ATOMS, c.A
        else:
            self.rel, self.A, self.B = 'eq', c.A, _ZERO_ATOMS
        self.opsA = getattr(c, 'opsA', set())
        self.opsB = set()


def is_zero_side(atoms):
    """the operand is the constant zero (`T::zero()`, literal 0, a ZERO constant) and nothing else"""
    vals = [a for a in atoms if a[0] in ('C', 'V', 'K', 'F', 'P', 'T', 'E')]
    if not vals:
        return False
    for a in vals:
        if a[0] == 'C' and (a[1].endswith('::zero') or a[1].endswith('Zero::zero') or a[1].endswith('::default')):
            continue
        if a[0] == 'V' and str(a[1]) == '0':
            continue
        if a[0] == 'K' and a[1].endswith('ZERO'):
            continue
        return False
    return True


def match_rel(c, rel, a_pats, b_pats):
    """Does cond c express `A rel B` (possibly as the negation on the other arm)? Returns the truth value of
    the arm on which `A rel B` HOLDS (True/False) or None if no match.
    rel in lt/le/eq/ne/gt/ge; a_pats/b_pats are lists of atom patterns required on each side."""
    if c.kind == 'pred' and isinstance(c.pred, str) and c.pred.endswith(('::is_negative', '::is_positive', '::is_zero')):
        # x.is_negative() is x < 0, x.is_positive() is 0 < x, x.is_zero() is x == 0: judged as the relation with zero
        c = _SignRel(c)
    if c.kind != 'rel':
        return None
    if rel in ('gt', 'ge'):
        rel = SWAP[rel]
        a_pats, b_pats = b_pats, a_pats
    # direct
    if c.rel == rel and has_all(c.A, a_pats) and has_all(c.B, b_pats):
        return True
    if rel in ('eq', 'ne') and c.rel == rel and has_all(c.A, b_pats) and has_all(c.B, a_pats):
        return True
    # negation: A rel B  <=>  not (A NEG(rel) B); NEG(lt)=ge -> canonical: B le A
    nrel = NEG[rel]
    na, nb = a_pats, b_pats
    if nrel in ('gt', 'ge'):
        nrel = SWAP[nrel]
        na, nb = nb, na
    if c.rel == nrel and has_all(c.A, na) and has_all(c.B, nb):
        return False
    if nrel in ('eq', 'ne') and c.rel == nrel and has_all(c.A, nb) and has_all(c.B, na):
        return False
    return None


# --------------------------------------------------------------------------- result propagation

ADAPTERS = (
    'core::result::Result::<T, E>::map_err', 'core::result::Result::<T, E>::map',
    'core::result::Result::<T, E>::and_then', 'core::result::Result::<T, E>::or_else',
    'fil_actors_runtime::actor_error::ActorContext::context',
    'fil_actors_runtime::actor_error::ActorContext::with_context',
    'fil_actors_runtime::actor_error::AsActorError::exit_code',
    'fil_actors_runtime::actor_error::AsActorError::context_code',
    'fil_actors_runtime::actor_error::AsActorError::with_context_code',
    'fil_actors_runtime::util::message_accumulator',
    'fil_actors_runtime::builtin::shared::extract_send_result',
    'fil_actors_runtime::actor_error::deserialize_block',
    'anyhow::Context::context', 'anyhow::Context::with_context',
    'core::convert::Into::into', 'core::convert::From::from',
)


def result_fate(fn, call, prog=None, maxhops=12, via=None):
    """What happens to the Result produced by `call` in fn:
       'try'      flows (through moves and the repo's result adapters) into Try::branch   (`?`)
       'returned' is moved into _0 (tail expression)
       'matched'  its discriminant is switched on locally (match / if let)
       'passed'   handed to another call that is not an adapter
       'dropped'  none of the above (unused / `let _ =`)
    """
    seen = set()
    work = [call.dst[0]]
    fate = 'dropped'
    rank = {'dropped': 0, 'passed': 1, 'matched': 2, 'returned': 3, 'try': 4}
    hops = 0
    while work and hops < 200:
        hops += 1
        l = work.pop()
        if l in seen:
            continue
        seen.add(l)
        if l == 0:
            if rank['returned'] > rank[fate]:
                fate = 'returned'
            continue
        # uses of l
        for bi, b in enumerate(fn.blocks):
            if b.get('cleanup'):
                continue
            for st in b['s']:
                if st[0] != '=':
                    continue
                rv = st[2]
                if rv[0] in ('use', 'cast') :
                    op = rv[1] if rv[0] == 'use' else rv[2]
                    if op[0] in ('m', 'c') and op[1][0] == l:
                        work.append(st[1][0])
                elif rv[0] in ('ref', 'cfd', 'rawptr'):
                    pl = rv[2] if rv[0] != 'cfd' else rv[1]
                    if pl[0] == l:
                        work.append(st[1][0])
                elif rv[0] == 'discr' and rv[1][0] == l:
                    if rank['matched'] > rank[fate]:
                        fate = 'matched'
                elif rv[0] == 'agg':
                    for o in rv[2]:
                        if o[0] in ('m', 'c') and o[1][0] == l:
                            work.append(st[1][0])
            t = b['t']
            if t[0] == 'call':
                uses = any(a[0] in ('m', 'c') and a[1][0] == l for a in t[2])
                if uses:
                    f = t[1]
                    d = f.get('def', '')
                    if d.endswith('ops::try_trait::Try::branch'):
                        return 'try'
                    r = f.get('res') or d
                    if via is not None:
                        via.append(r)
                    if d in ADAPTERS or r in ADAPTERS or any(d.endswith(x.split('::')[-1]) and ('Result' in d or 'ActorContext' in d or 'AsActorError' in d or 'Context' in d) for x in ADAPTERS):
                        work.append(t[3][0])
                    elif d.endswith('::unwrap') or d.endswith('::expect') or d.endswith('::unwrap_or_default') or d.endswith('::unwrap_or'):
                        if rank['matched'] > rank[fate]:
                            fate = 'matched'
                    else:
                        if rank['passed'] > rank[fate]:
                            fate = 'passed'
    return fate


def result_via(fn, call):
    """(fate, callees the Result of `call` is handed to on its way, adapters included)"""
    via = []
    return result_fate(fn, call, via=via), via


# --------------------------------------------------------------------------- path-sensitive exploration

def place_key(pl):
    """(base local, tuple of field indices) ignoring derefs and downcasts; None if the place has index projections"""
    fp = []
    for p in pl[1]:
        if p == '*':
            continue
        if isinstance(p, list):
            if p[0] == 'f':
                fp.append(p[1])
            elif p[0] == 'dc':
                fp.append(('dc', p[2]))
            else:
                return None
    return (pl[0], tuple(fp))


def _prefix_related(a, b):
    n = min(len(a), len(b))
    return a[:n] == b[:n]


IS_NONE = 'core::option::Option::<T>::is_none'
IS_SOME = 'core::option::Option::<T>::is_some'
IS_OK = 'core::result::Result::<T, E>::is_ok'
IS_ERR = 'core::result::Result::<T, E>::is_err'


class Explorer:
    """Forward exploration of one body over states (block, user state, facts).
    facts: constant bool flags and known discriminants of places (established by `switch discr(place)` arms and by
    Option::is_none / is_some tests; killed by writes to / mutable borrows of the place). Edges contradicting a fact are
    not followed. This is the only path sensitivity used anywhere in the engine."""

    def __init__(self, fn):
        self.fn = fn
        self.tmp_discr = {}    # temp local -> place key it is the discriminant of
        self.tmp_pred = {}     # temp local -> (place key, value if true, value if false)
        refs = {}
        for bi, b in enumerate(fn.blocks):
            for st in b['s']:
                if st[0] == '=' and not st[1][1]:
                    rv = st[2]
                    if rv[0] == 'discr':
                        k = place_key(rv[1])
                        if k is not None:
                            self.tmp_discr[st[1][0]] = k
                    elif rv[0] == 'ref' and rv[1] == 'shared':
                        k = place_key(rv[2])
                        if k is not None:
                            refs[st[1][0]] = k
        for c in fn.calls:
            if c.callee in (IS_NONE, IS_SOME, IS_OK, IS_ERR) and c.args and c.args[0][0] in ('m', 'c') and not c.args[0][1][1]:
                k = refs.get(c.args[0][1][0])
                if k is not None and not c.dst[1]:
                    if c.callee == IS_NONE:
                        self.tmp_pred[c.dst[0]] = (k, 0, 1)
                    elif c.callee == IS_SOME:
                        self.tmp_pred[c.dst[0]] = (k, 1, 0)
                    elif c.callee == IS_OK:
                        self.tmp_pred[c.dst[0]] = (k, 0, 1)
                    elif c.callee == IS_ERR:
                        self.tmp_pred[c.dst[0]] = (k, 1, 0)

    def _kill(self, facts, pl):
        k = place_key(pl)
        base = pl[0]
        dead = []
        for fk in facts:
            if isinstance(fk, tuple) and fk[0] == 'D' and fk[1] == base:
                if k is None or _prefix_related(fk[2], k[1]):
                    dead.append(fk)
        for fk in dead:
            del facts[fk]

    def block_facts(self, bb, facts):
        fn = self.fn
        f = dict(facts)
        for st in fn.blocks[bb]['s']:
            if st[0] == '=':
                pl, rv = st[1], st[2]
                if not pl[1] and pl[0] in fn.flags:
                    f[pl[0]] = rv[1][1]['val']
                else:
                    self._kill(f, pl)
                if rv[0] == 'ref' and rv[1] == 'mut':
                    self._kill(f, rv[2])
                if rv[0] == 'rawptr' and 'Mut' in rv[1]:
                    self._kill(f, rv[2])
                if rv[0] == 'agg' and rv[1].get('k') == 'adt' and not pl[1] is None:
                    k = place_key(pl)
                    if k is not None and rv[1]['adt'] in ('core::option::Option', 'core::result::Result'):
                        f[('D', k[0], k[1])] = rv[1]['vidx']
            elif st[0] == 'sd':
                self._kill(f, st[1])
        t = fn.blocks[bb]['t']
        if t[0] == 'call':
            self._kill(f, t[3])
            k = place_key(t[3])
        if t[0] == 'drop':
            pass
        return f

    def edges(self, bb, f):
        """[(target, label, facts_after)] honouring facts"""
        fn = self.fn
        t = fn.blocks[bb]['t']
        out = []
        if t[0] != 'switch':
            return [(tb, lab, f) for (tb, lab) in fn.succ[bb]]
        op = t[1]
        edges = fn.succ[bb]
        if op[0] in ('m', 'c') and not op[1][1]:
            l = op[1][0]
            if l in f and l in fn.flags:
                v = f[l]
                hit = [(tb, lab) for (tb, lab) in edges if lab == v] or [(tb, lab) for (tb, lab) in edges if lab == 'otherwise']
                return [(tb, lab, f) for (tb, lab) in hit]
            if l in self.tmp_discr:
                k = self.tmp_discr[l]
                fk = ('D', k[0], k[1])
                vals = [lab for (_tb, lab) in edges if lab != 'otherwise']
                if fk in f:
                    v = f[fk]
                    if isinstance(v, tuple):  # ('not', set)
                        hit = [(tb, lab) for (tb, lab) in edges if lab == 'otherwise' or lab not in v[1]]
                        return [(tb, lab, f) for (tb, lab) in hit]
                    hit = [(tb, lab) for (tb, lab) in edges if lab == v] or [(tb, lab) for (tb, lab) in edges if lab == 'otherwise']
                    return [(tb, lab, f) for (tb, lab) in hit]
                for (tb, lab) in edges:
                    nf = dict(f)
                    if lab == 'otherwise':
                        if len(vals) == 1 and vals[0] in (0, 1):
                            nf[fk] = 1 - vals[0]   # two-variant enums (Option/Result/ControlFlow)
                        else:
                            nf[fk] = ('not', frozenset(vals))
                    else:
                        nf[fk] = lab
                    out.append((tb, lab, nf))
                return out
            if l in self.tmp_pred:
                k, vt, vf = self.tmp_pred[l]
                fk = ('D', k[0], k[1])
                arms = _bool_arms(t, False)
                if fk in f and not isinstance(f[fk], tuple):
                    truth = (f[fk] == vt)
                    tb = arms[truth]
                    return [(tb, None, f)]
                res = []
                for truth, tb in arms.items():
                    nf = dict(f)
                    nf[fk] = vt if truth else vf
                    res.append((tb, truth, nf))
                return res
        return [(tb, lab, f) for (tb, lab) in edges]

    def run(self, init, step, start=0, blocked=(), max_states=200000):
        """init: hashable user state; step(bb, ustate) -> iterable of user states after the block's terminator.
        Returns dict ret_block -> set(user states) and the set of all visited (bb, ustate)."""
        fn = self.fn
        blocked = set(blocked)
        seen = set()
        dq = deque()
        rets = defaultdict(set)
        s0 = (start, init, ())
        seen.add(s0)
        dq.append(s0)
        visited = set()
        while dq:
            bb, us, facts = dq.popleft()
            visited.add((bb, us))
            if len(seen) > max_states:
                raise RuntimeError('state explosion in %s' % fn.id)
            f = self.block_facts(bb, dict(facts))
            t = fn.blocks[bb]['t']
            if t[0] == 'ret':
                rets[bb].add(us)
                continue
            for nus in step(bb, us):
                for (tb, lab, nf) in self.edges(bb, f):
                    if tb in blocked:
                        continue
                    st = (tb, nus, tuple(sorted(nf.items(), key=repr)))
                    if st not in seen:
                        seen.add(st)
                        dq.append(st)
        return rets, visited
