"""Thorough tier: sensitivity audit. Stored break patches (selftest/mutants + seeded/) are applied one at a time to a scratch
copy of the *current* /repo working tree (never to /repo), facts are re-extracted there, and the property's rules must fire
naming the expected instance; refactor patches must stay silent. Results go into the evidence only; the exit status of the
check reflects the current tree alone."""
import importlib, importlib.util, json, os, re, shutil, subprocess, sys, tempfile, time

HERE = os.path.dirname(os.path.abspath(__file__))
VERIF = os.path.dirname(os.path.dirname(HERE))
REPO = os.environ.get('BA_REPO', '/repo')


def specs():
    sp = importlib.util.spec_from_file_location('mutspecs', os.path.join(VERIF, 'selftest', 'mutants.py'))
    m = importlib.util.module_from_spec(sp)
    sp.loader.exec_module(m)
    return m.MUTANTS


def patches_for(pid):
    out = []
    for m in specs():
        pids = m['pid'] if isinstance(m['pid'], list) else [m['pid']]
        if pid in pids:
            p = os.path.join(VERIF, 'selftest', 'mutants', m['id'] + '.patch')
            if os.path.exists(p):
                out.append({'id': m['id'], 'patch': p, 'expect': m.get('expect'), 'origin': 'selftest'})
    # behaviour-preserving refactorings written by independent sub-agents: selftest/refactors/R-<pid>[+<pid>..]-<name>.patch
    rd = os.path.join(VERIF, 'selftest', 'refactors')
    if os.path.isdir(rd):
        for fn in sorted(os.listdir(rd)):
            if fn.endswith('.patch') and fn.startswith('R-'):
                pids = fn[2:].split('-')[0].split('+')
                if pid in pids:
                    out.append({'id': 'refactors/' + fn[:-6], 'patch': os.path.join(rd, fn), 'expect': None, 'origin': 'sub-agent refactoring'})
    sd = os.path.join(VERIF, 'seeded')
    if os.path.isdir(sd):
        for d in sorted(os.listdir(sd)):
            mp = os.path.join(sd, d, 'meta.json')
            if not os.path.exists(mp):
                continue
            meta = json.load(open(mp))
            if pid in meta.get('detected_by_checks', []) or (meta.get('property') == pid):
                out.append({'id': 'seeded/' + d, 'patch': os.path.join(sd, d, 'patch.diff'), 'expect': meta.get('expect_regex', r'.'), 'origin': 'seeded',
                            'claimed_detected': pid in meta.get('detected_by_checks', [])})
    return out


def run_audit(pid, mod, load_fn, max_patches=None):
    """the stored patches are spread over BA_AUDIT_JOBS (default 4) worker processes, each with its own scratch copy"""
    res = {'patches': [], 'detected': 0, 'missed': 0, 'silent_on_refactors': 0, 'false_alarms_on_refactors': 0, 'stale': 0}
    plist = patches_for(pid)
    if max_patches:
        plist = plist[:max_patches]
    if not plist:
        return res
    jobs = max(1, min(int(os.environ.get('BA_AUDIT_JOBS', '4') or 4), len(plist)))
    chunks = [plist[i::jobs] for i in range(jobs)]
    if jobs == 1:
        parts = [_audit_chunk(pid, mod, load_fn, chunks[0])]
    else:
        import multiprocessing as mp
        ctx = mp.get_context('fork')
        with ctx.Pool(jobs) as pool:
            parts = pool.starmap(_audit_chunk_by_name, [(pid, ch) for ch in chunks])
    order = {p['id']: i for i, p in enumerate(plist)}
    for part in parts:
        for k in ('detected', 'missed', 'silent_on_refactors', 'false_alarms_on_refactors', 'stale'):
            res[k] += part[k]
        res['patches'].extend(part['patches'])
    res['patches'].sort(key=lambda e: order.get(e['id'], 0))
    res['workers'] = jobs
    return res


def _audit_chunk_by_name(pid, plist):
    import importlib
    sys.path.insert(0, HERE)
    mod = importlib.import_module('props.' + pid.lower())
    import run as runmod
    return _audit_chunk(pid, mod, runmod.evaluate, plist)


def _audit_chunk(pid, mod, load_fn, plist):
    from report import Report
    from core import AnchorMissing
    res = {'patches': [], 'detected': 0, 'missed': 0, 'silent_on_refactors': 0, 'false_alarms_on_refactors': 0, 'stale': 0}
    if not plist:
        return res
    scratch = tempfile.mkdtemp(prefix='ba-audit-%s-' % pid)
    try:
        src = os.path.join(scratch, 'repo')
        subprocess.run(['rsync', '-a', '--exclude', '/target', '--exclude', '/.git', '--exclude', '/output', REPO + '/', src + '/'], check=True)
        cache = os.path.join(scratch, 'cache')
        os.makedirs(cache)
        # reuse compiled third-party dependencies (their fingerprints do not depend on the workspace path)
        warm = os.path.join(os.environ.get('VERIF_CACHE_DIR', os.path.join(VERIF, '.cache')), 'target-quick')
        if os.path.isdir(warm):
            subprocess.run(['cp', '-a', warm, os.path.join(cache, 'target-quick')])
            shutil.rmtree(os.path.join(cache, 'target-quick', 'ba-latest'), ignore_errors=True)
        env = dict(os.environ, BA_REPO=src, VERIF_CACHE_DIR=cache)
        for p in plist:
            t0 = time.time()
            a = subprocess.run(['git', 'apply', p['patch']], cwd=src, stdout=subprocess.PIPE, stderr=subprocess.STDOUT, text=True)
            entry = {'id': p['id'], 'origin': p['origin'], 'expect': p['expect']}
            if a.returncode != 0:
                entry['verdict'] = 'stale (patch no longer applies to the current tree)'
                res['stale'] += 1
                res['patches'].append(entry)
                continue
            try:
                ex = subprocess.run([sys.executable, os.path.join(VERIF, 'engine', 'extract.py'), 'quick'], env=env, stdout=subprocess.PIPE, stderr=subprocess.STDOUT, text=True)
                lines = [l for l in ex.stdout.strip().splitlines() if l.strip()]
                if ex.returncode != 0:
                    entry['verdict'] = 'patched tree does not compile'
                    res['stale'] += 1
                else:
                    r = Report(pid, 'thorough')
                    r.config = 'quick'
                    load_fn(pid, mod, lines[-1], r, 'thorough', 'quick')
                    fails = ['rule=%s instance=%s: %s' % (o['rule'], o['key'], o['detail'][:160]) for o in r.obligations if not o['ok']]
                    known = {k[2] for k, e in __import__('report').load_known().items() if k[0] == pid and e.get('status') == 'known'}
                    fails_new = [f for f in fails if not any(('instance=%s:' % k) in f for k in known)]
                    if p['expect'] is None:
                        ok = not fails_new
                        entry['verdict'] = 'silent (as required for a behaviour-preserving refactor)' if ok else 'FALSE ALARM on refactor'
                        res['silent_on_refactors' if ok else 'false_alarms_on_refactors'] += 1
                    else:
                        hit = [f for f in fails_new if re.search(p['expect'], f)]
                        entry['verdict'] = 'detected' if hit else 'MISSED'
                        res['detected' if hit else 'missed'] += 1
                        entry['report'] = (hit or fails_new or [''])[0][:300]
            finally:
                subprocess.run(['git', 'apply', '-R', p['patch']], cwd=src, stdout=subprocess.PIPE, stderr=subprocess.STDOUT)
            entry['wall_s'] = round(time.time() - t0, 1)
            res['patches'].append(entry)
    finally:
        shutil.rmtree(scratch, ignore_errors=True)
    return res
