"""Obligation bookkeeping, known findings, evidence and replay files."""
import json, os, sys, time, hashlib

VERIF = os.path.dirname(os.path.dirname(os.path.dirname(os.path.abspath(__file__))))


class Report:
    def __init__(self, pid, tier, level='other'):
        self.pid = pid
        self.tier = tier
        self.level = level
        self.t0 = time.time()
        self.obligations = []   # dict(rule, key, ok, detail)
        self.notes = []
        self.counts = {}
        self.explanation = ''
        self.not_decided = ''
        self.assumptions = []
        self.trusted = []
        self.extra = {}

    # an obligation = one rule instance evaluated on the current tree
    def ob(self, rule, key, ok, detail='', where=None, sample=None):
        cfg = getattr(self, 'config', 'quick')
        if cfg != 'quick':
            key = '%s@%s' % (key, cfg)
        self.obligations.append({'rule': rule, 'key': key, 'ok': bool(ok), 'detail': detail, 'where': where, 'sample': sample})
        return ok

    def need(self, rule, key, cond, detail='', where=None, sample=None):
        return self.ob(rule, key, cond, detail, where, sample)

    def floor(self, rule, name, count, floor):
        """a rule matching fewer sites than were confirmed by hand passes vacuously: fail closed"""
        self.counts[name] = count
        return self.ob(rule, 'floor:' + name, count >= floor,
                       'matched %d sites, floor (counted on the pinned tree) is %d' % (count, floor))

    def note(self, s):
        self.notes.append(s)

    def count(self, name, n):
        self.counts[name] = n

    def anchor_missing(self, rule, e):
        self.ob(rule, 'anchor', False, 'anchor missing (fail closed): %s' % e)

    def finish(self, prog_stats, facts_dir):
        known = load_known()
        fails = [o for o in self.obligations if not o['ok']]
        viol = []
        known_hits = []
        for o in fails:
            k = (self.pid, o['rule'], o['key'].split('@')[0])
            kf = known.get(k)
            if kf and kf.get('status') == 'known':
                known_hits.append((o, kf))
            else:
                viol.append(o)
        print('== %s (%s): %d obligations, %d discharged, %d known findings, %d violations' % (
            self.pid, self.tier, len(self.obligations), len(self.obligations) - len(fails), len(known_hits), len(viol)))
        print('   analysed: %s' % json.dumps(prog_stats))
        print('   counts: %s' % json.dumps(self.counts))
        for n in self.notes:
            print('   note: %s' % n)
        for o, kf in known_hits:
            print('KNOWN-FINDING: property=%s %s [%s %s] %s' % (self.pid, kf.get('what', ''), o['rule'], o['key'], o['detail']))
        scratch_run = os.environ.get('BA_SCRATCH_RUN') == '1'     # tools/seedcheck.py, tools/mutate.py: a patched scratch copy, not /repo
        outdir = os.path.join(VERIF, 'out', ('scratch-' if scratch_run else '') + self.pid)
        os.makedirs(outdir, exist_ok=True)
        for f in os.listdir(outdir):
            if f.startswith('violation-'):
                os.remove(os.path.join(outdir, f))
        for i, o in enumerate(viol):
            h = hashlib.sha1(('%s|%s' % (o['rule'], o['key'])).encode()).hexdigest()[:10]
            path = os.path.join(outdir, 'violation-%s.json' % h)
            json.dump({'property': self.pid, **o}, open(path, 'w'), indent=1)
            print('  FAIL rule=%s instance=%s at %s: %s' % (o['rule'], o['key'], o.get('where'), o['detail']))
            print('VIOLATION property=%s replay=%s' % (self.pid, path))
        # evidence
        samples = [o['sample'] if o.get('sample') else {'rule': o['rule'], 'key': o['key'], 'ok': o['ok'], 'detail': o['detail'][:300]}
                   for o in self.obligations[:0]]
        # spread samples over rules
        seen_rules = {}
        for o in self.obligations:
            seen_rules.setdefault(o['rule'], []).append(o)
        for r, os_ in seen_rules.items():
            for o in os_[:3]:
                samples.append(o['sample'] if o.get('sample') else {'rule': o['rule'], 'instance': o['key'], 'held': o['ok'], 'where': o.get('where'), 'detail': o['detail'][:300]})
        distinct = len({(o['rule'], o['key']) for o in self.obligations})
        cov = {
            'obligations': len(self.obligations),
            'discharged': len(self.obligations) - len(fails),
            'known_findings': len(known_hits),
            'evaluations': len(self.obligations),
            'distinct_nontrivial': distinct,
            'rule': 'one evaluation per rule instance (rule id, function / call site / field / guard key) derived from the MIR '
                    'of the current /repo tree; instances are distinct by key; vacuous instances are excluded by floors',
            'samples': samples[:40],
            'checker_cmd': './check %s %s' % (self.pid, self.tier),
            'trusted_base': self.trusted or ['rustc nightly MIR (mir-opt-level=0) is faithful to the source',
                                             'ba-facts extractor', 'engine/rules primitives',
                                             'FVM reverts all effects of an aborted message'],
            'explanation': self.explanation,
            'not_decided': self.not_decided,
            'analysed': prog_stats,
            'site_counts': self.counts,
            'rules': {r: {'instances': len(v), 'held': sum(1 for o in v if o['ok'])} for r, v in seen_rules.items()},
            'facts_dir': facts_dir,
            'notes': self.notes[:50],
            'exhaustive': True,
        }
        cov.update(self.extra)
        ev = {
            'property_id': self.pid,
            'tier': self.tier,
            'seed': int(os.environ.get('VERIF_SEED', '0') or 0),
            'level': self.level,
            'coverage': cov,
            'assumptions': self.assumptions,
            'wall_s': round(time.time() - self.t0 + float(os.environ.get('BA_EXTRACT_S', '0') or 0), 2),
            'violations': len(viol),
        }
        if not scratch_run:
            os.makedirs(os.path.join(VERIF, 'evidence'), exist_ok=True)
            json.dump(ev, open(os.path.join(VERIF, 'evidence', '%s.json' % self.pid), 'w'), indent=1)
        return 1 if viol else 0


def load_known():
    p = os.path.join(VERIF, 'known_findings.json')
    out = {}
    if os.path.exists(p):
        for e in json.load(open(p)).get('findings', []):
            out[(e['property'], e['rule'], e['key'])] = e
    return out
