"""K1: the exported-method matrix, derived from every `<Actor as ActorCode>::invoke_method` body."""
from core import *

ACTORCODE = 'fil_actors_runtime::runtime::actor_code::ActorCode'
DISPATCHERS = ('fil_actors_runtime::dispatch::dispatch', 'fil_actors_runtime::dispatch::dispatch_default')


class Entry:
    def __init__(self, actor, crate, number, variant, handler, kind, line):
        self.actor = actor      # crate short name e.g. 'miner'
        self.crate = crate
        self.number = number    # method number or '_' (fallback arm) or 'None'
        self.variant = variant
        self.handler = handler  # fn id
        self.kind = kind        # 'dispatch' | 'dispatch_default' | 'raw'
        self.line = line

    def key(self):
        return '%s.%s' % (self.actor, self.variant)

    def __repr__(self):
        return 'Entry(%s #%s %s -> %s)' % (self.actor, self.number, self.variant, self.handler)


def method_enum(prog, crate):
    # the Methods enum named in from_u64::<Method>
    return prog.adts.get('%s::Method' % crate)


def extract(prog):
    """returns (entries, info) where info[crate] = {'restricted': bool, 'fn': Fn, 'restrict_dominates': bool}"""
    entries = []
    info = {}
    for f in prog.fns.values():
        if f.kind != 'assocfn' or f.impl_trait != ACTORCODE or not f.id.endswith('::invoke_method'):
            continue
        crate = f.crate
        actor = crate.replace('fil_actor_', '')
        # restrict_internal_api call with `?`
        rcalls = [c for c in f.calls if c.callee == 'fil_actors_runtime::builtin::shared::restrict_internal_api']
        from_u64 = [c for c in f.calls if c.defp == 'num_traits::cast::FromPrimitive::from_u64']
        restricted = False
        restrict_ok = False
        if rcalls:
            restricted = True
            rc = rcalls[0]
            fate = result_fate(f, rc)
            dom = all(f.dominates(rc.bb, c.bb) for c in from_u64) if from_u64 else False
            # every dispatch site must be unreachable once the Continue edge of the `?` is removed
            restrict_ok = (fate == 'try') and dom
        enum_adt = None
        if from_u64:
            ga = from_u64[0].ga
            if ga and ga[0].get('adt'):
                enum_adt = prog.adts.get(ga[0]['adt'])
        discr2var = {}
        if enum_adt:
            for v in enum_adt['variants']:
                discr2var[v['discr']] = v['name']
        # dispatch call sites: map block -> handler
        disp = {}
        for c in f.calls:
            h = None
            kind = None
            if c.callee in DISPATCHERS:
                kind = c.callee.split('::')[-1]
                for a in c.args:
                    if a[0] == 'k' and 'fn' in a[1]:
                        h = a[1].get('res') or a[1]['fn']
                if h is None and c.fd:
                    h = c.fd[0]
            elif c.callee and c.callee.startswith(crate + '::') and c.callee in prog.fns and len(c.args) == 3 and not c.exp is None:
                # raw target: Self::func(rt, method, args)
                callee = prog.fns[c.callee]
                if callee.kind == 'assocfn' and c.callee != f.id and 'restrict' not in c.callee:
                    # only if the call passes the method number and args (raw dispatch)
                    h = c.callee
                    kind = 'raw'
            if h:
                disp[c.bb] = (h, kind, c.line)
        # find the switch over the method discriminant: blocks that `switch` on discr of Option<Method> payload
        # strategy: for every switch block, for each (value -> target) edge, walk forward (gotos only / straight
        # line) to the first dispatch call.
        def first_dispatch(bb, seen=None):
            seen = seen or set()
            while bb is not None and bb not in seen:
                seen.add(bb)
                if bb in disp:
                    return disp[bb]
                t = f.blocks[bb]['t']
                if t[0] == 'goto':
                    bb = t[1]
                elif t[0] in ('call',):
                    # calls before dispatch (none expected)
                    bb = t[4]
                elif t[0] == 'drop':
                    bb = t[2]
                else:
                    return None
            return None
        found_variants = set()
        for c in conds(f, prog.slicer):
            if c.kind != 'variant':
                continue
            pl = c.place
            # payload switch: place is (_x as Some).0
            is_payload = any(isinstance(p, list) and p[0] == 'dc' and p[1] == 'Some' for p in pl[1])
            if not is_payload:
                continue
            handled = {}
            for v, tb in c.arms.items():
                if v == 'otherwise':
                    continue
                d = first_dispatch(tb)
                if d:
                    handled[v] = d
                    var = discr2var.get(v, '?%s' % v)
                    found_variants.add(var)
                    entries.append(Entry(actor, crate, v, var, d[0], d[1], d[2]))
            d = first_dispatch(c.arms['otherwise'])
            if d:
                entries.append(Entry(actor, crate, '_', '_fallback', d[0], d[1], d[2]))
        # `_ =>` arm at the Option level (pattern `_` matches None too)
        for c in conds(f, prog.slicer):
            if c.kind != 'variant':
                continue
            pl = c.place
            if pl[1]:
                continue
            if not from_u64 or pl[0] != from_u64[0].dst[0]:
                continue
            for v, tb in c.arms.items():
                if v == 1:
                    # single-variant Method enum: no payload switch, the Some arm dispatches directly
                    if enum_adt and len(enum_adt['variants']) == 1:
                        d = first_dispatch(tb)
                        if d:
                            var = enum_adt['variants'][0]
                            found_variants.add(var['name'])
                            entries.append(Entry(actor, crate, var['discr'], var['name'], d[0], d[1], d[2]))
                    continue
                d = first_dispatch(tb)
                if d and not any(e.crate == crate and e.variant == '_fallback' for e in entries):
                    entries.append(Entry(actor, crate, '_', '_fallback', d[0], d[1], d[2]))
        info[crate] = {
            'fn': f, 'restricted': restricted, 'restrict_ok': restrict_ok,
            'enum': enum_adt['id'] if enum_adt else None,
            'variants': [v['name'] for v in enum_adt['variants']] if enum_adt else [],
            'bound': found_variants,
            'n_dispatch_sites': len(disp),
        }
    return entries, info
