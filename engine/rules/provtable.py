"""Provenance tables (K10 generalised): for a family of functions that maintain memoised summaries, every *sink*
   - memo update      `x.f += v` / `x.f -= v` / `x.f = v` / reset           key  memo:<Adt>.<field>:<dir>
   - call argument    i-th argument of a listed callee                       key  arg:<callee>:<i>
   - result component i-th component of the Ok(..) value a function returns  key  ret:<i>
must exist exactly as often as in the frozen table, and the value flowing into it must derive from (at least) the frozen
atoms (fields, tuple components of callee results, parameters, constants, operators).  The table is generated once from the
pinned tree by tools/gen_prov.py, *reviewed against the source* and committed under tables/prov_*.json; it is the property's
clause "the summary moves together with the set it summarises, by the amount the lower layer reported" written per update site.

What the rule is insensitive to: local names, statement order, line numbers, helper extraction that passes the value along
(wide slices follow call arguments), renaming a function (an unmatched table entry is paired with an unmatched function that
has the same sinks).  What it reports: a dropped / duplicated / direction-flipped update, an update fed from another source,
swapped same-typed arguments, a result component computed from something else."""
import json, os, re
from core import *
from rules import field_ops, NEUTRAL, _match_fn

VERIF = os.path.dirname(os.path.dirname(os.path.dirname(os.path.abspath(__file__))))
OPS_PREFIX = ('core::ops::', 'core::cmp::min', 'core::cmp::max', 'core::cmp::Ord::min', 'core::cmp::Ord::max')


def _seg_suffix(path, n=2):
    """last n path segments, keeping a generic segment (`<'db, BS>`) glued to its predecessor"""
    segs = split_path(path)
    out = []
    i = len(segs) - 1
    while i >= 0 and n > 0:
        out.insert(0, segs[i])
        if not segs[i].startswith('<'):
            n -= 1
        i -= 1
    return '::'.join(out)


def split_path(p):
    segs, cur, depth = [], '', 0
    i = 0
    while i < len(p):
        ch = p[i]
        if ch in '<([':
            depth += 1
        elif ch in '>)]':
            depth -= 1
        if depth == 0 and p.startswith('::', i):
            segs.append(cur)
            cur = ''
            i += 2
            continue
        cur += ch
        i += 1
    segs.append(cur)
    return segs


ARITH = ('Add', 'Sub', 'Mul', 'Div', 'Rem', 'Neg', 'BitOr', 'BitAnd', 'Not', 'Shl', 'Shr')
_OPRE = re.compile(r'core::ops::(?:arith|bit)::(Add|Sub|Mul|Div|Rem|Neg|BitOr|BitAnd|Not|Shl|Shr)(?:Assign)?(?:<[^>]*>+)?>?::')


def op_of(callee):
    """'Add' for core::ops::arith::Add::add, AddAssign::add_assign and any impl of them (`x += y` and `x = &x + y` agree)"""
    m = _OPRE.search(callee or '')
    return m.group(1) if m else None


def with_ops(atoms):
    """atoms plus ('OP', X) for every operator-trait call among them"""
    extra = set()
    for a in atoms:
        if a[0] == 'C':
            o = op_of(a[1])
            if o:
                extra.add(('OP', o))
    return atoms | extra if extra else atoms


def expand_helpers(prog, atoms, depth=2):
    """atoms plus, for every small workspace helper whose result flows in, the atoms of that helper's own return value
    (parameters excluded: the call's arguments are already followed by the wide slice). Keeps the verdict stable when an
    expression is extracted into a private helper."""
    out = set(atoms)
    seen = set()
    frontier = {a[1] for a in atoms if a[0] == 'C'}
    for _ in range(depth):
        nxt = set()
        for c in frontier:
            if c in seen:
                continue
            seen.add(c)
            h = prog.fns.get(c)
            if h is None or h.kind not in ('fn', 'assocfn') or len(h.blocks) > 40 or NEUTRAL.search(h.id):
                continue
            ha = prog.slicer.local(h, 0)
            for a in ha:
                if a[0] == 'P':
                    continue
                if a not in out:
                    out.add(a)
                    if a[0] == 'C':
                        nxt.add(a[1])
        frontier = nxt
    return out


def salient(prog, atoms):
    """atom patterns worth freezing: fields, tuple components, parameters, named constants, enum variants, workspace callees
    and arithmetic / set operators"""
    out = set()
    for a in atoms:
        k = a[0]
        if k == 'F':
            if a[1].startswith('closure:') or a[1].startswith('core::') or a[1].startswith('alloc::') or a[1] == 'tuple':
                continue
            out.add('F:%s.%s' % (a[1].split('::')[-1], a[2]))
        elif k == 'T':
            out.add('T:%s.%s' % (_seg_suffix(a[1] or '?', 2), a[2]))
        elif k == 'P':
            out.add('P:%s' % a[1])
        elif k == 'K':
            out.add('K:%s' % a[1].split('::')[-1])
        elif k == 'E':
            if a[1].startswith('core::') or a[1].startswith('alloc::'):
                continue
            out.add('E:%s::%s' % (a[1].split('::')[-1], a[2]))
        elif k == 'C':
            c = a[1]
            o = op_of(c)
            if o:
                out.add('OP:%s' % o)
            elif c in prog.fns and not NEUTRAL.search(c) and not c.startswith('<') and ' as ' not in c:
                out.add('C:%s' % _seg_suffix(c, 2))
            elif c.startswith(('core::cmp::min', 'core::cmp::max', 'core::cmp::Ord::min', 'core::cmp::Ord::max')):
                out.add('C:%s' % _seg_suffix(c, 2))
        elif k == 'OP':
            if a[1] in ARITH:
                out.add('OP:%s' % a[1])
    return sorted(out)


def ret_sinks(prog, f):
    """[(idx, bb, line, operand)] components of the value returned in Ok(..) (or the plain return value)"""
    out = []
    res = f.returns_result()
    for bi, b in enumerate(f.blocks):
        if b.get('cleanup'):
            continue
        for st in b['s']:
            if st[0] != '=' or st[1][0] != 0 or st[1][1]:
                continue
            rv = st[2]
            if res:
                if not (rv[0] == 'agg' and rv[1].get('variant') == 'Ok' and rv[2]):
                    continue
                op = rv[2][0]
            else:
                if rv[0] != 'use':
                    if rv[0] == 'agg' and rv[1].get('k') == 'tuple':
                        for i, o in enumerate(rv[2]):
                            out.append((i, bi, st[3], o))
                    continue
                op = rv[1]
            comps = None
            if op[0] in ('m', 'c') and not op[1][1]:
                ds = [d for d in f.defs.get(op[1][0], []) if d[0] in ('=', 'call', 'mutcall')]
                if len(ds) == 1 and ds[0][0] == '=' and ds[0][4][0] == 'agg' and ds[0][4][1].get('k') == 'tuple':
                    comps = ds[0][4][2]
            flds = None
            if comps is None and op[0] in ('m', 'c') and not op[1][1]:
                ds = [d for d in f.defs.get(op[1][0], []) if d[0] in ('=', 'call', 'mutcall')]
                if len(ds) == 1 and ds[0][0] == '=' and ds[0][4][0] == 'agg' and ds[0][4][1].get('k') == 'adt' and ds[0][4][1].get('fields') and len(ds[0][4][1]['fields']) > 1:
                    flds = list(zip(ds[0][4][1]['fields'], ds[0][4][2]))
            if comps is not None:
                for i, o in enumerate(comps):
                    out.append((i, bi, st[3], o))
            elif flds is not None:
                for (fname, o) in flds:
                    out.append(('.' + fname, bi, st[3], o))
            else:
                out.append((0, bi, st[3], op))
    # calls whose destination is the return place (tail calls): `_0 = callee(..)`
    for c in f.calls:
        dst = f.blocks[c.bb]['t'][3]
        if dst and dst[0] == 0 and not dst[1] and not (c.defp or '').endswith('from_residual'):
            out.append(('tail', c.bb, c.line, None))
    return out


def sinks_of(X, f, spec):
    """sinks of one body (closures are listed separately by the caller and folded)"""
    prog = X.prog
    out = []
    for adt in spec.get('memo_adts', []):
        flds = spec.get('memo_fields', {}).get(adt)
        on = field_ops(X, f, adt, flds)
        ow = field_ops(X, f, adt, flds, slicer=prog.slicer)
        for (n_, w_) in zip(on, ow):
            (fld, dirn, bb, line, atoms) = n_
            out.append({'key': 'memo:%s.%s:%s' % (adt, fld, dirn), 'bb': bb, 'line': line, 'narrow': atoms, 'wide': w_[4] | atoms})
    for c in f.calls:
        cal = c.callee or c.defp or ''
        for pat in spec.get('arg_callees', []):
            if cal == pat or cal.endswith('::' + pat) or (c.defp or '').endswith('::' + pat):
                for i, a in enumerate(c.args):
                    if i == 0 and spec.get('skip_self', True):
                        continue
                    out.append({'key': 'arg:%s:%d' % (pat, i), 'bb': c.bb, 'line': c.line, 'narrow': prog.narrow.operand(f, a), 'wide': prog.slicer.operand(f, a)})
    if spec.get('rets', True) and f.kind in ('fn', 'assocfn'):
        for (i, bb, line, op) in ret_sinks(prog, f):
            if op is None:
                c = f.call_at(bb)
                out.append({'key': 'ret:tail', 'bb': bb, 'line': line, 'narrow': prog.narrow.call(f, c), 'wide': prog.slicer.call(f, c)})
            else:
                out.append({'key': 'ret:%s' % i, 'bb': bb, 'line': line, 'narrow': prog.narrow.operand(f, op), 'wide': prog.slicer.operand(f, op)})
    return out


def in_scope(f, spec):
    if f.crate != spec['crate'] or f.kind in ('promoted', 'const') or NEUTRAL.search(f.id) or f.file.endswith('testing.rs'):
        return False
    fid = f.id[len(f.crate) + 2:]
    return any(fid.startswith(p) or ('::' + p) in fid for p in spec['fn_prefixes']) and not any(re.search(x, fid) for x in spec.get('exclude', []))


def outer(prog, f):
    g = f
    while g.kind == 'closure' and g.parent in prog.fns:
        g = prog.fns[g.parent]
    return g


def collect(X, spec):
    """{outer fn id (crate stripped): [sink...]}"""
    prog = X.prog
    res = {}
    for f in prog.bodies():
        if f.crate != spec['crate'] or f.kind in ('promoted', 'const'):
            continue
        o = outer(prog, f)
        if not in_scope(o, spec):
            continue
        ss = sinks_of(X, f, spec)
        if f is not o:
            ss = [s for s in ss if not s['key'].startswith('ret:')]
        if ss:
            for s in ss:
                s['fn'] = f
            res.setdefault(o.id[len(o.crate) + 2:], []).extend(ss)
    return res


def _wide_of(X, s):
    return s['wide']


def generate(X, spec):
    res = collect(X, spec)
    entries = {}
    for fid, ss in sorted(res.items()):
        rows = []
        for s in sorted(ss, key=lambda s: (s['key'], s['line'])):
            rows.append({'key': s['key'], 'atoms': salient(X.prog, s['narrow']), 'line_at_freeze': s['line']})
        entries[fid] = rows
    return entries


def _match(rows, sinks, X):
    """perfect matching rows <-> sinks with wide(sink) ⊇ row.atoms (small sizes: backtracking)"""
    n = len(rows)
    if n != len(sinks):
        return None
    ok = [[has_all(with_ops(expand_helpers(X.prog, _wide_of(X, s) | s['narrow'])), r['atoms']) for s in sinks] for r in rows]
    used = [False] * n
    assign = [None] * n

    def rec(i):
        if i == n:
            return True
        for j in range(n):
            if not used[j] and ok[i][j]:
                used[j] = True
                assign[i] = j
                if rec(i + 1):
                    return True
                used[j] = False
        return False
    return assign if rec(0) else None


def check(X, rule, name, spec, table, only_keys=None):
    """one obligation per (function, sink key)"""
    rep = X.rep
    prog = X.prog
    res = collect(X, spec)
    entries = dict(table['entries'])
    if only_keys is not None:
        flt = lambda k: any(re.search(p, k) for p in only_keys)
        res = {k: [s for s in v if flt(s['key'])] for k, v in res.items()}
        res = {k: v for k, v in res.items() if v}
        entries = {k: [r for r in v if flt(r['key'])] for k, v in entries.items()}
        entries = {k: v for k, v in entries.items() if v}
    missing = [k for k in entries if k not in res]
    extra = [k for k in res if k not in entries]
    # rename tolerance: pair an unmatched table entry with an unmatched function carrying the same sinks
    renamed = {}
    for k in list(missing):
        want = sorted(r['key'] for r in entries[k])
        for e in list(extra):
            if sorted(s['key'] for s in res[e]) == want:
                bykey_ok = True
                for key in set(want):
                    if _match([r for r in entries[k] if r['key'] == key], [s for s in res[e] if s['key'] == key], X) is None:
                        bykey_ok = False
                if bykey_ok:
                    renamed[k] = e
                    missing.remove(k)
                    extra.remove(e)
                    break
    nsites = 0
    for k, rows in sorted(entries.items()):
        if k in missing:
            rep.ob(rule, '%s:%s' % (name, k), False, 'function of the frozen provenance table no longer exists or no longer updates anything (fail closed): %s' % k)
            continue
        ss = res[renamed.get(k, k)]
        keys = sorted({r['key'] for r in rows} | {s['key'] for s in ss})
        for key in keys:
            r_ = [r for r in rows if r['key'] == key]
            s_ = [s for s in ss if s['key'] == key]
            nsites += len(s_)
            where = None
            if s_:
                where = '%s:%s' % (s_[0]['fn'].file, s_[0]['line'])
            else:
                o = prog.fns.get(spec['crate'] + '::' + renamed.get(k, k))
                where = '%s:%s' % (o.file, o.line) if o else None
            if len(r_) != len(s_):
                rep.need(rule, '%s:%s:%s' % (name, k, key), False,
                         '%s has %d site(s) of %s, the frozen table has %d (an update was %s)' % (k, len(s_), key, len(r_), 'dropped or changed kind/direction' if len(s_) < len(r_) else 'added'), where)
                continue
            m = _match(r_, s_, X)
            if m is None:
                # name the first row no sink satisfies
                why = []
                for r in r_:
                    best = None
                    for s in s_:
                        miss = [p for p in r['atoms'] if not has_atom(with_ops(expand_helpers(X.prog, _wide_of(X, s) | s['narrow'])), p)]
                        if best is None or len(miss) < len(best[0]):
                            best = (miss, s)
                    if best and best[0]:
                        why.append('line %s lacks %s' % (best[1]['line'], best[0]))
                rep.need(rule, '%s:%s:%s' % (name, k, key), False, '%s: value flowing into %s no longer derives from the frozen sources (%s)' % (k, key, '; '.join(why) or 'no one-to-one assignment of sites to rows'), where)
            else:
                rep.need(rule, '%s:%s:%s' % (name, k, key), True, '%s: %d site(s) of %s derive from %s' % (k, len(s_), key, [r['atoms'] for r in r_][:2]), where,
                         {'rule': rule, 'fn': k, 'sink': key, 'sites': len(s_), 'required_atoms': [r['atoms'] for r in r_][:3]})
    for e in sorted(extra):
        if all(s['key'].startswith('ret:') for s in res[e]):
            continue      # a new function that only computes a value (e.g. an extracted helper) updates no summary
        o = prog.fns.get(spec['crate'] + '::' + e)
        rep.need(rule, '%s:%s' % (name, e), False, 'function %s updates %s but is not in the frozen provenance table (new writer: review and extend the table)' % (e, sorted({s['key'] for s in res[e]})[:6]),
                 '%s:%s' % (o.file, o.line) if o else None)
    rep.count('prov_sites:' + name, nsites)
    return nsites


def load_table(name):
    return json.load(open(os.path.join(VERIF, 'tables', name)))
