"""C18 - EVM execution is total, bounded and respects read-only mode."""
import json, os
from core import *
from rules import *
import sends as sendsmod

LEVEL = 'other'
LEVEL_TEXT = ('Structural facts over the MIR of the EVM interpreter: the 256-slot jump table derived from the code equals the reference opcode '
              'table (mnemonic, pops, pushes, PUSH/DUP/SWAP widths), which is what makes the raw-pointer pop_many and push_unchecked sound for '
              'every opcode; every unchecked push is dominated by a propagated pop>=1 or capacity check; stack growth sites compare with '
              'STACK_SIZE=1024; memory grows only through the u32-checked region helper; taken jumps are reachable only through the '
              'jump-destination test whose bitmap has one writer; every mutating effect is reachable only on the not-read-only arm. '
              'Absence of panics inside arithmetic and precompiles is not decided.')
TECHNIQUE = 'table agreement (code-derived jump table vs reference), guard dominance by CFG edge deletion, single-writer / single-caller sets, constant values over rustc MIR'
CR = 'fil_actor_evm'
TABLE = os.path.join(os.path.dirname(os.path.dirname(os.path.dirname(os.path.dirname(os.path.abspath(__file__))))), 'tables', 'evm_opcodes.json')


def jumptable(prog, X):
    f = X.fn('interpreter::execution::opcodes::jumptable', CR)
    consts, table, default = {}, {}, None
    for b in f.blocks:
        for st in b['s']:
            if st[0] != '=':
                continue
            if st[2][0] == 'use' and st[2][1][0] == 'k' and st[2][1][1].get('ty') == 'usize' and not st[1][1] and 'val' in st[2][1][1]:
                consts[st[1][0]] = st[2][1][1]['val']
            if st[1][0] == 1 and st[1][1] and st[1][1][0][0] == 'i' and st[2][0] == 'cast' and 'fn' in st[2][2][1]:
                table[consts[st[1][1][0][1]]] = st[2][2][1]['fn']
            if st[2][0] == 'cast' and st[2][2][0] == 'k' and 'fn' in st[2][2][1] and not st[1][1] and st[1][0] == 2:
                default = st[2][2][1]['fn']
    return f, table, default


def run(prog, rep, tier, cfg):
    X = Ctx(prog, rep)
    rep.explanation = LEVEL_TEXT
    rep.not_decided = 'panic-freedom of arithmetic / precompile code on all inputs; semantic correctness of instructions (C17)'
    ref = json.load(open(TABLE))
    opc = {int(k, 16): v for k, v in ref['opcodes'].items()}
    may = {int(k, 16): v for k, v in ref['may_be_undefined'].items()}
    JT, table, default = jumptable(prog, X)
    rep.floor('K9', 'jumptable_slots_assigned', len(table), 147)
    rep.need('K9', 'jumptable:default-undefined', default is not None and default.endswith('::UNDEFINED'), 'unassigned slots must hold UNDEFINED (found %s)' % default, X.loc(JT))
    POP_MANY = CR + '::interpreter::stack::Stack::pop_many'
    PUSH_UN = CR + '::interpreter::stack::Stack::push_unchecked'
    ENSURE = CR + '::interpreter::stack::Stack::ensure_one'
    PUSH_CK = CR + '::interpreter::stack::Stack::push'
    n_unchecked = 0
    for code in range(256):
        key = '0x%02x' % code
        r = opc.get(code)
        fnid = table.get(code)
        if r is None:
            rep.need('K9', 'opcode:%s:undefined' % key, fnid is None or code in may, 'slot %s is not a defined opcode in the reference table but is bound to %s' % (key, fnid), X.loc(JT))
            continue
        if fnid is None:
            rep.ob('K9', 'opcode:%s:%s' % (key, r['name']), False, 'opcode %s (%s) of the reference table has no handler' % (key, r['name']), X.loc(JT))
            continue
        name = fnid.split('::')[-1]
        tramp = prog.fns.get(fnid)
        ok_name = (name == r['name'])
        ins = None
        if tramp is not None:
            cs = [c for c in tramp.calls if (c.callee or '').startswith(CR + '::interpreter::instructions::')]
            if len(cs) == 1 and cs[0].callee.split('::')[-1] == name:
                ins = prog.fns.get(cs[0].callee)
        if not ok_name or ins is None:
            rep.ob('K9', 'opcode:%s:%s' % (key, r['name']), False, 'slot %s must dispatch to instructions::%s, found %s' % (key, r['name'], fnid), X.loc(JT))
            continue
        pops = [c for c in ins.calls if c.callee == POP_MANY]
        unch = [c for c in ins.calls if c.callee == PUSH_UN]
        ens = [c for c in ins.calls if c.callee == ENSURE]
        pck = [c for c in ins.calls if c.callee == PUSH_CK]
        n_unchecked += len(unch)
        detail = ''
        ok = True
        kind = r['kind']
        if kind == 'pop':
            cs = [c for c in ins.calls if (c.callee or '') == '%s::interpreter::instructions::stack::pop' % CR]
            if len(cs) != 1 or result_fate(ins, cs[0]) != 'try' or unch or pck:
                ok = False
                detail = 'POP must call stack::pop with its error propagated and push nothing'
        elif kind == 'std':
            npop = pops[0].const_ga()[0] if len(pops) == 1 else (0 if not pops else -1)
            npush = len(unch) + len(pck)
            if npop != r['pops'] or npush != r['pushes']:
                ok = False
                detail = 'arity (pops,pushes) is (%s,%s), reference says (%s,%s)' % (npop, npush, r['pops'], r['pushes'])
            for p in pops:
                if result_fate(ins, p) != 'try':
                    ok = False
                    detail = 'pop_many result is not propagated'
            for u in unch:
                g_ok = False
                for p in pops:
                    if p.const_ga()[0] >= 1 and result_fate(ins, p) == 'try' and ins.dominates(p.bb, u.bb):
                        g_ok = True
                for e in ens:
                    if result_fate(ins, e) == 'try' and ins.dominates(e.bb, u.bb):
                        g_ok = True
                if not g_ok:
                    ok = False
                    detail = 'push_unchecked is not dominated by a propagated pop_many::<S>=1> or ensure_one()?'
            for p in pck:
                if result_fate(ins, p) != 'try':
                    ok = False
                    detail = 'checked push result is not propagated'
        else:
            want = {'push': 'push', 'dup': 'dup', 'swap': 'swap'}[kind]
            n = int(''.join(ch for ch in r['name'] if ch.isdigit()))
            cs = [c for c in ins.calls if (c.callee or '') == '%s::interpreter::instructions::stack::%s' % (CR, want)]
            if len(cs) != 1 or cs[0].const_ga() != [n] or result_fate(ins, cs[0]) != 'try' or unch:
                ok = False
                detail = '%s must call stack::%s::<%d> with its error propagated (found %s)' % (r['name'], want, n, [(c.callee, c.const_ga()) for c in cs])
        rep.need('K9', 'opcode:%s:%s' % (key, r['name']), ok, detail or 'opcode bound to its handler with the reference arity', X.loc(ins),
                 {'rule': 'K9', 'opcode': key, 'mnemonic': r['name'], 'handler': ins.id, 'pops': r['pops'], 'pushes': r['pushes']})
    rep.count('push_unchecked_sites_in_instructions', n_unchecked)
    # no push_unchecked outside instruction bodies
    X.callers('K5', 'Stack::push_unchecked', lambda c: c.callee == PUSH_UN, ['interpreter::instructions::%s' % v['name'] for v in opc.values()], required=[])
    # --- stack internals
    X.const_is('K11', 'STACK_SIZE', 1024, CR)
    stack_fns = ['interpreter::stack::Stack::' + n for n in ('new', 'len', 'is_empty', 'push_unchecked', 'push', 'pop_many', 'ensure_one', 'dup', 'swap_top', 'pop', 'drop')]
    X.writers('K4', 'Stack', 'stack', stack_fns, required=['interpreter::stack::Stack::push', 'interpreter::stack::Stack::pop_many'], crate=CR)
    SP = X.fn('interpreter::stack::Stack::push', CR)
    X.guard('K6b', 'Stack::push:bound', SP, [c.bb for c in SP.calls if (c.callee or '').endswith('Vec::<T, A>::push')],
            m_rel('ge', ['F:Stack.stack'], ['K:STACK_SIZE'], False, pure=True), 'len >= STACK_SIZE => Err')
    SD = X.fn('interpreter::stack::Stack::dup', CR)
    X.guard('K6b', 'Stack::dup:bound', SD, [c.bb for c in SD.calls if (c.callee or '').endswith('::set_len')],
            m_rel('ge', ['F:Stack.stack'], ['K:STACK_SIZE'], False, pure=True), 'len >= STACK_SIZE => Err')
    X.guard('K6b', 'Stack::dup:underflow', SD, [c.bb for c in SD.calls if (c.callee or '').endswith('::set_len')],
            m_rel('gt', ['P:2'], ['F:Stack.stack'], False, pure=True), 'i > len => Err')
    SE = X.fn('interpreter::stack::Stack::ensure_one', CR)
    X.guard('K6b', 'Stack::ensure_one:bound', SE, SE.ret_blocks(), m_rel('ge', ['F:Stack.stack'], ['K:STACK_SIZE'], False, pure=True), 'len >= STACK_SIZE => Err')
    PM = X.fn('interpreter::stack::Stack::pop_many', CR)
    X.guard('K6b', 'Stack::pop_many:underflow', PM, [c.bb for c in PM.calls if (c.callee or '').endswith('::set_len')],
            m_rel('lt', ['C:Stack::len'], [], False), 'len < S => Err')
    SW = X.fn('interpreter::stack::Stack::swap_top', CR)
    X.guard('K6b', 'Stack::swap_top:underflow', SW, [c.bb for c in SW.calls if (c.callee or '').endswith('::swap')],
            m_rel('le', ['F:Stack.stack'], ['P:2'], False, pure=True), 'len <= i => Err')
    # --- memory
    grows = X.callers('K5', 'Memory::grow', callee_is('interpreter::memory::Memory::grow'), ['interpreter::instructions::memory::get_memory_region'], crates=[CR])
    rep.floor('K5', 'memory_grow_sites', len(grows), 1)
    GM = X.fn('interpreter::instructions::memory::get_memory_region', CR)
    gb = [c.bb for c in GM.calls if callee_is('interpreter::memory::Memory::grow')(c)]
    tis = [c for c in GM.calls if (c.defp or '').endswith('TryInto::try_into')]
    rep.need('K6a', 'get_memory_region:u32-conversions', len(tis) == 2 and all(result_fate(GM, c) == 'try' for c in tis) and all(
        any(g['t'].startswith('u32') or g['t'] == 'u32' for g in c.ga) for c in tis),
        'offset and size must each be converted with TryInto<u32> and the error propagated (found %d)' % len(tis), X.loc(GM))
    for i, c in enumerate(tis):
        X.precedes('K6a', 'get_memory_region:conversion#%d-before-grow' % i, GM, [c.bb], gb, 'u32 conversion precedes Memory::grow')
    X.call_guard('K6a', 'get_memory_region:checked_add', GM, gb, lambda c: (c.callee or '').endswith('::checked_add'), 'offset.checked_add(size) with overflow propagated')
    for g in [c for c in GM.calls if callee_is('interpreter::memory::Memory::grow')(c)]:
        X.arg_has('K10', 'get_memory_region:grow-size', g, 1, ['C:checked_add'], 'the new memory size is the checked sum', narrow=False)
    X.writers('K4', 'Memory', '0', ['interpreter::memory::Memory::grow', 'interpreter::memory::Memory::reserve_pages', 'interpreter::memory::<impl core::ops::deref::DerefMut for interpreter::memory::Memory>::deref_mut',
                                   '<interpreter::memory::Memory as core::ops::deref::DerefMut>::deref_mut'], required=['interpreter::memory::Memory::grow'], crate=CR)
    # --- jumps
    for jn in ('jump', 'jumpi'):
        J = X.fn('interpreter::instructions::control::' + jn, CR)
        oks = []
        for bi, b in enumerate(J.blocks):
            for st in b['s']:
                if st[0] == '=' and st[1][0] == 0 and not st[1][1] and st[2][0] == 'agg' and st[2][1].get('variant') == 'Ok':
                    if has_atom(prog.slicer.rvalue(J, st[2]), 'C:try_into'):
                        oks.append(bi)
        X.guard('K6b', '%s:valid-destination' % jn, J, oks, m_pred('Bytecode::valid_jump_destination', [], True), 'bytecode.valid_jump_destination(dst)')
        for c in J.calls:
            if (c.callee or '').endswith('Bytecode::valid_jump_destination'):
                X.arg_has('K10', '%s:tests-the-destination' % jn, c, 1, ['C:try_into'], 'the tested offset is the requested destination', narrow=False)
    X.writers('K4', 'Bytecode', 'jumpdest', [], crate=CR, constructors=['interpreter::bytecode::Bytecode::new'])
    X.writers('K4', 'Bytecode', 'code', [], crate=CR, constructors=['interpreter::bytecode::Bytecode::new'])
    BN = X.fn('interpreter::bytecode::Bytecode::new', CR)
    # jumpdest[i] = true  only where bytecode[i] == JUMPDEST
    setters = []
    for bi, b in enumerate(BN.blocks):
        for st in b['s']:
            if st[0] == '=' and st[1][1] and any(isinstance(p, list) and p[0] == 'i' for p in st[1][1]) and st[2][0] == 'use' and st[2][1][0] == 'k' and st[2][1][1].get('val') == 1:
                setters.append(bi)
    # (index through IndexMut: `*index_mut(&mut jumpdest, i) = true`)
    for bi, b in enumerate(BN.blocks):
        for st in b['s']:
            if st[0] == '=' and st[1][1] == ['*'] and st[2][0] == 'use' and st[2][1][0] == 'k' and st[2][1][1].get('ty') == 'bool' and st[2][1][1].get('val') == 1:
                setters.append(bi)
    X.guard('K6b', 'Bytecode::new:mark-only-jumpdest', BN, sorted(set(setters)), m_rel('eq', [], ['K:JUMPDEST'], True), 'bytecode[i] == JUMPDEST')
    psh = X.find_conds(BN, m_rel('ge', [], ['K:PUSH1'], True)) and X.find_conds(BN, m_rel('le', [], ['K:PUSH32'], True))
    rep.need('K6b', 'Bytecode::new:skips-push-data', bool(psh), 'jump-destination analysis must test PUSH1 <= op <= PUSH32 to skip push data', X.loc(BN))
    # push data is skipped by exactly its length: i += (op - PUSH1) + 2
    skip = False
    for b in BN.blocks:
        for st in b['s']:
            if st[0] == '=' and st[2][0] == 'bin' and norm_op(st[2][1]) == 'Add':
                at = prog.slicer.rvalue(BN, st[2])
                ops = expr_ops(prog, BN, st[2][2]) | expr_ops(prog, BN, st[2][3])
                if has_atom(at, 'K:PUSH1') and ('V', 2) in ops and ('OP', 'Sub') in ops:
                    skip = True
    rep.need('K10', 'Bytecode::new:push-skip-length', skip, 'after PUSHn the scan advances by (op - PUSH1) + 2 bytes', X.loc(BN))
    X.const_is('K11', 'JUMPDEST', 0x5b, CR)
    X.const_is('K11', 'PUSH1', 0x60, CR)
    X.const_is('K11', 'PUSH32', 0x7f, CR)
    VJ = X.fn('interpreter::bytecode::Bytecode::valid_jump_destination', CR)
    X.guard('K6b', 'valid_jump_destination:in-range', VJ, [c.bb for c in VJ.calls if (c.defp or '').endswith('Index::index')],
            m_rel('lt', ['P:2'], ['F:Bytecode.jumpdest'], True), 'offset < jumpdest.len()', success_only=False)
    # --- read-only
    RO = m_boolatoms(['F:System.readonly'], False)
    SYS = CR + "::interpreter::system::System::<'r, RT>::"
    effects = [
        ('sstore', 'interpreter::instructions::storage::sstore', callee_is("System::<'r, RT>::set_storage")),
        ('tstore', 'interpreter::instructions::storage::tstore', callee_is("System::<'r, RT>::set_transient_storage")),
        ('log', 'interpreter::instructions::log_event::log', lambda c: (c.defp or '') == RUNTIME + 'emit_event'),
        ('create', 'interpreter::instructions::lifecycle::create', callee_is('interpreter::instructions::lifecycle::create_common')),
        ('create2', 'interpreter::instructions::lifecycle::create2', callee_is('interpreter::instructions::lifecycle::create_common')),
        ('selfdestruct:transfer', 'interpreter::instructions::lifecycle::selfdestruct', lambda c: sendsmod.is_send(c) or callee_is("System::<'r, RT>::transfer")(c)),
        ('selfdestruct:mark', 'interpreter::instructions::lifecycle::selfdestruct', callee_is("System::<'r, RT>::mark_selfdestructed")),
        ('flush', "interpreter::system::System::<'r, RT>::flush", lambda c: (c.defp or '') == RUNTIME + 'set_state_root'),
    ]
    for (key, fname, pred) in effects:
        F = X.try_fn('K6b', fname, CR)
        if F is None:
            continue
        tg = [c.bb for c in F.calls if pred(c)]
        X.guard('K6b', 'readonly:%s' % key, F, tg, RO, 'system.readonly => Err before the effect')
    X.callers('K5', 'create_common', callee_is('interpreter::instructions::lifecycle::create_common'),
              ['interpreter::instructions::lifecycle::create', 'interpreter::instructions::lifecycle::create2'], crates=[CR])
    X.callers('K5', 'System::set_storage', callee_is("System::<'r, RT>::set_storage"), ['interpreter::instructions::storage::sstore'], crates=[CR])
    X.callers('K5', 'System::set_transient_storage', callee_is("System::<'r, RT>::set_transient_storage"), ['interpreter::instructions::storage::tstore'], crates=[CR])
    X.callers('K5', 'Runtime::emit_event (evm)', lambda c: (c.defp or '') == RUNTIME + 'emit_event' and c.fn.crate == CR, ['interpreter::instructions::log_event::log'])
    X.callers('K5', 'System::mark_selfdestructed', callee_is("System::<'r, RT>::mark_selfdestructed"), ['interpreter::instructions::lifecycle::selfdestruct'], crates=[CR])
    X.callers('K5', 'System::increment_nonce', callee_is("System::<'r, RT>::increment_nonce"), ['interpreter::instructions::lifecycle::create_common'], crates=[CR])
    X.callers('K5', 'Runtime::set_state_root (evm)', lambda c: (c.defp or '') == RUNTIME + 'set_state_root' and c.fn.crate == CR, ["System::<'r, RT>::flush"])
    # CALL with value in a static context
    CG = X.fn('interpreter::instructions::call::call_generic', CR)
    snd = [c.bb for c in X.sites(CG, lambda c: sendsmod.is_send(c))]
    rep.floor('K6b', 'call_generic_send_sites', len(snd), 2)
    X.guard_any('K6b', 'readonly:call-with-value', CG, snd, [RO, m_rel('gt', [], ['C:zero'], False)], 'system.readonly && value > 0 => Err')
    # STATICCALL sends read-only
    flagged = False
    for c in conds(CG, prog.slicer):
        if c.kind in ('rel', 'variant', 'pred') and has_atom(c.A | c.B, 'E:CallKind::StaticCall'):
            flagged = True
    sends_ro = [c for c in CG.calls if (c.callee or '').endswith("System::<'r, RT>::send_raw") or (c.callee or '').endswith("System::<'r, RT>::send")]
    ro_arg = [c for c in sends_ro if len(c.args) >= 7 and has_atom(prog.slicer.operand(CG, c.args[6]), 'K:READ_ONLY')]
    rep.need('K10', 'staticcall:read-only-flag', bool(ro_arg), 'the call path must pass SendFlags::READ_ONLY (selected for CallKind::StaticCall) to the send', X.loc(CG))
    # readonly is immutable after construction
    X.writers('K4', 'System', 'readonly', [], crate=CR, constructors=["interpreter::system::System::<'r, RT>::new", "interpreter::system::System::<'r, RT>::load"])
    for ctor in ('new', 'load'):
        F = X.try_fn('K10', "interpreter::system::System::<'r, RT>::%s" % ctor, CR)
        if F is None:
            continue
        if ctor == 'load':
            X.value_from('K10', 'System::load:readonly-from-runtime', F, X.agg_field_atoms(F, 'System', 'readonly', narrow=False), ['C:Runtime::read_only'], 'System.readonly is rt.read_only()')
    for site in prog.call_sites(lambda c: c.endswith("System::<'r, RT>::new")):
        if site.fn.crate != CR:
            continue
        at = prog.slicer.operand(site.fn, site.args[1])
        okv = has_atom(at, 'C:Runtime::read_only') or (has_atom(at, 'V:1') and not has_atom(at, 'V:0'))
        rep.need('K10', 'System::new:readonly:%s' % site.fn.id.split('::')[-1], okv, 'System::new must receive rt.read_only() (or constant true), got %s' % sendsmod.pretty(at), site.where)
    # ---- error discipline: no Result produced in these crates is silently discarded
    X.no_dropped_results('K14', 'results-not-discarded', ['fil_actor_evm', 'fil_actors_evm_shared'], 'no Result of a call is discarded')
    X.tolerated_failures('K15', 'tolerated-failures', ['fil_actor_evm', 'fil_actors_evm_shared'], 'tolerated failures are the reviewed ones')

