"""C05 - the epoch cron never fails and keeps every active miner on schedule."""
from core import *
from rules import *
import sends as sendsmod

LEVEL = 'other'
LEVEL_TEXT = ('Narrow structural clauses over MIR: the error-tolerance structure of the tick (the cron actor and the power actor do not propagate a failing '
              'callback, a failing miner loses its claim, the miner swallows a market failure only when the origin is the system actor, the reward actor '
              'tolerates a failing ApplyRewards) and, conversely, that every other send on the tick\'s paths propagates its error; the schedule '
              'structure (who sets and clears deadline_cron_active, enrolment of the next proving deadline with the epoch taken from the next '
              'deadline\'s last epoch, cron queue advanced past the processed epochs). Totality of callbacks on all states, absence of panics and '
              '"eventually processed" are not decided.')
TECHNIQUE = 'send-result discipline classification over rustc MIR (propagated / swallowed), single-writer sets, call-graph reachability, argument provenance slices'
CR = 'fil_actor_cron'
PW = 'fil_actor_power'
MI = 'fil_actor_miner'
RW = 'fil_actor_reward'
MK = 'fil_actor_market'
TX = RUNTIME + 'transaction'

# sends whose failure is deliberately not propagated (function suffix, method atom)
TOLERATED = {
    ('fil_actor_cron::Actor::epoch_tick', None): 'cron continues with the next entry',
    ('fil_actor_power::Actor::process_deferred_cron_events', 'K:ON_DEFERRED_CRON_EVENT_METHOD'): 'the failing miner loses its claim, the tick goes on',
    ('fil_actor_miner::request_terminate_deals', 'K:ON_MINER_SECTORS_TERMINATE_METHOD'): 'swallowed only when origin is the system actor',
    ('fil_actor_reward::Actor::award_block_reward', 'K:APPLY_REWARDS_METHOD'): 'a failing miner forfeits the reward (burnt)',
    ('fil_actor_reward::Actor::award_block_reward', 'K:METHOD_SEND'): 'burn of a forfeited reward; failure is logged',
    ('fil_actor_miner::Actor::dispute_windowed_post', 'K:METHOD_SEND'): 'reporter reward (not on the tick path)',
    ('fil_actor_miner::Actor::report_consensus_fault', 'K:METHOD_SEND'): 'reporter reward (not on the tick path)',
    ('fil_actor_miner::notifications::send_notification', 'K:SECTOR_CONTENT_CHANGED'): 'notification results are interpreted per piece (not on the tick path)',
    ('fil_actor_multisig::execute_transaction_if_approved', None): 'the inner call\'s exit code is the return value (not on the tick path)',
    ("fil_actor_evm::interpreter::system::System::<'r, RT>::send_raw", None): 'EVM CALL semantics (not on the tick path)',
    ('fil_actors_runtime::runtime::Runtime::send_simple', None): 'trait default forwarding',
    ("fil_actor_datacap::<&SyscallProvider<'_, RT> as fvm_actor_utils::syscalls::Syscalls>::send", None): 'token library adapter returns the raw result',
}


# sends whose raw Response is interpreted by the sender itself (no extract_send_result, no local is_success gate)
RAW_RESPONSE = {
    ("fil_actor_evm::interpreter::system::System::<'r, RT>::send_raw", None): 'EVM CALL: the exit code becomes the call\'s status word',
    ('fil_actor_miner::notifications::send_notification', 'K:SECTOR_CONTENT_CHANGED'): 'a failed notification is an explicit, logged, per-recipient outcome',
    ('fil_actors_runtime::runtime::Runtime::send_simple', None): 'trait default forwarding to send',
}


def run(prog, rep, tier, cfg):
    X = Ctx(prog, rep)
    rep.explanation = LEVEL_TEXT
    rep.not_decided = 'that no callback can fail on any reachable state; panic freedom; liveness (eventual processing)'
    # ---- K8: classification of every send in the workspace
    n = 0
    for s in sendsmod.all_sends(prog):
        f = s.c.fn
        n += 1
        tol = None
        for (fid, meth), why in TOLERATED.items():
            if f.id == fid and (meth is None or has_atom(s.method, meth)):
                tol = why
        key = '%s@%s' % (f.id.split('::', 1)[1] if '::' in f.id else f.id, ','.join(x for x in sendsmod.pretty(s.method) if x.startswith('K:')) or 'dynamic')
        if tol is None:
            rep.need('K8', 'send-propagated:' + key, s.fate in ('try', 'returned'),
                     'the result of this send is %s; only the frozen tolerated sites may not propagate a failure' % s.fate, s.c.where,
                     {'rule': 'K8', 'fn': f.id, 'method': sendsmod.pretty(s.method), 'fate': s.fate})
        else:
            rep.need('K8', 'send-tolerated:' + key, s.fate in ('matched', 'returned', 'passed', 'try'),
                     'this send is in the tolerated table (%s) and must inspect, not drop, its result (fate %s)' % (tol, s.fate), s.c.where,
                     {'rule': 'K8', 'fn': f.id, 'method': sendsmod.pretty(s.method), 'fate': s.fate, 'tolerated_because': tol})
    rep.floor('K8', 'send_sites_classified', n, 57)
    # ---- K8: a callee abort is visible only in Response.exit_code - every send must inspect it
    n2 = sendsmod.exit_code_rule(X, rep, sendsmod.all_sends(prog), RAW_RESPONSE)
    rep.floor('K8', 'send_sites_exit_code', n2, 57)
    ESR = X.fn('builtin::shared::extract_send_result', 'fil_actors_runtime')
    cs = [(c, arm) for (c, arm) in X.find_conds(ESR, m_pred('ExitCode::is_success', [], True)) if arm in c.arms]
    rep.need('K6b', 'extract_send_result:non-zero-exit-is-err', len(cs) == 1 and not ESR.ok_returns_from([0], removed=[X.edge(*cs[0])]),
             'extract_send_result returns Ok only behind exit_code.is_success()', X.loc(ESR))
    # ---- cron actor: the tick itself cannot return an error after the loop starts
    ET = X.fn('Actor::epoch_tick', CR)
    snd = [c for c in ET.calls if sendsmod.is_send(c)]
    rep.need('K8', 'cron:tick-ignores-entry-failure', len(snd) == 1 and not any(b in ET.reach([snd[0].target]) for b in ET.errblocks),
             'after dispatching an entry no error return is reachable in epoch_tick', X.loc(ET))
    for c in snd:
        X.arg_has('K10', 'cron:entry-receiver', c, 1, ['F:Entry.receiver'], 'each entry is sent to its receiver')
        X.arg_has('K10', 'cron:entry-method', c, 2, ['F:Entry.method_num'], 'with its method')
    # ---- power: failing miners lose their claim; the tick continues
    PD = X.fn('Actor::process_deferred_cron_events', PW)
    ms = [c for c in PD.calls if sendsmod.is_send(c)]
    rep.need('K5', 'power:callback-send', len(ms) == 1, 'one OnDeferredCronEvent send', X.loc(PD))
    if ms:
        c = ms[0]
        X.arg_has('K10', 'power:callback-to-miner', c, 1, ['F:CronEvent.miner_addr'], 'callback goes to the enrolled miner')
        # the Err arm records the miner for claim deletion
        okp = False
        for cd in conds(PD, prog.slicer):
            if cd.kind == 'variant' and has_atom(cd.A, 'C:Runtime::send_simple') and PD.dominates(c.bb, cd.bb):
                err = cd.arms.get(1, cd.arms.get('otherwise'))
                r = PD.reach([err], blocked=X.loop_heads(PD))
                for q in PD.calls:
                    if q.bb in r and (q.callee or '').endswith('Vec::<T, A>::push') and has_atom(prog.narrow.operand(PD, q.args[1]), 'F:CronEvent.miner_addr'):
                        okp = True
        rep.need('K8', 'power:failed-miner-recorded', okp, 'on a failed callback the miner address is queued for claim deletion', c.where)
    dc = [g for g in prog.closures_of(PD.id) if any(callee_is('state::State::delete_claim')(q) for q in g.calls)]
    rep.need('K3', 'power:failed-miner-loses-claim', len(dc) == 1, 'failed miners\' claims are deleted in a follow-up transaction', X.loc(PD))
    for g in prog.closures_of(PD.id, recursive=False):
        w = X.write_blocks(g, 'State', 'first_cron_epoch')
        if w:
            X.value_from('K10', 'power:queue-advanced', g, X.stmt_rvalue_atoms(g, 'State', 'first_cron_epoch', narrow=False), ['C:Runtime::curr_epoch', 'OP:Add', 'V:1'], 'first_cron_epoch := current epoch + 1')
            rm = [q for q in g.calls if (q.callee or '').endswith('::remove_all')]
            rep.need('K7', 'power:processed-epochs-cleared', len(rm) == 1 and result_fate(g, rm[0]) == 'try', 'processed epochs are removed from the queue', X.loc(g))
            X.followed_by('K7', 'power:queue-stored', g, w, X.write_blocks(g, 'State', 'cron_event_queue'), 'the new queue root is stored')
    X.writers('K4', 'State', 'first_cron_epoch', ['Actor::process_deferred_cron_events', 'state::State::append_cron_event'], crate=PW, constructors=['state::State::new'])
    AE = X.fn('state::State::append_cron_event', PW)
    X.guard('K6b', 'power:first-epoch-only-lowered-on-append', AE, X.write_blocks(AE, 'State', 'first_cron_epoch'), m_rel('lt', ['P:3'], ['F:State.first_cron_epoch'], True, pure=True), 'epoch < first_cron_epoch')
    OE = X.fn('Actor::on_epoch_tick_end', PW)
    X.must_reach('K3', 'power:tick-processes-callbacks', OE, callee_is('Actor::process_deferred_cron_events'), 'process_deferred_cron_events')
    # ---- miner: market failure swallowed only in cron context
    RT = X.fn('request_terminate_deals', MI)
    ts = [c for c in RT.calls if sendsmod.is_send(c)]
    rep.need('K5', 'miner:terminate-deals-send', len(ts) == 1, 'one OnMinerSectorsTerminate send', X.loc(RT))
    org = X.find_conds(RT, m_rel('eq', ['C:MessageInfo::origin'], ['K:SYSTEM_ACTOR_ADDR'], True))
    okm = False
    if len(org) == 1:
        c, arm = org[0]
        user_arm = c.arms[not arm]
        # on the non-system arm an Err result must be returned: no Ok return reachable with the error swallowed
        r_sys = RT.reach([c.arms[arm]])
        r_usr = RT.reach([user_arm])
        okm = any(b in r_usr for b in RT.errblocks) or any(RT.blocks[b]['t'][0] == 'call' and RT.blocks[b]['t'][1].get('def', '').endswith('Try::branch') for b in r_usr)
    rep.need('K8', 'miner:market-failure-swallowed-only-for-system-origin', okm and len(org) == 1, 'the market error is swallowed only on the origin == SYSTEM_ACTOR_ADDR arm; otherwise it is propagated', X.loc(RT))
    # ---- reward: a failing miner does not fail the block reward
    AW = X.fn('Actor::award_block_reward', RW)
    ap = [c for c in AW.calls if sendsmod.is_send(c) and has_atom(prog.narrow.operand(AW, c.args[2]), 'K:APPLY_REWARDS_METHOD')]
    bn = [c for c in AW.calls if sendsmod.is_send(c) and has_atom(prog.narrow.operand(AW, c.args[1]), 'K:BURNT_FUNDS_ACTOR_ADDR')]
    rep.need('K5', 'reward:sends', len(ap) == 1 and len(bn) == 1, 'one ApplyRewards send and one fallback burn', X.loc(AW))
    if ap and bn:
        okr = False
        for cd in conds(AW, prog.slicer):
            if cd.kind == 'variant' and has_atom(cd.A, 'K:APPLY_REWARDS_METHOD') and AW.dominates(ap[0].bb, cd.bb):
                err = cd.arms.get(1, cd.arms.get('otherwise'))
                ok_arm = cd.arms.get(0)
                if bn[0].bb in AW.reach([err]) and (ok_arm is None or bn[0].bb not in AW.reach([ok_arm])):
                    okr = True
        rep.need('K8', 'reward:forfeited-reward-burnt', okr, 'the burn happens exactly on the failure arm of ApplyRewards', bn[0].where)
        X.arg_has('K10', 'reward:burns-the-reward', bn[0], 4, ['C:Runtime::transaction'], 'the burnt value is the computed total reward')
    # ---- schedule structure
    X.writers('K4', 'State', 'deadline_cron_active', ['Actor::pre_commit_sector_batch_inner', 'Actor::prove_commit_sectors_ni', 'handle_proving_deadline'], crate=MI, constructors=['state::State::new'])
    EN = lambda c: callee_is('enroll_cron_event')(c) and c.fn.crate == MI
    for hn in ('Actor::pre_commit_sector_batch_inner', 'Actor::prove_commit_sectors_ni'):
        H = X.fn(hn, MI)
        key = hn.split('::')[-1]
        X.must_reach('K3', '%s:enrols-deadline-cron' % key, H, EN, 'enroll_cron_event')
        # the write of `true` and the needs_cron flag come from the same read
        for g in prog.closures_of(H.id, recursive=False):
            w = X.stmt_rvalue_atoms(g, 'State', 'deadline_cron_active', narrow=False)
            if w:
                rep.need('K10', '%s:sets-active' % key, all(has_atom(a, 'V:1') and not has_atom(a, 'V:0') for (_b, a) in w), 'deadline_cron_active := true', X.loc(g, w[0][0]))
        ens = [c for c in H.calls if EN(c)]
        rep.need('K8', '%s:enrol-propagated' % key, ens and all(result_fate(H, c) == 'try' for c in ens), 'enrolment failure aborts', X.loc(H))
        for c in ens:
            X.arg_has('K10', '%s:enrol-epoch' % key, c, 1, ['C:DeadlineInfo::last', 'C:State::deadline_info'], 'enrolled for the last epoch of the current deadline', narrow=False)
            X.guard('K6b', '%s:enrol-when-inactive' % key, H, [c.bb], m_boolatoms(['F:State.deadline_cron_active'], True), 'needs_cron (cron was not active)')
    HP = X.fn('handle_proving_deadline', MI)
    ens = [c for c in HP.calls if EN(c)]
    rep.need('K5', 'deadline:re-enrol-site', len(ens) == 1 and result_fate(HP, ens[0]) == 'try', 'one re-enrolment, propagated', X.loc(HP))
    for c in ens:
        X.arg_has('K10', 'deadline:next-deadline-last-epoch', c, 1, ['C:DeadlineInfo::last', 'C:State::deadline_info', 'C:Runtime::curr_epoch', 'OP:Add', 'V:1'], 'enrolled for the last epoch of the deadline containing epoch+1', narrow=False)
        X.guard('K6b', 'deadline:re-enrol-iff-continue', HP, [c.bb], m_boolatoms(['C:State::continue_deadline_cron'], True), 'continue_cron')
    for g in prog.closures_of(HP.id, recursive=False):
        w = X.stmt_rvalue_atoms(g, 'State', 'deadline_cron_active', narrow=False)
        if w:
            rep.need('K10', 'deadline:clears-active', all(has_atom(a, 'V:0') and not has_atom(a, 'V:1') for (_b, a) in w), 'deadline_cron_active := false', X.loc(g, w[0][0]))
            X.guard('K6b', 'deadline:clears-only-when-stopping', g, [b for (b, _a) in w], m_boolatoms(['C:State::continue_deadline_cron'], False), '!continue_cron')
        ad = [c for c in g.calls if callee_is('state::State::advance_deadline')(c)]
        if ad:
            rep.need('K7', 'deadline:advanced', result_fate(g, ad[0]) == 'try' and not g.ok_returns_from([0], blocked={ad[0].bb}), 'every successful deadline callback advances the deadline', X.loc(g))
    OD = X.fn('Actor::on_deferred_cron_event', MI)
    X.must_reach('K3', 'deferred:handles-proving-deadline', OD, callee_is('handle_proving_deadline'), 'handle_proving_deadline')
    X.must_reach('K3', 'deferred:handles-early-terminations', OD, callee_is('process_early_terminations'), 'process_early_terminations')
    CD = X.fn('state::State::continue_deadline_cron', MI)
    zs = [c for c in CD.calls if (c.callee or '').endswith('is_zero')]
    flds = set()
    for c in zs:
        for (adt, fld) in [(a[1], a[2]) for a in prog.slicer.operand(CD, c.args[0]) if a[0] == 'F']:
            flds.add(fld)
    rep.need('K10', 'deadline:continue-criteria', {'pre_commit_deposits', 'initial_pledge', 'locked_funds'} <= flds,
             'the cron continues while deposits, pledge or locked funds remain (is_zero tests on %s)' % sorted(flds), X.loc(CD))
    # early-termination work is rescheduled while there is more
    ST = X.fn('schedule_early_termination_work', MI)
    X.must_reach('K3', 'early-termination:reschedules', ST, EN, 'enroll_cron_event')
    # market: the cron tick advances last_cron
    CT = X.fn('Actor::cron_tick', MK)
    for g in prog.closures_of(CT.id, recursive=False):
        w = X.stmt_rvalue_atoms(g, 'State', 'last_cron', narrow=False)
        if w:
            X.value_from('K10', 'market:last_cron-advanced', g, w, ['C:Runtime::curr_epoch'], 'last_cron := current epoch', copy=True)
            rep.need('K7', 'market:last_cron-on-success', not g.ok_returns_from([0], blocked={b for (b, _a) in w}), 'every successful tick records it ran', X.loc(g))
    # ---- early terminations are drained completely (rows shared with C15)
    import props.c15 as c15
    c15.early_termination_drain(prog, rep, X, prefix='cron:')
    # ---- error discipline: no Result produced in these crates is silently discarded
    X.no_dropped_results('K14', 'results-not-discarded', ['fil_actor_cron', 'fil_actor_power', 'fil_actor_miner', 'fil_actor_market', 'fil_actor_reward'], 'no Result of a call is discarded')
    X.tolerated_failures('K15', 'tolerated-failures', ['fil_actor_cron', 'fil_actor_power', 'fil_actor_miner', 'fil_actor_market', 'fil_actor_reward'], 'tolerated failures are the reviewed ones')
    X.write_sites_preserved('K16', 'updates-present', 'fil_actor_miner', ['State.deadline_cron_active', 'State.current_deadline', 'State.proving_period_start', 'State.early_terminations'], 'state updates do not disappear')
    X.write_sites_preserved('K16', 'updates-present', 'fil_actor_power', ['State.first_cron_epoch', 'State.cron_event_queue'], 'state updates do not disappear')


