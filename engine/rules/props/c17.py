"""C17 - EVM instructions compute what the Ethereum specification says (structural clause only).

What is decided: for every opcode of the property's instruction classes, the *shape* of its implementation agrees with a
reference table written from the Yellow Paper / EIPs:
  (1) operand binding   - the i-th argument handed to the implementation is the i-th word from the top of the stack
                          (mu_s[0] first), for every instruction wrapper;
  (2) operator identity  - the implementation applies the operator the specification names, with the operands in the
                          specified order (a - b, a / b, a < b, value << shift ...), wrapping where the spec wraps, and
                          applies no other 256-bit arithmetic operator;
  (3) special cases      - the zero-divisor, shift >= 256, byte-index >= 32 and sign-extension >= 32 arms exist and guard
                          the operator;
  (4) role binding       - for memory / storage / transient storage / copy / hash / return instructions, which stack
                          operand is the offset, the size, the key, the value, the source index (argument provenance at the
                          call into the shared region / copy / storage helper), the word size constants and endianness
                          routine.
What is not decided: the arithmetic itself (that `overflowing_sub`, `i256_div`, `U512 %` compute the right 256-bit values
for all operands), i.e. conformance for all inputs.  Every row is a necessary condition: breaking it changes results."""
import re
from core import *
from rules import *

LEVEL = 'other'
LEVEL_TEXT = ('Structural necessary conditions of EVM instruction semantics, decided from the MIR of every instruction wrapper and implementation against a '
              'reference table written from the Yellow Paper and EIP-145/1153/3855/5656/7939: stack-operand binding (i-th argument = i-th word from the top), '
              'operator identity and operand order of every arithmetic / comparison / bitwise instruction (wrapping where the spec wraps, no other 256-bit '
              'operator applied), presence and placement of the special-case arms (zero divisor, shift >= 256, byte index >= 32, sign-extension index >= 32), and '
              'the role of each stack operand (offset, size, key, value, source index) at the shared memory-region / copy / storage / hash helpers, word-size '
              'constants and big-endian routines. Conformance of the computed 256-bit values for all operands is NOT decided (value-dependent).')
TECHNIQUE = 'table agreement between code-derived operator/operand shapes (resolved callees + operand provenance slices over rustc MIR) and a reference semantics table; guard dominance by CFG edge deletion'
CR = 'fil_actor_evm'
INS = CR + '::interpreter::instructions::'
U = 'fil_actors_evm_shared::uints::'

_TRAIT = re.compile(r'core::ops::(?:arith|bit)::(Add|Sub|Mul|Div|Rem|Neg|BitOr|BitAnd|BitXor|Not|Shl|Shr)(?:Assign)?\b')
_CMP = {'lt': 'lt', 'gt': 'gt', 'le': 'le', 'ge': 'ge', 'eq': 'eq', 'ne': 'ne'}
WRAP = {'overflowing_add': 'wadd', 'wrapping_add': 'wadd', 'overflowing_sub': 'wsub', 'wrapping_sub': 'wsub', 'overflowing_mul': 'wmul', 'wrapping_mul': 'wmul'}
METHODS = {'i256_div': 'sdiv', 'i256_mod': 'smod', 'i256_cmp': 'scmp', 'i256_is_negative': 'isneg', 'i256_neg': 'sneg', 'is_zero': 'iszero', 'byte': 'byte',
           'bit': 'bit', 'leading_zeros': 'clz', 'low_u256': 'low256', 'low_u32': 'low32', 'low_u64': 'low64', 'from_big_endian': 'from_be',
           'write_as_big_endian': 'to_be', 'to_big_endian': 'to_be', 'from_little_endian': 'from_le', 'write_as_little_endian': 'to_le',
           'checked_add': 'cadd', 'checked_sub': 'csub', 'checked_mul': 'cmul', 'saturating_add': 'sadd', 'saturating_sub': 'ssub', 'saturating_mul': 'smul',
           'pow': 'pow', 'overflowing_pow': 'pow', 'checked_div': 'cdiv', 'checked_rem': 'crem', 'div_mod': 'divmod', 'swap_bytes': 'bswap', 'trailing_zeros': 'ctz',
           'bits': 'bits', 'abs_diff': 'absdiff', 'overflowing_neg': 'wneg', 'overflowing_shl': 'shl', 'overflowing_shr': 'shr', 'isqrt': 'sqrt', 'integer_sqrt': 'sqrt'}


def wide(callee, defp):
    s = (callee or '') + ' ' + (defp or '')
    if 'U512' in s:
        return '512'
    return ''


def opclass(prog, f, c):
    """operator class of a call on 256/512-bit words, or None"""
    cal, dp = c.callee or '', c.defp or ''
    is_u = (U + 'U256' in cal) or (U + 'U512' in cal) or ('uints::U256' in cal) or ('uints::U512' in cal)
    m = _TRAIT.search(dp) or _TRAIT.search(cal)
    if m:
        if not is_u:
            # operator trait on another type (usize/u64 arithmetic is MIR `bin`, so this is e.g. TokenAmount): not a word operator
            return None
        return m.group(1).lower() + wide(cal, dp)
    last = (dp or cal).split('::')[-1]
    if dp.startswith('core::cmp::PartialOrd::') or dp.startswith('core::cmp::PartialEq::') or cal.startswith('core::cmp::PartialOrd::'):
        if last in _CMP:
            # comparisons of words (or of a word with an integer literal); Ordering == Ordering is classed apart
            if 'core::cmp::Ordering as' in cal:
                return 'ordeq'
            return last
    if is_u or cal.startswith(U):
        if last in WRAP:
            return WRAP[last] + wide(cal, dp)
        if last in METHODS:
            return METHODS[last]
    return None


def roots(prog, f, op):
    """root set of an operand: parameters ('P', n), literal values ('V', v), named constants ('K', last segment), enum variants"""
    out = set()
    for a in prog.slicer.operand(f, op):
        if a[0] == 'P':
            out.add('P%d' % a[1])
        elif a[0] == 'V':
            out.add('V%s' % a[1])
        elif a[0] == 'K':
            out.add('K:' + a[1].split('::')[-1])
        elif a[0] == 'E':
            out.add('E:%s::%s' % (a[1].split('::')[-1], a[2]))
        elif a[0] == 'F':
            out.add('F:%s.%s' % (a[1].split('::')[-1], a[2]))
    return out


def apps(prog, f):
    """[(class, [root set per argument], call)] of every word-operator application in f and its closures"""
    out = []
    for g in [f] + list(prog.closures_of(f.id)):
        for c in g.calls:
            k = opclass(prog, g, c)
            if k is None:
                continue
            out.append((k, [roots(prog, g, a) for a in c.args], c, g))
    return out


def canon(k, args):
    """gt(a,b) == lt(b,a), ge(a,b) == le(b,a)"""
    if k == 'gt' and len(args) == 2:
        return 'lt', [args[1], args[0]]
    if k == 'ge' and len(args) == 2:
        return 'le', [args[1], args[0]]
    return k, args


def has_app(A, k, pats, comm=False):
    """an application of class k whose argument i has every root in pats[i][0] and none in pats[i][1]"""
    def ok(args, pats):
        if len(args) < len(pats):
            return False
        for a, p in zip(args, pats):
            must, forbid = p
            if not set(must) <= a or (set(forbid) & a):
                return False
        return True
    for (kk, args, c, g) in A:
        kk, args = canon(kk, args)
        k2, _ = canon(k, [None, None])
        if kk != k2 and kk not in ALT.get(k2, ()):
            continue
        p2 = pats
        if k != k2:
            p2 = [pats[1], pats[0]]
        if ok(args, p2) or (comm and len(p2) == 2 and ok(args, [p2[1], p2[0]])):
            return (kk, args, c, g)
    return None


def P(*must, no=()):
    return (list(must), list(no))


# word-arithmetic classes: an implementation may apply only the ones its row lists
ARITH = {'wadd', 'wsub', 'wmul', 'add', 'sub', 'mul', 'div', 'rem', 'neg', 'add512', 'sub512', 'mul512', 'div512', 'rem512', 'wadd512', 'wsub512', 'wmul512',
         'bitor', 'bitand', 'bitxor', 'not', 'shl', 'shr', 'sdiv', 'smod', 'scmp', 'sneg', 'isneg', 'byte', 'bit', 'clz', 'ctz', 'pow', 'cadd', 'csub', 'cmul',
         'sadd', 'ssub', 'smul', 'divmod', 'bswap', 'bits', 'absdiff', 'wneg', 'sqrt', 'lt', 'le', 'eq', 'ne', 'gt', 'ge', 'iszero', 'ordeq', 'low256'}

# classes that only *test* a word (they select an arm, they do not compute the result): never counted as a foreign operator
TESTS = {'lt', 'le', 'gt', 'ge', 'eq', 'ne', 'iszero', 'isneg', 'ordeq'}
# a checked division satisfies a row asking for the division (it needs no zero-divisor arm of its own)
ALT = {'div': ('div', 'cdiv'), 'rem': ('rem', 'crem'), 'div512': ('div512', 'cdiv512'), 'rem512': ('rem512', 'crem512')}

# mnemonic -> (required applications, allowed word-arithmetic classes)
# P1 = mu_s[0] (top of the stack), P2 = mu_s[1], ...
PURE = {
    'ADD': ([('wadd', [P('P1', no=['P2']), P('P2', no=['P1'])], True)], {'wadd'}),
    'MUL': ([('wmul', [P('P1', no=['P2']), P('P2', no=['P1'])], True)], {'wmul'}),
    'SUB': ([('wsub', [P('P1', no=['P2']), P('P2', no=['P1'])], False)], {'wsub'}),
    'DIV': ([('div', [P('P1', no=['P2']), P('P2', no=['P1'])], False)], {'div', 'cdiv'}),
    'SDIV': ([('sdiv', [P('P1', no=['P2']), P('P2', no=['P1'])], False)], {'sdiv'}),
    'MOD': ([('rem', [P('P1', no=['P2']), P('P2', no=['P1'])], False)], {'rem', 'crem'}),
    'SMOD': ([('smod', [P('P1', no=['P2']), P('P2', no=['P1'])], False)], {'smod'}),
    'ADDMOD': ([('add512', [P('P1', no=['P2', 'P3']), P('P2', no=['P1', 'P3'])], True), ('rem512', [P('P1', 'P2', no=['P3']), P('P3', no=['P1', 'P2'])], False),
                ('low256', [P('P1', 'P2', 'P3')], False)], {'add512', 'rem512', 'crem512', 'low256'}),
    'MULMOD': ([('mul512', [P('P1', no=['P2', 'P3']), P('P2', no=['P1', 'P3'])], True), ('rem512', [P('P1', 'P2', no=['P3']), P('P3', no=['P1', 'P2'])], False),
                ('low256', [P('P1', 'P2', 'P3')], False)], {'mul512', 'rem512', 'crem512', 'low256'}),
    'EXP': ([('wmul', [P('P1'), P('P1', no=['P2'])], False)], {'wmul', 'clz', 'bits', 'bit', 'pow'}),
    'SIGNEXTEND': ([('lt', [P('P1', no=['P2']), P('V32')], False), ('bit', [P('P2', no=['P1']), P('P1', 'V8', 'V7', no=['P2'])], False)],
                   {'bit', 'bitor', 'bitand', 'shr', 'shl', 'not', 'wsub'}),
    'LT': ([('lt', [P('P1', no=['P2']), P('P2', no=['P1'])], False)], {'lt'}),
    'GT': ([('gt', [P('P1', no=['P2']), P('P2', no=['P1'])], False)], {'lt'}),
    'SLT': ([('scmp', [P('P1', no=['P2']), P('P2', no=['P1'])], False), ('ordeq', [P('P1', 'P2'), P('E:Ordering::Less')], True)], {'scmp', 'ordeq'}),
    'SGT': ([('scmp', [P('P1', no=['P2']), P('P2', no=['P1'])], False), ('ordeq', [P('P1', 'P2'), P('E:Ordering::Greater')], True)], {'scmp', 'ordeq'}),
    'EQ': ([('eq', [P('P1', no=['P2']), P('P2', no=['P1'])], True)], {'eq'}),
    'ISZERO': ([('iszero', [P('P1')], False)], {'iszero'}),
    'AND': ([('bitand', [P('P1', no=['P2']), P('P2', no=['P1'])], True)], {'bitand'}),
    'OR': ([('bitor', [P('P1', no=['P2']), P('P2', no=['P1'])], True)], {'bitor'}),
    'XOR': ([('bitxor', [P('P1', no=['P2']), P('P2', no=['P1'])], True)], {'bitxor'}),
    'NOT': ([('not', [P('P1')], False)], {'not'}),
    'BYTE': ([('ge', [P('P1', no=['P2']), P('V32')], False), ('byte', [P('P2', no=['P1']), P('P1', 'V31', no=['P2'])], False)], {'le', 'byte'}),
    'SHL': ([('shl', [P('P2', no=['P1']), P('P1', no=['P2'])], False), ('ge', [P('P1', no=['P2']), P('V256')], False)], {'shl', 'le', 'iszero'}),
    'SHR': ([('shr', [P('P2', no=['P1']), P('P1', no=['P2'])], False), ('ge', [P('P1', no=['P2']), P('V256')], False)], {'shr', 'le', 'iszero'}),
    'SAR': ([('isneg', [P('P2', no=['P1'])], False), ('shr', [P('P2'), P('P1', no=['P2'])], False), ('ge', [P('P1', no=['P2']), P('V256')], False),
             ('sneg', [P('P2')], False)], {'isneg', 'shr', 'le', 'sneg', 'iszero', 'wsub', 'wadd'}),
    'CLZ': ([('clz', [P('P1')], False)], {'clz'}),
}
# the comparison literal is the second operand of `ge`; after canonicalisation ge(a, 32) is le(32, a)


def impl_of(prog, ins):
    """the implementation function an instruction wrapper calls (the one call into instructions::<module>::)"""
    cs = [c for c in ins.calls if (c.callee or '').startswith(INS) and (c.callee or '').count('::') >= 4]
    return cs


def stack_index(ins, op, depth=0):
    """constant index into the popped array this operand is a plain copy of, or None"""
    if depth > 6 or op[0] not in ('c', 'm'):
        return None
    pl = op[1]
    ci = [p for p in pl[1] if isinstance(p, list) and p[0] == 'ci']
    if ci:
        return ci[0][1]
    if pl[1]:
        return None
    ds = [d for d in ins.defs.get(pl[0], []) if d[0] in ('=', 'call')]
    if len(ds) != 1 or ds[0][0] != '=':
        return None
    rv = ds[0][4]
    if rv[0] == 'use':
        return stack_index(ins, rv[1], depth + 1)
    return None


def array_elems(ins, op):
    """operands of the array literal an operand borrows (`&[t1, t2]`), or None"""
    if op[0] not in ('c', 'm') or op[1][1]:
        return None
    l = op[1][0]
    for _ in range(6):
        ds = [d for d in ins.defs.get(l, []) if d[0] == '=']
        if len(ds) != 1:
            return None
        rv = ds[0][4]
        if rv[0] == 'agg' and rv[1].get('k') == 'array':
            return rv[2]
        if rv[0] == 'ref' and all(q == '*' for q in rv[2][1]):
            l = rv[2][0]
            continue
        if rv[0] == 'use' and rv[1][0] in ('c', 'm') and not rv[1][1][1]:
            l = rv[1][1][0]
            continue
        if rv[0] == 'cast' and rv[2][0] in ('c', 'm') and not rv[2][1][1]:
            l = rv[2][1][0]
            continue
        return None
    return None


def run(prog, rep, tier, cfg):
    import json, os
    X = Ctx(prog, rep)
    rep.explanation = LEVEL_TEXT
    rep.not_decided = 'that the word operators (overflowing_*, i256_*, U512 %, shifts) compute the specified 256-bit values; conformance for all operands and programs'
    TABLE = os.path.join(os.path.dirname(os.path.dirname(os.path.dirname(os.path.dirname(os.path.abspath(__file__))))), 'tables', 'evm_opcodes.json')
    ref = json.load(open(TABLE))
    names = sorted({v['name'] for v in ref['opcodes'].values() if v['kind'] == 'std'})
    POP_MANY = CR + '::interpreter::stack::Stack::pop_many'
    n_wr = 0
    impls = {}
    # ---- (1) operand binding in every wrapper
    for name in names:
        ins = prog.fns.get(INS + name)
        if ins is None:
            rep.ob('K9', 'binding:%s' % name, False, 'instruction wrapper %s not found' % name)
            continue
        pops = [c for c in ins.calls if c.callee == POP_MANY]
        cs = impl_of(prog, ins)
        if not pops:
            if cs:
                impls[name] = (ins, cs[0])
            continue
        n = pops[0].const_ga()[0]
        if len(cs) != 1:
            rep.ob('K9', 'binding:%s' % name, False, 'expected exactly one implementation call in the wrapper, found %d' % len(cs), X.loc(ins))
            continue
        c = cs[0]
        impls[name] = (ins, c)
        seq = []
        for a in c.args:
            k = stack_index(ins, a)
            if k is not None:
                seq.append(k)
                continue
            el = array_elems(ins, a)
            if el:
                for e in el:
                    k = stack_index(ins, e)
                    if k is not None:
                        seq.append(k)
        want = list(range(n - 1, -1, -1))
        n_wr += 1
        rep.need('K9', 'binding:%s' % name, seq == want, 'stack words reach the implementation as %s (array index, last = top of stack); the specification order (mu_s[0] first) is %s' % (seq, want), X.loc(ins),
                 {'rule': 'K9', 'mnemonic': name, 'impl': c.callee, 'pops': n, 'arg_slots': seq})
    rep.floor('K9', 'wrappers_with_stack_operands', n_wr, 60)
    # ---- (2)(3) operator identity, operand order, special-case arms of the pure instructions
    for name, (reqs, allowed) in sorted(PURE.items()):
        if name not in impls:
            rep.ob('K9', 'semantics:%s' % name, False, 'no implementation bound to %s' % name)
            continue
        ins, c = impls[name]
        f = prog.fns.get(c.callee)
        if f is None:
            rep.ob('K9', 'semantics:%s' % name, False, 'implementation %s has no body in the workspace' % c.callee, X.loc(ins))
            continue
        A = apps(prog, f)
        for (k, pats, comm) in reqs:
            hit = has_app(A, k, pats, comm)
            rep.need('K10', 'semantics:%s:%s' % (name, k), hit is not None,
                     '%s must apply `%s` to operands %s%s; found applications %s' % (name, k, [p[0] for p in pats], ' (either order)' if comm else ' (in this order)',
                                                                                    [(kk, [sorted(x) for x in aa]) for (kk, aa, _c, _g) in A][:8]), X.loc(f),
                     {'rule': 'K10', 'mnemonic': name, 'impl': f.id, 'operator': k, 'operands': [p[0] for p in pats]})
        used = {canon(kk, aa)[0] for (kk, aa, _c, _g) in A if kk in ARITH and kk not in TESTS}
        extra = sorted(used - {canon(a, [None, None])[0] for a in allowed})
        rep.need('K10', 'semantics:%s:no-other-operator' % name, not extra, '%s applies word operators outside its specification: %s' % (name, extra), X.loc(f))
    # special-case arms: the operator is reachable only past the test
    def impl(name):
        return prog.fns.get(impls[name][1].callee) if name in impls else None
    def nonzero(p):
        return m_any(m_pred('is_zero', [p], False), m_rel('eq', [p], ['K:ZERO'], False), m_rel('eq', [p], ['V:0'], False),
                     m_rel('ne', [p], ['K:ZERO'], True), m_rel('ne', [p], ['V:0'], True))
    for name, k, test in (('DIV', 'div', nonzero('P:2')), ('MOD', 'rem', nonzero('P:2')),
                          ('ADDMOD', 'rem512', nonzero('P:3')), ('MULMOD', 'rem512', nonzero('P:3'))):
        f = impl(name)
        if f is None:
            continue
        sites = [c.bb for (kk, aa, c, g) in apps(prog, f) if kk == k and g is f]
        if sites:
            X.guard('K6b', 'semantics:%s:zero-divisor' % name, f, sites, test, 'the division is evaluated only when the divisor is non-zero (result 0 otherwise)')
    for name, k in (('SHL', 'shl'), ('SHR', 'shr')):
        f = impl(name)
        if f is None:
            continue
        sites = [c.bb for (kk, aa, c, g) in apps(prog, f) if kk == k and g is f]
        if sites:
            X.guard('K6b', 'semantics:%s:shift-bound' % name, f, sites, m_rel('ge', ['P:1'], ['V:256'], False, pure=True), 'shift >= 256 => 0')
    f = impl('SAR')
    if f is not None:
        sites = [c.bb for (kk, aa, c, g) in apps(prog, f) if kk == 'shr' and g is f]
        if sites:
            X.guard('K6b', 'semantics:SAR:shift-bound', f, sites, m_rel('ge', ['P:1'], ['V:256'], False, pure=True), 'shift >= 256 => 0 / -1')
    f = impl('BYTE')
    if f is not None:
        sites = [c.bb for (kk, aa, c, g) in apps(prog, f) if kk == 'byte' and g is f]
        if sites:
            X.guard('K6b', 'semantics:BYTE:index-bound', f, sites, m_rel('ge', ['P:1'], ['V:32'], False, pure=True), 'index >= 32 => 0')
            # big-endian index: 31 - i
            ok = bin_with(prog, f, 'Sub', ['V31'], ['P1'])
            rep.need('K10', 'semantics:BYTE:big-endian-index', ok, 'byte i counts from the most significant byte: little-endian index = 31 - i', X.loc(f))
    f = impl('SIGNEXTEND')
    if f is not None:
        sites = [c.bb for (kk, aa, c, g) in apps(prog, f) if kk == 'bit' and g is f]
        if sites:
            X.guard('K6b', 'semantics:SIGNEXTEND:index-bound', f, sites, m_rel('lt', ['P:1'], ['V:32'], True, pure=True), 'index < 32, else the value is unchanged')
    # ---- signed helpers the signed instructions delegate to (evm shared uints): operator identity, operand order, sign logic
    signed(prog, rep, X)
    # ---- narrowing a 256-bit word to a machine integer keeps only its low bits: everywhere the interpreter does it, the word has
    # been compared with a bound first (index < 32, shift < 256, offset < data length ...), so the dropped bits are known zero;
    # the one intended truncation is MSTORE8's low byte
    narrowing(prog, rep, X)
    # ---- (4) role binding of memory / storage / copy / hash / return instructions
    roles(prog, rep, X, impls)
    # ---- JUMP / JUMPI semantics need the jump-destination map: a byte is a destination only if it is JUMPDEST outside push data,
    # and the data of PUSH1..PUSH32 (inclusive) is skipped by exactly its length (rows shared in spirit with C18)
    BN = prog.fns.get(CR + '::interpreter::bytecode::Bytecode::new')
    if BN is None:
        rep.ob('K6b', 'jumpdest-map', False, 'Bytecode::new not found (fail closed)')
    else:
        lo = X.find_conds(BN, m_rel('ge', [], ['K:PUSH1'], True, pure=True))
        hi = X.find_conds(BN, m_rel('le', [], ['K:PUSH32'], True, pure=True))
        rep.need('K6b', 'jumpdest-map:push-range-inclusive', bool(lo) and bool(hi), 'the push-data skip applies to PUSH1 <= op <= PUSH32, both bounds inclusive', X.loc(BN))
    # ---- error discipline: no Result produced in these crates is silently discarded
    X.no_dropped_results('K14', 'results-not-discarded', ['fil_actor_evm', 'fil_actors_evm_shared'], 'no Result of a call is discarded')
    X.tolerated_failures('K15', 'tolerated-failures', ['fil_actor_evm', 'fil_actors_evm_shared'], 'tolerated failures are the reviewed ones')



def source_calls(prog, f, op, depth=0, seen=None):
    """the workspace Call objects whose results an operand is computed from (walks back through plain statements and library
    calls; a call into workspace code is a source and is not entered) - distinguishes two calls of the same helper"""
    seen = seen if seen is not None else set()
    out = set()
    if depth > 14 or op[0] not in ('c', 'm'):
        return out
    l = op[1][0]
    idx = [p[1] for p in op[1][1] if isinstance(p, list) and p[0] == 'i']
    for l2 in [l] + idx:
        if l2 in seen:
            continue
        seen.add(l2)
        for d in f.defs.get(l2, []):
            if d[0] == '=':
                rv = d[4]
                k = rv[0]
                ops = []
                if k == 'use':
                    ops = [rv[1]]
                elif k in ('ref', 'rawptr'):
                    ops = [['c', rv[2]]]
                elif k == 'cfd':
                    ops = [['c', rv[1]]]
                elif k == 'cast':
                    ops = [rv[2]]
                elif k == 'bin':
                    ops = [rv[2], rv[3]]
                elif k == 'un':
                    ops = [rv[2]]
                elif k == 'agg':
                    ops = list(rv[2])
                elif k == 'discr':
                    ops = [['c', rv[1]]]
                for o in ops:
                    out |= source_calls(prog, f, o, depth + 1, seen)
            elif d[0] == 'call':
                c = d[2]
                if (c.callee or '') in prog.fns and not (c.defp or '').startswith('core::'):
                    out.add(c)
                else:
                    for a in c.args:
                        out |= source_calls(prog, f, a, depth + 1, seen)
    return out


def narrowing(prog, rep, X):
    INTENDED = {INS + 'memory::mstore8': 'MSTORE8 stores the low byte'}
    n = 0
    for f in sorted(prog.bodies(), key=lambda f: f.id):
        if f.crate != CR or f.kind not in ('fn', 'assocfn', 'closure') or NEUTRAL.search(f.id):
            continue
        for c in f.calls:
            if not re.search(r'uints::U256::(low_u64|low_u32|as_u64|as_u32|as_usize|low_u128|as_u128)$', c.callee or ''):
                continue
            n += 1
            if f.id in INTENDED:
                continue
            rr = {a for a in prog.slicer.operand(f, c.args[0]) if a[0] == 'P'}
            ok = False
            for cd in conds(f, prog.slicer):
                if cd.kind != 'rel' or cd.rel not in ('lt', 'le'):
                    continue
                sides = [{a for a in cd.A if a[0] == 'P'}, {a for a in cd.B if a[0] == 'P'}]
                if not any(rr and rr <= sd for sd in sides):
                    continue
                for arm, tb in cd.arms.items():
                    if c.bb not in f.reach([0], removed=[X.edge(cd, arm)]):
                        ok = True
            rep.need('K6b', 'narrowing:%s:%s' % (f.id.split('::', 3)[-1], (c.callee or '').split('::')[-1]), ok,
                     'the word narrowed by %s must have been compared with a bound on every path to the narrowing (its high bits are otherwise silently dropped)' % (c.callee or '').split('::')[-1], c.where)
    rep.floor('K6b', 'word_narrowing_sites', n, 5)


def signed(prog, rep, X):
    SH = 'fil_actors_evm_shared'
    def fn(n):
        return prog.fns.get(U + 'U256::' + n)
    def need_app(key, f, k, pats, comm=False, what=''):
        A = apps(prog, f)
        hit = has_app(A, k, pats, comm)
        rep.need('K10', key, hit is not None, '%s; found applications %s' % (what, [(kk, [sorted(x) for x in aa]) for (kk, aa, _c, _g) in A][:10]), X.loc(f))
        return hit
    D = fn('i256_div')
    if D is None:
        rep.ob('K10', 'signed:i256_div', False, 'U256::i256_div not found')
    else:
        hit = need_app('signed:i256_div:operands', D, 'div', [P('P1', no=['P2']), P('P2', no=['P1'])], what='SDIV divides |dividend| by |divisor| in that order')
        if hit:
            X.guard('K6b', 'signed:i256_div:zero-divisor', D, [hit[2].bb], m_pred('is_zero', ['P:2'], False), 'x / 0 = 0: the division is evaluated only for a non-zero divisor')
        need_app('signed:i256_div:dividend-sign', D, 'isneg', [P('P1', no=['P2'])], what='the sign of the dividend is recorded')
        need_app('signed:i256_div:divisor-sign', D, 'isneg', [P('P2', no=['P1'])], what='the sign of the divisor is recorded')
        # the quotient is negated exactly when the signs differ
        negs = [c for (kk, aa, c, g) in apps(prog, D) if kk == 'sneg' and g is D and aa and {'P1', 'P2'} <= aa[0]]
        rep.need('K10', 'signed:i256_div:result-negation-site', len(negs) == 1, 'one negation of the quotient (found %d)' % len(negs), X.loc(D))
        if len(negs) == 1:
            X.guard('K6b', 'signed:i256_div:negate-iff-signs-differ', D, [negs[0].bb], m_rel('eq', ['C:i256_is_negative', 'P:1'], ['C:i256_is_negative', 'P:2'], False),
                    'the quotient is negated only when dividend and divisor signs differ')
    M = fn('i256_mod')
    if M is None:
        rep.ob('K10', 'signed:i256_mod', False, 'U256::i256_mod not found')
    else:
        hit = need_app('signed:i256_mod:operands', M, 'rem', [P('P1', no=['P2']), P('P2', no=['P1'])], what='SMOD reduces |dividend| modulo |divisor| in that order')
        if hit:
            X.guard('K6b', 'signed:i256_mod:zero-divisor', M, [hit[2].bb], m_pred('is_zero', ['P:2'], False), 'x % 0 = 0')
        negs = [c for (kk, aa, c, g) in apps(prog, M) if kk == 'sneg' and g is M and aa and {'P1', 'P2'} <= aa[0]]
        rep.need('K10', 'signed:i256_mod:result-negation-site', len(negs) == 1, 'one negation of the remainder (found %d)' % len(negs), X.loc(M))
        if len(negs) == 1:
            X.guard('K6b', 'signed:i256_mod:sign-of-dividend', M, [negs[0].bb], m_boolatoms(['C:i256_is_negative', 'P:1'], True), 'the remainder takes the sign of the dividend')
            cs = X.find_conds(M, m_boolatoms(['C:i256_is_negative', 'P:1'], True))
            bad = [c for (c, arm) in cs if has_atom(c.A, 'P:2')]
            rep.need('K10', 'signed:i256_mod:sign-not-from-divisor', not bad, 'the sign test of the result must not depend on the divisor', X.loc(M))
    C = fn('i256_cmp')
    if C is None:
        rep.ob('K10', 'signed:i256_cmp', False, 'U256::i256_cmp not found')
    else:
        cmps = [c for c in C.calls if (c.defp or '').endswith('cmp::Ord::cmp')]
        signc = [c for c in cmps if has_atom(prog.slicer.operand(C, c.args[0]), 'C:i256_is_negative')]
        magc = [c for c in cmps if c not in signc]
        ok = len(signc) == 1 and len(magc) == 1
        if ok:
            r0, r1 = roots(prog, C, signc[0].args[0]), roots(prog, C, signc[0].args[1])
            # negative < positive: compare (other is negative) with (self is negative)
            ok = ('P2' in r0 and 'P1' not in r0 and 'P1' in r1 and 'P2' not in r1)
            m0, m1 = roots(prog, C, magc[0].args[0]), roots(prog, C, magc[0].args[1])
            ok = ok and ('P1' in m0 and 'P2' not in m0 and 'P2' in m1 and 'P1' not in m1)
        rep.need('K10', 'signed:i256_cmp:order', ok, 'signed order = (sign(other) cmp sign(self)), then unsigned self cmp other when the signs agree', X.loc(C))
    N = fn('i256_neg')
    if N is not None:
        need_app('signed:i256_neg:complement', N, 'not', [P('P1')], what="two's complement negation: !x + 1")
        A = apps(prog, N)
        rep.need('K10', 'signed:i256_neg:plus-one', any(kk in ('add', 'wadd') and any('K:ONE' in a or 'V1' in a for a in aa) for (kk, aa, _c, _g) in A), "two's complement negation adds one", X.loc(N))
    L = prog.fns.get(U + 'U512::low_u256')
    if L is not None:
        # the low four limbs, in order
        seq = []
        for b in L.blocks:
            for st in b['s']:
                if st[0] == '=' and st[2][0] == 'agg' and (st[2][1].get('k') == 'array'):
                    for o in st[2][2]:
                        seq.append(stack_index(L, o))
        rep.need('K10', 'signed:low_u256:limbs', seq == [0, 1, 2, 3], 'low_u256 keeps limbs 0..3 in order (found %s)' % seq, X.loc(L))


def bin_with(prog, f, op, a_must, b_must):
    """a primitive binary operation `A op B` in f whose left operand has roots a_must and right operand roots b_must"""
    for g in [f] + list(prog.closures_of(f.id)):
        for b in g.blocks:
            for st in b['s']:
                if st[0] == '=' and st[2][0] == 'bin' and norm_op(st[2][1]) == op:
                    if set(a_must) <= roots(prog, g, st[2][2]) and set(b_must) <= roots(prog, g, st[2][3]):
                        return True
    return False


def call_in(prog, f, suffix):
    return [c for g in [f] + list(prog.closures_of(f.id)) for c in g.calls if (c.callee or '').endswith(suffix) or (c.defp or '').endswith(suffix)]


def role(prog, rep, X, key, f, c, idx, must, forbid=(), what=''):
    g = f
    for h in [f] + list(prog.closures_of(f.id)):
        if c in h.calls:
            g = h
    r = roots(prog, g, c.args[idx])
    ok = set(must) <= r and not (set(forbid) & r)
    rep.need('K10', key, ok, '%s: operand must derive from %s%s; derives from %s' % (what, list(must), (' and not from %s' % list(forbid)) if forbid else '', sorted(r)), X.loc(g, c.bb),
             {'rule': 'K10', 'instance': key, 'roots': sorted(r)})


def roles(prog, rep, X, impls):
    def impl(name):
        return prog.fns.get(impls[name][1].callee) if name in impls else None
    GMR = 'instructions::memory::get_memory_region'
    # params of def_stdfun impls: P1 = state, P2 = system, P3.. = stack words (mu_s[0] = P3)
    rows = [
        # (mnemonic, callee suffix, [(arg idx, must, forbid, what)])
        ('MLOAD', GMR, [(1, ['P3'], [], 'offset = mu_s[0]'), (2, ['K:EVM_WORD_SIZE'], ['P3'], 'size = 32')]),
        ('MSTORE', GMR, [(1, ['P3'], ['P4'], 'offset = mu_s[0]'), (2, ['K:EVM_WORD_SIZE'], ['P3', 'P4'], 'size = 32')]),
        ('MSTORE8', GMR, [(1, ['P3'], ['P4'], 'offset = mu_s[0]'), (2, ['V1'], ['P3', 'P4'], 'size = 1')]),
        ('KECCAK256', GMR, [(1, ['P3'], ['P4'], 'offset = mu_s[0]'), (2, ['P4'], ['P3'], 'size = mu_s[1]')]),
        ('SLOAD', 'System::<\'r, RT>::get_storage', [(1, ['P3'], [], 'key = mu_s[0]')]),
        ('SSTORE', 'System::<\'r, RT>::set_storage', [(1, ['P3'], ['P4'], 'key = mu_s[0]'), (2, ['P4'], ['P3'], 'value = mu_s[1]')]),
        ('TLOAD', 'System::<\'r, RT>::get_transient_storage', [(1, ['P3'], [], 'key = mu_s[0]')]),
        ('TSTORE', 'System::<\'r, RT>::set_transient_storage', [(1, ['P3'], ['P4'], 'key = mu_s[0]'), (2, ['P4'], ['P3'], 'value = mu_s[1]')]),
        ('CALLDATACOPY', 'instructions::memory::copy_to_memory', [(1, ['P3'], ['P4', 'P5'], 'destination offset = mu_s[0]'), (2, ['P5'], ['P3', 'P4'], 'size = mu_s[2]'),
                                                                  (3, ['P4'], ['P3', 'P5'], 'source offset = mu_s[1]'), (4, ['F:ExecutionState.input_data'], [], 'source = call data'), (5, ['V1'], [], 'zero fill')]),
        ('CODECOPY', 'instructions::memory::copy_to_memory', [(1, ['P4'], ['P5', 'P6'], 'destination offset = mu_s[0]'), (2, ['P6'], ['P4', 'P5'], 'size = mu_s[2]'),
                                                              (3, ['P5'], ['P4', 'P6'], 'source offset = mu_s[1]'), (4, ['P3'], [], 'source = running code'), (5, ['V1'], [], 'zero fill')]),
        ('RETURNDATACOPY', GMR, [(1, ['P3'], ['P4', 'P5'], 'destination offset = mu_s[0]'), (2, ['P5'], ['P3', 'P4'], 'size = mu_s[2]')]),
        ('MCOPY', 'instructions::memory::copy_within_memory', [(1, ['P3'], ['P4', 'P5'], 'destination = mu_s[0]'), (2, ['P4'], ['P3', 'P5'], 'source = mu_s[1]'), (3, ['P5'], ['P3', 'P4'], 'size = mu_s[2]')]),
        # def_exit impls: P1 state, P2 system, P3 pc, P4.. stack words
        ('RETURN', 'instructions::control::exit', [(2, ['P4'], ['P5'], 'offset = mu_s[0]'), (3, ['P5'], ['P4'], 'size = mu_s[1]'), (4, ['E:Outcome::Return'], ['E:Outcome::Revert'], 'outcome = return')]),
        ('REVERT', 'instructions::control::exit', [(2, ['P4'], ['P5'], 'offset = mu_s[0]'), (3, ['P5'], ['P4'], 'size = mu_s[1]'), (4, ['E:Outcome::Revert'], ['E:Outcome::Return'], 'outcome = revert')]),
    ]
    n = 0
    for (name, suffix, specs) in rows:
        f = impl(name)
        if f is None:
            rep.ob('K10', 'role:%s' % name, False, 'no implementation bound to %s' % name)
            continue
        cs = call_in(prog, f, suffix)
        if len(cs) != 1:
            rep.ob('K10', 'role:%s:site' % name, False, '%s must reach `%s` exactly once directly (found %d)' % (name, suffix, len(cs)), X.loc(f))
            continue
        for (idx, must, forbid, what) in specs:
            role(prog, rep, X, 'role:%s:%s' % (name, what.split(' =')[0].replace(' ', '-')), f, cs[0], idx, must, forbid, '%s %s' % (name, what))
            n += 1
    rep.count('role_rows', n)
    # shared helpers
    EX = prog.fns.get(INS + 'control::exit')
    if EX is not None:
        cs = call_in(prog, EX, GMR)
        if len(cs) == 1:
            role(prog, rep, X, 'role:exit:offset', EX, cs[0], 1, ['P3'], ['P4'], 'exit offset')
            role(prog, rep, X, 'role:exit:size', EX, cs[0], 2, ['P4'], ['P3'], 'exit size')
        else:
            rep.ob('K10', 'role:exit:site', False, 'exit must take its return data from one memory region', X.loc(EX))
    CW = prog.fns.get(INS + 'memory::copy_within_memory')
    if CW is not None:
        cs = call_in(prog, CW, GMR)
        srcs = [c for c in cs if 'P3' in roots(prog, CW, c.args[1]) and 'P2' not in roots(prog, CW, c.args[1])]
        dsts = [c for c in cs if 'P2' in roots(prog, CW, c.args[1]) and 'P3' not in roots(prog, CW, c.args[1])]
        rep.need('K10', 'role:mcopy:regions', len(cs) == 2 and len(srcs) == 1 and len(dsts) == 1 and all('P4' in roots(prog, CW, c.args[2]) for c in cs),
                 'MCOPY expands memory for (source, size) and (destination, size)', X.loc(CW))
        cw = call_in(prog, CW, '::copy_within')
        if len(cw) == 1 and srcs and dsts:
            # the source range derives from the region computed for the source index and the destination offset from the
            # region computed for the destination index (call identity, not just the helper's name)
            s1 = {c for c in source_calls(prog, CW, cw[0].args[1]) if c in cs}
            s2 = {c for c in source_calls(prog, CW, cw[0].args[2]) if c in cs}
            rep.need('K10', 'role:mcopy:direction', s1 == set(srcs) and s2 == set(dsts),
                     'copy_within(range of the source region, offset of the destination region); the range comes from the region call(s) at %s, the offset from %s' % (
                         sorted(c.line for c in s1), sorted(c.line for c in s2)), X.loc(CW, cw[0].bb))
        else:
            rep.ob('K10', 'role:mcopy:direction', False, 'MCOPY must copy with one overlapping-safe copy_within', X.loc(CW))
    # endianness and widths
    for (name, suffix, what) in (('MLOAD', 'from_big_endian', 'MLOAD reads a big-endian word'), ('MSTORE', 'write_as_big_endian', 'MSTORE writes a big-endian word'),
                                 ('KECCAK256', 'from_big_endian', 'the digest is read big-endian'), ('CALLDATALOAD', 'from_big_endian', 'CALLDATALOAD reads a big-endian word')):
        f = impl(name)
        if f is None:
            continue
        rep.need('K10', 'role:%s:endianness' % name, len(call_in(prog, f, suffix)) >= 1 and not call_in(prog, f, 'little_endian'), what, X.loc(f))
    f = impl('MSTORE')
    if f is not None:
        cs = call_in(prog, f, 'write_as_big_endian')
        if cs:
            r = roots(prog, f, cs[0].args[0])
            rep.need('K10', 'role:MSTORE:value', 'P4' in r and 'P3' not in r, 'the stored word is mu_s[1]', X.loc(f, cs[0].bb))
    f = impl('MSTORE8')
    if f is not None:
        A = apps(prog, f)
        ok = any(kk in ('low32', 'low64', 'byte') and aa and 'P4' in aa[0] and 'P3' not in aa[0] for (kk, aa, _c, _g) in A)
        rep.need('K10', 'role:MSTORE8:low-byte', ok, 'MSTORE8 stores the low byte of mu_s[1] (truncation of its low limb)', X.loc(f))
    f = impl('KECCAK256')
    if f is not None:
        cs = call_in(prog, f, 'Primitives::hash_64')
        ok = len(cs) == 1 and 'E:SupportedHashes::Keccak256' in roots(prog, f, cs[0].args[1])
        rep.need('K10', 'role:KECCAK256:hash', ok, 'the hash function is Keccak-256', X.loc(f))
    f = impl('RETURNDATACOPY')
    if f is not None:
        cps = call_in(prog, f, '::copy_from_slice')
        rets = f.ret_blocks()
        # (the separate `start > len` test is implied by the end test: start <= end; only the end test is required)
        X.guard('K6b', 'role:RETURNDATACOPY:end-in-bounds', f, rets, m_rel('gt', ['P:4', 'P:5'], ['F:ExecutionState.return_data'], False), 'source end beyond the return data => failure (EIP-211)')
    f = impl('CALLDATALOAD')
    if f is not None:
        ok = any(has_atom(prog.slicer.operand(g, c.args[0]) | prog.slicer.operand(g, c.args[1]), 'K:EVM_WORD_SIZE') for g in [f] + list(prog.closures_of(f.id)) for c in g.calls
                 if (c.callee or '').endswith('cmp::min') or (c.defp or '').endswith('Ord::min'))
        rep.need('K10', 'role:CALLDATALOAD:window', ok, 'reads min(start + 32, len) bytes, zero padded', X.loc(f))
    f = impl('JUMPI')
    if f is not None:
        cs = call_in(prog, f, 'Bytecode::valid_jump_destination')
        if cs:
            role(prog, rep, X, 'role:JUMPI:destination', f, cs[0], 1, ['P3'], ['P4'], 'JUMPI destination = mu_s[0]')
            X.guard('K6b', 'role:JUMPI:condition', f, [cs[0].bb], m_pred('is_zero', ['P:4'], False), 'the jump is taken iff mu_s[1] != 0')
    f = impl('JUMP')
    if f is not None:
        cs = call_in(prog, f, 'Bytecode::valid_jump_destination')
        if cs:
            role(prog, rep, X, 'role:JUMP:destination', f, cs[0], 1, ['P3'], [], 'JUMP destination = mu_s[0]')
