"""C10 - verified claims back quality-adjusted power and obey their terms."""
import re
from core import *
from rules import *
import sends as sendsmod

LEVEL = 'other'
LEVEL_TEXT = ('Narrow structural clauses over MIR: the verified space credited to a sector is taken only from the registry\'s ClaimAllocations reply (never '
              'from the miner\'s own piece declarations); the claim request names the sector and its expiry; on extension every declared claim must belong '
              'to this provider and sector, maintained claims bound the new expiration by term_start + term_max, the declared space must equal the '
              'sector\'s verified space, and dropping claims is confined to the end-of-life window; in the registry a claim\'s term_max is only ever '
              'rewritten behind a comparison that forbids a decrease, and claims / allocations are removed only for ids that the expiry test selected '
              '(or, for allocations, that were just claimed). Cross-actor equality of the two ledgers over histories is not decided.')
TECHNIQUE = 'value-provenance slices (reply fields to state fields), guard dominance / per-iteration filters over rustc MIR, single-caller sets'
MI = 'fil_actor_miner'
VR = 'fil_actor_verifreg'


def is_mm(c, name):
    cal = c.callee or ''
    return 'mapmap::MapMap' in cal and cal.endswith('::' + name)


def run(prog, rep, tier, cfg):
    X = Ctx(prog, rep)
    rep.explanation = LEVEL_TEXT
    rep.not_decided = 'equality of miner verified weights with registry claim sizes across histories; weight arithmetic'
    # ---- verified space only from the registry reply
    for fn_ in ('activate_sectors_pieces', 'activate_sectors_deals'):
        F = X.fn(fn_, MI)
        sites = []
        for g in prog.family(F):
            sites += [(g, bb, a) for (bb, a) in X.agg_field_atoms(g, 'DataActivationOutput', 'verified_space', narrow=False)]
        rep.need('K10', '%s:verified-space-site' % fn_, len(sites) == 1, 'one DataActivationOutput construction expected, found %d' % len(sites), X.loc(F))
        for (g, bb, a) in sites:
            okv = has_atom(a, 'F:SectorClaimSummary.claimed_space') and not has_atom(a, 'F:PieceActivationManifest.size') and not has_atom(a, 'F:ActivatedDeal.size')
            rep.need('K10', '%s:verified-space-from-registry' % fn_, okv, 'verified_space must be the registry\'s claimed_space (and not derived from declared piece / deal sizes); derives from %s' % sendsmod.pretty(a), X.loc(g, bb))
        bc = [c for g in prog.family(F) for c in g.calls if callee_is('batch_claim_allocations')(c)]
        rep.need('K5', '%s:claims-through-registry' % fn_, len(bc) == 1 and result_fate(bc[0].fn, bc[0]) == 'try', 'one batch_claim_allocations(..)? expected', X.loc(F))
        for g in prog.family(F):
            for (bb, a) in X.agg_field_atoms(g, 'SectorAllocationClaims', 'expiry', narrow=False):
                rep.need('K10', '%s:claim-expiry' % fn_, has_atom(a, 'F:SectorPiecesActivationInput.sector_expiry') or has_atom(a, 'F:DealsActivationInput.sector_expiry'), 'the claim names the sector expiry', X.loc(g, bb))
            for (bb, a) in X.agg_field_atoms(g, 'SectorAllocationClaims', 'sector', narrow=False):
                rep.need('K10', '%s:claim-sector' % fn_, has_atom(a, 'F:SectorPiecesActivationInput.sector_number') or has_atom(a, 'F:DealsActivationInput.sector_number'), 'the claim names the sector number', X.loc(g, bb))
    BC = X.fn('batch_claim_allocations', MI)
    ss = [c for c in BC.calls if sendsmod.is_send(c)]
    rep.need('K5', 'batch_claim:send', len(ss) == 1 and result_fate(BC, ss[0]) == 'try', 'one ClaimAllocations send, propagated', X.loc(BC))
    sendsmod.exit_code_rule(X, rep, [sendsmod.SendSite(prog, c) for c in ss], {})
    for c in ss:
        X.arg_has('K10', 'batch_claim:to-registry', c, 1, ['K:VERIFIED_REGISTRY_ACTOR_ADDR'], 'sent to the verified registry')
        X.arg_has('K10', 'batch_claim:method', c, 2, ['K:CLAIM_ALLOCATIONS_METHOD'], 'ClaimAllocations')
        X.arg_has('K10', 'batch_claim:params', c, 3, ['P:2', 'P:3'], 'with the requested claims and mode', narrow=False)
    # the short-circuit (no send) yields zero claimed space
    zs = X.agg_field_atoms(BC, 'SectorClaimSummary', 'claimed_space', narrow=False)
    rep.need('K10', 'batch_claim:short-circuit-zero', len(zs) == 1 and has_atom(zs[0][1], 'C:zero') and not has_atom(zs[0][1], 'P:2'), 'without claims the claimed space is zero', X.loc(BC))
    # ---- extension declarations
    VE = X.fn('validate_extension_declarations', MI)
    rets = VE.ret_blocks()
    ins = [c.bb for c in VE.calls if (c.callee or '').endswith('::or_insert') or (c.callee or '').endswith('Entry::<\'a, K, V, A>::or_insert')]
    rep.floor('K6b', 'extension_space_record_sites', len(ins), 1)
    X.iter_guard('K6b', 'extend:claim-of-this-provider', VE, ins, m_rel('ne', ['F:Claim.provider'], ['C:MessageInfo::receiver'], False), 'claim.provider != this miner => Err')
    X.iter_guard('K6b', 'extend:claim-of-this-sector', VE, ins, m_rel('ne', ['F:Claim.sector'], ['F:SectorClaim.sector_number'], False), 'claim.sector != declared sector => Err')
    X.iter_guard('K6b', 'extend:maintained-within-term', VE, ins, m_rel('gt', ['F:ExpirationExtension2.new_expiration'], ['F:Claim.term_start', 'F:Claim.term_max', 'OP:Add'], False, pure=True),
                 'new_expiration > term_start + term_max => Err (for maintained claims)', assume=[m_rel('lt', [], ['C:len', 'F:SectorClaim.maintain_claims'], False)])
    # the declared space is a sum over the *listed* claim ids, so the ids must be pairwise distinct: a repeated id would stand in
    # for another claim of the same size that is never fetched and whose maximum term is never checked
    DIST = m_any(m_boolatoms(['C:::insert', 'F:SectorClaim.maintain_claims', 'F:SectorClaim.drop_claims'], True),
                 m_boolatoms(['C:::contains', 'F:SectorClaim.maintain_claims', 'F:SectorClaim.drop_claims'], False),
                 m_rel('ne', ['C:::len', 'F:SectorClaim.maintain_claims', 'F:SectorClaim.drop_claims'], ['C:::len'], False),
                 m_rel('eq', ['C:::len', 'F:SectorClaim.maintain_claims', 'F:SectorClaim.drop_claims'], ['C:::len'], True))
    X.iter_guard('K6b', 'extend:claim-ids-distinct', VE, ins, DIST, 'a claim id declared twice for a sector => Err (before its size is added to the declared space)')
    # the claim table built here is keyed by sector for the whole message, while each declaration's claims are compared with that
    # declaration's own new expiration: so a sector must not be named by two declarations (or the table must be per declaration)
    EI = X.fn('Actor::extend_sector_expiration_inner', MI)
    once = False
    for g in [VE] + list(prog.family(EI)):
        for c in conds(g, prog.slicer):
            A = c.A | (getattr(c, 'B', set()) or set())
            pn = str(getattr(c, 'pred', '') or '')
            if c.kind in ('pred', 'rel') and (pn.endswith(('BitField::contains_any', 'BitField::contains_all', '::insert', 'BitField::get', '::contains')) or has_atom(A, 'C:BitField::contains_any') or has_atom(A, 'C:::insert') or has_atom(A, 'C:BitField::get')) \
                    and (has_atom(A, 'F:ValidatedExpirationExtension.sectors') or has_atom(A, 'F:ExpirationExtension2.sectors') and has_atom(A, 'F:SectorClaim.sector_number')):
                # the test rejects: one of its arms reaches no success return
                if any(not g.ok_returns_from([tb]) for tb in c.arms.values()):
                    once = True
    keyed = any(has_atom(prog.slicer.operand(VE, c.args[1]), 'F:ExpirationExtension2.new_expiration') or has_atom(prog.slicer.operand(VE, c.args[1]), 'C:Enumerate')
                for c in VE.calls if (c.callee or '').endswith('::entry') and len(c.args) > 1)
    rep.need('K6b', 'extend:sector-in-one-declaration', once or keyed,
             'a sector named by two declarations of one message must be rejected (or the claim table keyed per declaration): the claims are compared with the first declaration\'s expiration only', X.loc(EI))
    for c in VE.calls:
        if callee_is('get_claims')(c):
            rep.need('K8', 'extend:claims-fetched', result_fate(VE, c) == 'try', 'registry lookup failure aborts', c.where)
            X.arg_has('K10', 'extend:claims-fetched-for-declared-ids', c, 1, ['F:SectorClaim.maintain_claims', 'F:SectorClaim.drop_claims'], 'both maintained and dropped claims are looked up', narrow=False)
    GC = X.fn('get_claims', MI)
    X.value_from('K10', 'get_claims:own-provider', GC, X.agg_field_atoms(GC, 'GetClaimsParams', 'provider', narrow=False), ['C:MessageInfo::receiver'], 'claims are looked up under this miner')
    ES = X.fn('extend_simple_qap_sector', MI)
    wv = X.write_blocks(ES, 'SectorOnChainInfo', 'verified_deal_weight', kinds=('assign', 'calldst'))
    rep.floor('K6b', 'verified_weight_write_sites', len(wv), 1)
    X.guard('K6b', 'extend:declared-space-complete', ES, wv, m_rel('ne', ['C:BTreeMap::<K, V, A>::get'], ['F:SectorOnChainInfo.verified_deal_weight'], False), 'declared claim space != sector verified space => Err')
    X.guard('K6b', 'extend:claims-declared', ES, wv, m_variant(['C:BTreeMap::<K, V, A>::get'], 1), 'no declaration for a sector with verified weight => Err')
    drop = X.find_conds(ES, m_rel('gt', ['F:SectorOnChainInfo.expiration', 'P:3', 'OP:Sub'], ['F:Policy.end_of_life_claim_drop_period'], False, pure=True))
    rep.need('K6b', 'extend:drop-only-at-end-of-life', len(drop) == 1, 'dropping claims is allowed only when expiration - now <= end_of_life_claim_drop_period (found %d tests)' % len(drop), X.loc(ES))
    if len(drop) == 1:
        # the period test is reached exactly when claims are dropped: it must be guarded by `expected != new` being true
        c, arm = drop[0]
        dc = X.find_conds(ES, m_boolatoms(['C:BTreeMap::<K, V, A>::get'], True))
        okd = False
        for (cc, a2) in dc:
            if cc.kind in ('rel', 'pred') and cc.bb != c.bb and ES.dominates(cc.bb, c.bb):
                okd = True
        rep.need('K6b', 'extend:drop-test-applies-when-dropping', okd, 'the end-of-life test is applied on the path where declared and maintained space differ', X.loc(ES, c.bb))
    X.value_from('K10', 'extend:new-weight-from-maintained-space', ES, X.stmt_rvalue_atoms(ES, 'SectorOnChainInfo', 'verified_deal_weight', narrow=False) or
                 [(bb, prog.slicer.call(ES, ES.call_at(bb))) for bb in wv if ES.call_at(bb)], ['C:BTreeMap::<K, V, A>::get', 'P:2'], 'new verified weight = maintained space x new duration')
    # ---- every sector info that is given a (new) verified weight is marked SIMPLE_QA_POWER: that flag is what routes a later
    # extension through the claim check (`extend_simple_qap_sector`); an unmarked sector keeps or loses verified weight unchecked
    n_flag = 0
    for f in prog.bodies():
        if f.crate != MI or f.kind in ('promoted', 'const') or NEUTRAL.search(f.id):
            continue
        for (bb, a) in X.agg_field_atoms(f, 'SectorOnChainInfo', 'flags', narrow=False):
            n_flag += 1
            rep.need('K10', 'simple-qap-flag:new-sector:%s' % f.id.split('::')[-1].strip('{}'), has_atom(a, 'K:SIMPLE_QA_POWER'), 'a new sector is marked SIMPLE_QA_POWER', X.loc(f, bb))
    UE = X.fn('update_existing_sector_info', MI)
    wv2 = X.write_blocks(UE, 'SectorOnChainInfo', 'verified_deal_weight', kinds=('assign', 'calldst'))
    sets = [c for c in UE.calls if re.search(r'SectorOnChainInfoFlags>?::(set|insert)$', c.callee or '') and has_atom(prog.slicer.operand(UE, c.args[1]), 'K:SIMPLE_QA_POWER')
            and X.updates_field(c, 'SectorOnChainInfo', 'flags') and (len(c.args) < 3 or has_atom(prog.slicer.operand(UE, c.args[2]), 'V:1'))]
    ors = [bb for (bb, a) in X.stmt_rvalue_atoms(UE, 'SectorOnChainInfo', 'flags', narrow=False) if has_atom(a, 'K:SIMPLE_QA_POWER')]
    rep.need('K10', 'simple-qap-flag:replica-update', bool(wv2) and (bool(sets) or bool(ors)), 'a sector whose data (and verified weight) is replaced is marked SIMPLE_QA_POWER', X.loc(UE))
    rep.floor('K10', 'sector_info_flag_sites', n_flag, 2)
    EC = X.fn('extend_sector_committment', MI)
    X.guard('K6b', 'extend:simple-qap-sectors-check-claims', EC, [c.bb for c in EC.calls if callee_is('extend_non_simple_qap_sector')(c)],
            m_boolatoms(['K:SIMPLE_QA_POWER', 'F:SectorOnChainInfo.flags'], False), 'only sectors without SIMPLE_QA_POWER take the legacy extension path')
    # ---- registry: term_max never decreases
    EX = X.fn('Actor::extend_claim_terms', VR)
    for g in prog.closures_of(EX.id, recursive=False):
        cs = X.agg_field_atoms(g, 'Claim', 'term_max', narrow=False)
        if not cs:
            continue
        tg = [bb for (bb, _a) in cs]
        X.iter_guard('K6b', 'registry:extend-terms:no-decrease', g, tg, m_rel('lt', ['F:ClaimTerm.term_max'], ['F:Claim.term_max'], False, pure=True), 'term_max < claim.term_max => fail')
        X.iter_guard('K6b', 'registry:extend-terms:by-client', g, tg, m_rel('ne', ['F:Claim.client'], ['C:MessageInfo::caller'], False), 'caller is not the claim\'s client => fail')
        X.iter_guard('K6b', 'registry:extend-terms:within-policy', g, tg, m_rel('gt', ['F:ClaimTerm.term_max'], ['F:Policy.maximum_verified_allocation_term'], False, pure=True), 'term_max > policy limit => fail')
        for (bb, a) in cs:
            rep.need('K10', 'registry:extend-terms:value', has_atom(a, 'F:ClaimTerm.term_max'), 'new term_max is the requested one', X.loc(g, bb))
    VC = X.fn('validate_claim_extension', VR)
    X.guard('K6b', 'registry:extension:strictly-larger', VC, VC.ret_blocks(), m_rel('le', ['F:ClaimExtensionRequest.term_max'], ['F:Claim.term_max'], False, pure=True), 'term_max <= claim.term_max => Err')
    X.guard('K6b', 'registry:extension:not-expired', VC, VC.ret_blocks(), m_rel('gt', ['P:4'], ['F:Claim.term_start', 'F:Claim.term_max', 'OP:Add'], False, pure=True), 'claim already expired => Err')
    X.guard('K6b', 'registry:extension:within-policy', VC, VC.ret_blocks(), m_rel('gt', ['F:ClaimExtensionRequest.term_max'], ['F:Policy.maximum_verified_allocation_term', 'P:4', 'F:Claim.term_start'], False), 'beyond policy limit => Err')
    UH = X.fn('Actor::universal_receiver_hook', VR)
    ce = X.agg_field_atoms(UH, 'Claim', 'term_max', narrow=False)
    rep.need('K5', 'registry:extension:site', len(ce) == 1, 'one Claim { term_max: .., ..*claim } in the receiver hook', X.loc(UH))
    for (bb, a) in ce:
        rep.need('K10', 'registry:extension:value', has_atom(a, 'F:ClaimExtensionRequest.term_max'), 'new term_max is the requested one', X.loc(UH, bb))
        vcall = [c for c in UH.calls if callee_is('validate_claim_extension')(c)]
        rep.need('K6a', 'registry:extension:validated', len(vcall) == 1 and result_fate(UH, vcall[0]) == 'try' and UH.dominates(vcall[0].bb, bb), 'validate_claim_extension(..)? dominates the rewrite', X.loc(UH, bb))
    # every construction of a Claim with a term_max is one of the known sites
    X.writers('K4', 'Claim', 'term_max', [], crate=VR, constructors=['Actor::claim_allocations', 'Actor::extend_claim_terms', 'Actor::universal_receiver_hook'])
    # ---- removal only after expiry
    rem_claims = []
    rem_allocs = []
    for f in prog.bodies():
        if f.crate != VR or f.kind in ('promoted', 'const') or NEUTRAL.search(f.id):
            continue
        for c in f.calls:
            if is_mm(c, 'remove'):
                t = ' '.join(g.get('t', '') for g in c.ga)
                (rem_claims if 'Claim' in t and 'Allocation' not in t else rem_allocs).append(c)
    from rules import _match_fn
    rep.need('K5', 'registry:claim-removal-sites', [c.fn.id for c in rem_claims] and all(_match_fn(c.fn.id, 'Actor::remove_expired_claims') for c in rem_claims), 'claims are removed only by RemoveExpiredClaims: %s' % [c.fn.id for c in rem_claims])
    rep.need('K5', 'registry:allocation-removal-sites', rem_allocs and all(_match_fn(c.fn.id, 'Actor::remove_expired_allocations') or _match_fn(c.fn.id, 'Actor::claim_allocations') for c in rem_allocs),
             'allocations are removed only by RemoveExpiredAllocations or ClaimAllocations: %s' % [c.fn.id for c in rem_allocs])
    for c in rem_claims:
        X.arg_has('K10', 'registry:claims-removed-only-if-expired', c, 2, ['C:expiration::find_expired', 'C:BatchReturn::successes'], 'removed ids come from the expiry test', narrow=False)
        X.arg_has('K10', 'registry:claims-removed-for-named-provider', c, 1, ['F:RemoveExpiredClaimsParams.provider'], 'under the named provider', narrow=False)
    RC = X.fn('Actor::remove_expired_claims', VR)
    for g in prog.closures_of(RC.id, recursive=False):
        for c in g.calls:
            if callee_is('expiration::check_expired')(c):
                X.arg_has('K10', 'registry:claims-expiry-epoch', c, 3, ['C:Runtime::curr_epoch'], 'expiry judged at the current epoch', narrow=False)
                X.arg_has('K10', 'registry:claims-expiry-candidates', c, 1, ['F:RemoveExpiredClaimsParams.claim_ids'], 'for the requested ids', narrow=False)
    # ---- running totals (amounts, power, datacap) accumulated in loops keep their earlier contributions
    X.accumulator_integrity('K12', 'running-totals', ['fil_actor_miner', 'fil_actor_verifreg'], 'running totals of amounts')
    X.no_dropped_results('K14', 'results-not-discarded', ['fil_actor_miner', 'fil_actor_verifreg'], 'no Result of a call is discarded')
    X.tolerated_failures('K15', 'tolerated-failures', ['fil_actor_miner', 'fil_actor_verifreg'], 'tolerated failures are the reviewed ones')
    X.write_sites_preserved('K16', 'updates-present', 'fil_actor_miner', ['SectorOnChainInfo.verified_deal_weight', 'SectorOnChainInfo.flags', 'SectorOnChainInfo.expiration', 'SectorOnChainInfo.power_base_epoch'], 'state updates do not disappear')

