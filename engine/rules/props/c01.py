"""C01 - no FIL is created, lost or stranded: conservation and solvency."""
import json, os
from core import *
from rules import *
import sends as sendsmod

LEVEL = 'other'
LEVEL_TEXT = ('Structural necessary conditions over the whole workspace\'s MIR: the inventory of value-carrying sends (recipient and value provenance of every '
              'send whose value is not the zero constant) equals a frozen table, so a new or redirected FIL outflow is reported; after the last ledger '
              'mutation or payout of every miner method, every success path passes State::check_balance_invariants (whose body is the miner solvency '
              'inequality plus four sign checks) with the current balance - which proves the miner inequality after every successful miner message '
              'independent of arithmetic; market slashes are burnt and withdrawals are floored by the locked balance; the payment channel bounds the '
              'amount owed by its balance; the reward actor caps the payout at its balance; tolerated value sends have their fallback. The global sum '
              'over all actors (FVM transfer semantics) and amounts are not decided.')
TECHNIQUE = 'whole-program send inventory with value/recipient provenance slices, followed-by (post-domination) of the solvency check, guard dominance over rustc MIR'
MI = 'fil_actor_miner'
TABLE = os.path.join(os.path.dirname(os.path.dirname(os.path.dirname(os.path.dirname(os.path.abspath(__file__))))), 'tables', 'c01_value_sends.json')
TX = RUNTIME + 'transaction'

LEDGER_MUTATORS = ['state::State::add_pre_commit_deposit', 'state::State::add_initial_pledge', 'state::State::add_locked_funds', 'state::State::unlock_vested_funds',
                   'state::State::unlock_vested_and_unvested_funds', 'state::State::apply_penalty', 'state::State::repay_partial_debt_in_priority_order', 'state::State::repay_debts',
                   'state::State::cleanup_expired_pre_commits']


def principal(atoms):
    out = []
    for x in sendsmod.pretty(atoms):
        if x.startswith('P:') or x.startswith('V:') or x.startswith('C:Deref') or x.startswith('C:Clone') or x.startswith('C:TokenAmount>::from') or x.startswith('C:Zero::zero'):
            continue
        if x.startswith('F:closure') or x.startswith('C:Runtime::transaction') or x.startswith('C:Runtime::state') or x.startswith('C:Runtime::message'):
            continue
        out.append(x)
    return sorted(set(out))


def inventory(prog):
    rows = {}
    for s in sendsmod.all_sends(prog):
        if s.zero_value():
            continue
        f = s.c.fn
        meth = [x for x in sendsmod.pretty(s.method) if x.startswith('K:')]
        key = '%s|%s' % (f.id, ','.join(meth) or 'dynamic')
        rows.setdefault(key, []).append({'to': principal(s.to), 'value': principal(s.value), 'fate': s.fate, 'where': s.c.where})
    return rows


def run(prog, rep, tier, cfg):
    X = Ctx(prog, rep)
    rep.explanation = LEVEL_TEXT
    rep.not_decided = 'the sum over all actors along histories (FVM transfer semantics are trusted); the arithmetic of amounts'
    # ---- 1. inventory of value-carrying sends
    inv = inventory(prog)
    from props import c05 as _c05
    nx = sendsmod.exit_code_rule(X, rep, [s for s in sendsmod.all_sends(prog) if not s.zero_value()], _c05.RAW_RESPONSE)
    rep.floor('K8', 'value_send_sites_exit_code', nx, json.load(open(TABLE))['floor'])
    table = json.load(open(TABLE))['sends']
    rep.floor('K5', 'value_carrying_send_sites', sum(len(v) for v in inv.values()), json.load(open(TABLE))['floor'])
    for key, rows in sorted(inv.items()):
        exp = table.get(key)
        if exp is None:
            rep.ob('K5', 'value-send:%s' % key, False, 'a value-carrying send that is not in the frozen inventory: to=%s value=%s' % (rows[0]['to'], rows[0]['value']), rows[0]['where'],
                   {'rule': 'K5', 'send': key, 'found': rows})
            continue
        got = sorted((tuple(r['to']), tuple(r['value'])) for r in rows)
        want = sorted((tuple(r['to']), tuple(r['value'])) for r in exp)
        rep.need('K10', 'value-send:%s' % key, got == want, 'recipient / value provenance changed: code has %s, inventory has %s' % (got, want), rows[0]['where'],
                 {'rule': 'K10', 'send': key, 'recipient_atoms': rows[0]['to'], 'value_atoms': rows[0]['value']})
    for key in sorted(table):
        rep.need('K5', 'value-send-present:%s' % key, key in inv, 'an inventoried value-carrying send disappeared (fail closed)')
    # ---- 2. miner solvency: check_balance_invariants after the last effect of every handler
    from props import c11
    entries = [e for e in c11.dispatch.extract(prog)[0] if e.crate == MI]
    handlers = {}
    for e in entries:
        handlers.setdefault(e.handler, e.variant)
    is_mut = lambda c: any(callee_is(m)(c) for m in LEDGER_MUTATORS) and c.fn.crate == MI
    is_pay = lambda c: sendsmod.is_send(c) and c.fn.crate == MI and not sendsmod.SendSite(prog, c).zero_value()
    is_eff = lambda c: is_mut(c) or is_pay(c)
    is_chk = lambda c: callee_is('state::State::check_balance_invariants')(c)
    n = 0
    for hid, variant in sorted(handlers.items()):
        H = prog.fns.get(hid)
        if H is None or not prog.reaches(hid, pred_call=is_eff):
            continue
        n += 1
        if variant == 'Constructor':
            dep = [c.bb for c in H.calls if callee_is('state::State::add_locked_funds')(c)]
            X.guard('K6b', 'solvency:Constructor', H, dep, m_rel('lt', ['C:Runtime::current_balance'], ['C:calculate_create_miner_deposit'], False), 'balance < deposit => Err (frozen exception to the invariant check)')
            continue
        # the handler may delegate to an inner function (e.g. extend_sector_expiration2 -> _inner)
        ok, detail = post_dominated(prog, X, H, is_eff, is_chk)
        rep.need('K7', 'solvency:%s' % variant, ok, detail, X.loc(H), {'rule': 'K7', 'method': variant, 'handler': hid})
    rep.floor('K7', 'miner_methods_with_money_effects', n, 14)
    CB = X.fn('state::State::check_balance_invariants', MI)
    rb = CB.ret_blocks()
    for fld in ('pre_commit_deposits', 'locked_funds', 'initial_pledge', 'fee_debt'):
        X.guard('K6b', 'invariant:%s-non-negative' % fld, CB, rb, m_pred('is_negative', [], False, direct='State.' + fld), '%s negative => Err' % fld)
    X.guard('K6b', 'invariant:balance-covers-collateral', CB, rb, m_rel('lt', ['P:2'], ['F:State.pre_commit_deposits', 'F:State.locked_funds', 'F:State.initial_pledge', 'C:::add'], False),
            'balance < pre_commit_deposits + locked_funds + initial_pledge => Err')
    for f in prog.bodies():
        if f.crate != MI or f.kind in ('promoted', 'const'):
            continue
        for c in f.calls:
            if is_chk(c):
                at = prog.narrow.operand(f, c.args[1])
                rep.need('K10', 'invariant-arg:%s' % f.id.split('::')[-1], has_atom(at, 'C:Runtime::current_balance'), 'the invariant is checked against the current balance', c.where)
                rep.need('K8', 'invariant-propagated:%s' % f.id.split('::')[-1], result_fate(f, c) == 'try', 'a broken invariant aborts the message', c.where)
    # ---- 3. market: slash => burn ; withdraw floor (C06 owns the details)
    import props.c08 as c08
    c08.slash_burnt(prog, rep, X, prefix='market:')
    MK = 'fil_actor_market'
    for hn in ('Actor::on_miner_sectors_terminate', 'Actor::cron_tick', 'Actor::settle_deal_payments'):
        H = X.fn(hn, MK)
        X.must_reach('K3', 'market-slash-burnt:%s' % hn.split('::')[-1], H, lambda c: sendsmod.is_send(c) and has_atom(prog.narrow.operand(c.fn, c.args[1]), 'K:BURNT_FUNDS_ACTOR_ADDR'), 'a send to the burnt-funds actor')
    WE = X.fn('state::State::withdraw_balance_from_escrow_table', MK)
    for c in WE.calls:
        if callee_is('balance_table::BalanceTable::<BS>::subtract_with_minimum')(c):
            X.arg_has('K10', 'market-withdraw-floor', c, 3, ['F:State.locked_table'], 'a withdrawal never digs into the locked balance', narrow=False)
    # ---- 4. payment channel: amount owed bounded by the balance
    U = X.fn('Actor::update_channel_state', 'fil_actor_paych')
    for C in prog.closures_of(U.id, recursive=False):
        W = X.write_blocks(C, 'State', 'to_send')
        if W:
            X.guard('K6b', 'paych:owed<=balance', C, W, m_rel('gt', ['F:State.to_send'], ['C:Runtime::current_balance'], False), 'new_send_balance > current_balance => Err')
            X.guard('K6b', 'paych:owed>=0', C, W, m_rel('lt', ['F:State.to_send'], ['C:zero'], False), 'new_send_balance < 0 => Err')
    # ---- 5. reward actor pays at most what it holds
    AW = X.fn('Actor::award_block_reward', 'fil_actor_reward')
    pay = [c for c in AW.calls if sendsmod.is_send(c) and has_atom(prog.narrow.operand(AW, c.args[2]), 'K:APPLY_REWARDS_METHOD')]
    rep.need('K5', 'reward:payout-site', len(pay) == 1, 'one ApplyRewards payout', X.loc(AW))
    X.guard('K6b', 'reward:payout<=prior-balance', AW, [c.bb for c in pay], m_rel('gt', ['C:Runtime::transaction'], ['C:Runtime::current_balance'], False), 'total_reward > prior_balance => Err')
    X.guard('K6b', 'reward:gas-reward-covered', AW, [c.bb for c in pay], m_rel('lt', ['C:Runtime::current_balance'], ['F:AwardBlockRewardParams.gas_reward'], False), 'balance < gas_reward => Err')
    for g in prog.closures_of(AW.id, recursive=False):
        if not X.write_blocks(g, 'State', 'total_storage_power_reward'):
            continue
        cap = X.find_conds(g, m_rel('gt', ['F:State.this_epoch_reward', 'F:AwardBlockRewardParams.gas_reward'], ['C:Runtime::current_balance'], True))
        okc = False
        if len(cap) == 1:
            c, arm = cap[0]
            r = g.reach([c.arms[arm]])
            # on the over-balance arm total_reward is overwritten by the balance
            for b in r:
                for st in g.blocks[b]['s']:
                    if st[0] == '=' and has_atom(prog.narrow.rvalue(g, st[2]), 'C:Runtime::current_balance') and not st[1][1]:
                        okc = True
        rep.need('K6b', 'reward:capped-at-balance', okc, 'when the computed reward exceeds the balance it is replaced by the balance', X.loc(g))
    for c in pay:
        at_v = prog.narrow.operand(AW, c.args[4])
        at_p = prog.slicer.operand(AW, c.args[3])
        rep.need('K10', 'reward:value-equals-declared-reward', has_atom(at_v, 'C:Runtime::transaction') and has_atom(at_p, 'E:ApplyRewardParams'), 'the FIL attached equals the reward declared in the parameters', c.where)
    # ---- 6. tolerated value sends have their fallback (details under C15 / C05)
    from props import c15
    for hn in ('Actor::dispute_windowed_post', 'Actor::report_consensus_fault'):
        H = X.fn(hn, MI)
        rs = [c for c in H.calls if sendsmod.is_send(c)]
        burns = [b for b in H.calls if callee_is('burn_funds')(b)]
        for c in rs:
            if result_fate(H, c) != 'try':
                rep.need('K8', 'tolerated-payout-fallback:%s' % hn.split('::')[-1], c15.fallback_to_burn(prog, X, H, c, burns), 'a tolerated failed payout must fall back into the burn (no FIL stranded)', c.where)
    # ---- running totals (amounts, power, datacap) accumulated in loops keep their earlier contributions
    X.accumulator_integrity('K12', 'running-totals', [c for c in prog.crates if c.startswith('fil_actor')], 'running totals of amounts')
    X.no_dropped_results('K14', 'results-not-discarded', [c for c in prog.crates if c.startswith('fil_actor')], 'no Result of a call is discarded')
    X.tolerated_failures('K15', 'tolerated-failures', [c for c in prog.crates if c.startswith('fil_actor')], 'tolerated failures are the reviewed ones')
    X.write_sites_preserved('K16', 'updates-present', 'fil_actor_miner', ['State.pre_commit_deposits', 'State.locked_funds', 'State.initial_pledge', 'State.fee_debt'], 'state updates do not disappear')
    X.write_sites_preserved('K16', 'updates-present', 'fil_actor_paych', ['State.to_send'], 'state updates do not disappear')



def post_dominated(prog, X, H, is_eff, is_chk, depth=0):
    """every success path of H after its last effect site passes a check site (possibly inside a callee that itself satisfies this)"""
    eff = [c for (c, _d) in prog.sites_reaching(H, is_eff)]
    chk = [c for c in H.calls if is_chk(c) and result_fate(H, c) == 'try']
    if not eff:
        return True, 'no money effect'
    # effect sites whose callee is itself a function that ends every success path with the check count as checked
    inner_ok = set()
    for c in eff:
        if is_eff(c) or depth >= 4:
            continue
        tg = []
        if c.callee in prog.fns:
            tg.append(c.callee)
        tg += [x for x in c.cl if x in prog.fns]
        tg = [t for t in tg if prog.reaches(t, pred_call=is_eff)]
        if tg and all(post_dominated(prog, X, prog.fns[t], is_eff, is_chk, depth + 1)[0] for t in tg) and result_fate(H, c) in ('try', 'returned'):
            inner_ok.add(c.bb)
    B = {c.bb for c in chk} | inner_ok
    bad = []
    for c in eff:
        if c.bb in B:
            continue
        if H.ok_returns_from([t for (t, _l) in H.succ[c.bb]], blocked=B):
            bad.append(c)
    if bad:
        return False, ('after the money effect at %s (%s) a success return of %s is reachable without State::check_balance_invariants' % (
            bad[0].where, (bad[0].callee or '').split('::')[-1], H.id))
    return True, '%d effect site(s), each followed by the invariant check on every success path' % len(eff)
