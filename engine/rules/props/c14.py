"""C14 - miner funds unlock only on schedule; withdrawals never touch collateral."""
from core import *
from rules import *
import sends as sendsmod

LEVEL = 'other'
LEVEL_TEXT = ('Structural necessary conditions over the miner actor\'s MIR: the withdrawal send goes to the beneficiary field only, for min(available '
              'balance, requested[, remaining quota]), behind the early-termination, debt-repayment, sign and quota guards, with the used quota '
              'accumulated and saved; available balance is balance minus the three collateral ledgers minus fee debt; unvested funds are released '
              'only by the penalty repayment routine; vested funds are taken only for epochs strictly before the current one; the reward vesting '
              'spec and lock factor constants are as the property states. Schedule arithmetic and quantisation are not decided.')
TECHNIQUE = 'guard dominance by CFG edge deletion, value-provenance slices, single-caller sets, constant evaluation over rustc MIR'
CR = 'fil_actor_miner'
TX = RUNTIME + 'transaction'


def run(prog, rep, tier, cfg):
    X = Ctx(prog, rep)
    rep.explanation = LEVEL_TEXT
    rep.not_decided = 'vesting schedule arithmetic (linear interpolation, quantisation), amounts over histories'
    W = X.fn('Actor::withdraw_balance', CR)
    snd = [c for c in W.calls if sendsmod.is_send(c)]
    rep.need('K5', 'withdraw:send', len(snd) == 1, 'one withdrawal send expected, found %d' % len(snd), X.loc(W))
    for c in snd:
        X.arg_has('K10', 'withdraw:recipient', c, 1, ['F:MinerInfo.beneficiary'], 'the withdrawal is paid to the beneficiary', forbid=['F:MinerInfo.owner', 'F:MinerInfo.worker', 'C:MessageInfo::caller'])
        X.arg_has('K10', 'withdraw:amount', c, 4, ['C:State::get_available_balance', 'F:WithdrawBalanceParams.amount_requested', 'C:core::cmp::min', 'C:BeneficiaryTerm::available'],
                  'amount = min(available balance, requested, remaining quota)', forbid=['C:Runtime::current_balance'])
        X.arg_has('K10', 'withdraw:plain-transfer', c, 2, ['K:METHOD_SEND'], 'a plain value transfer')
        rep.need('K8', 'withdraw:send-propagated', result_fate(W, c) == 'try', 'a failed transfer aborts the withdrawal', c.where)
        X.guard('K6b', 'withdraw:only-positive', W, [c.bb], m_pred('is_positive', ['C:core::cmp::min'], True), 'amount_withdrawn.is_positive()')
    X.guard('K6b', 'withdraw:request-non-negative', W, [c.bb for c in W.calls if (c.defp or '') == TX], m_pred('is_negative', ['F:WithdrawBalanceParams.amount_requested'], False), 'negative request => Err')
    cls = [c for c in prog.closures_of(W.id, recursive=False) if any(callee_is('State::get_available_balance')(x) for x in c.calls)]
    rep.need('K6', 'withdraw:closure', len(cls) == 1, 'one closure computing the available balance expected', X.loc(W))
    for C in cls:
        rets = C.ret_blocks()
        X.guard('K6b', 'withdraw:no-pending-early-terminations', C, rets, m_pred('is_empty', ['F:State.early_terminations'], True), '!early_terminations.is_empty() => Err')
        X.call_guard('K6a', 'withdraw:debts-repaid', C, rets, callee_is('repay_debts_or_abort'), 'repay_debts_or_abort(rt, state)?')
        X.call_guard('K6a', 'withdraw:vest-first', C, rets, callee_is('State::unlock_vested_funds'), 'state.unlock_vested_funds(..)?')
        X.guard('K6b', 'withdraw:amount-non-negative', C, rets, m_pred('is_negative', ['C:core::cmp::min'], False), 'amount_withdrawn.is_negative() => Err')
        NOT_OWNER = m_rel('ne', ['F:MinerInfo.beneficiary'], ['F:MinerInfo.owner'], False)   # delete the arm beneficiary == owner
        X.guard('K6b', 'withdraw:quota-left', C, rets, m_pred('is_zero', ['C:BeneficiaryTerm::available'], False), 'remaining quota zero (expired or used up) => Err', assume=[NOT_OWNER])
        for c in C.calls:
            if callee_is('State::get_available_balance')(c):
                X.arg_has('K10', 'withdraw:available-of-current-balance', c, 1, ['C:Runtime::current_balance'], 'available balance is computed from the current balance')
            if callee_is('BeneficiaryTerm::available')(c):
                X.arg_has('K10', 'withdraw:quota-at-current-epoch', c, 1, ['C:Runtime::curr_epoch'], 'quota availability is evaluated at the current epoch')
                X.arg_has('K10', 'withdraw:quota-of-beneficiary-term', c, 0, ['F:MinerInfo.beneficiary_term'], 'quota of the active beneficiary term', narrow=False)
        X.accumulates('K10', 'withdraw:used-quota-accumulated', C, ['C:core::cmp::min'], 'used_quota += amount withdrawn')
        uq = [c for c in C.calls if (c.defp or '').endswith('AddAssign::add_assign') and X.updates_field(c, 'BeneficiaryTerm', 'used_quota')]
        rep.need('K10', 'withdraw:used-quota-site', len(uq) == 1, 'one `used_quota += amount` expected, found %d' % len(uq), X.loc(C))
        X.followed_by('K7', 'withdraw:quota-saved', C, [c.bb for c in uq], [c.bb for c in C.calls if callee_is('State::save_info')(c)], 'the used quota is saved')
        # when the beneficiary is not the owner and the amount is positive the quota update must happen
        pos = X.find_conds(C, m_pred('is_positive', ['C:core::cmp::min'], True))
        okq = False
        if len(pos) == 1 and uq:
            cc, arm = pos[0]
            okq = not C.ok_returns_from([cc.arms[arm]], blocked={uq[0].bb})
        rep.need('K7', 'withdraw:quota-charged-when-paying-third-party', okq, 'a positive withdrawal to a non-owner beneficiary always charges the quota', X.loc(C))
        # the amount component returned is the clamped one
    # ---- quota is available strictly before the term's expiration epoch
    BA = X.fn('beneficiary::BeneficiaryTerm::available', CR)
    nz = [c.bb for c in BA.calls if (c.callee or '').endswith('::sub') or (c.defp or '').endswith('Sub::sub')]
    X.guard('K6b', 'beneficiary-term:expiry-exclusive', BA, nz, m_rel('gt', ['F:BeneficiaryTerm.expiration'], ['P:2'], True, pure=True), 'quota is available only while expiration > current epoch', success_only=False)
    lf = linear_form(prog, BA, ['c', [0, []]])
    others = {k for k in lf if k not in ('F:BeneficiaryTerm.quota', 'F:BeneficiaryTerm.used_quota') and not k.endswith('::zero') and k not in ('C:max', 'V:0')}
    a = prog.slicer.local(BA, 0)
    clamp = has_atom(a, 'C:::max') or any(find for find in [X.find_conds(BA, m_pred('is_negative', ['F:BeneficiaryTerm.quota', 'F:BeneficiaryTerm.used_quota'], False)),
                                                             X.find_conds(BA, m_pred('is_positive', ['F:BeneficiaryTerm.quota', 'F:BeneficiaryTerm.used_quota'], True)),
                                                             X.find_conds(BA, m_rel('gt', ['F:BeneficiaryTerm.quota'], ['F:BeneficiaryTerm.used_quota'], True)),
                                                             X.find_conds(BA, m_rel('ge', ['F:BeneficiaryTerm.used_quota'], ['F:BeneficiaryTerm.quota'], False))])
    rep.need('K10', 'beneficiary-term:remaining-quota', lf.get('F:BeneficiaryTerm.quota') == {1} and lf.get('F:BeneficiaryTerm.used_quota') == {-1} and not others and clamp,
             'available = max(quota - used_quota, 0): signed terms %s, clamp at zero %s' % ({k: sorted(v) for k, v in sorted(lf.items())}, bool(clamp)), X.loc(BA))
    # ---- available balance = balance - locked - deposits - pledge - fee debt
    GA = X.fn('state::State::get_available_balance', CR)
    lf = linear_form(prog, GA, ['c', [0, []]])
    want = {'F:State.fee_debt': {-1}}
    ok = all(lf.get(k) == v for k, v in want.items()) and (lf.get('C:State::get_unlocked_balance') == {1} or
                                                         all(lf.get(k) == v for k, v in {'P:2': {1}, 'F:State.locked_funds': {-1}, 'F:State.pre_commit_deposits': {-1}, 'F:State.initial_pledge': {-1}}.items()))
    rep.need('K10', 'available-balance:formula', ok, 'available = unlocked balance - fee debt (signed terms, up to re-association); found %s' % {k: sorted(v) for k, v in sorted(lf.items())}, X.loc(GA))
    GU = X.fn('state::State::get_unlocked_balance', CR)
    lf = linear_form(prog, GU, ['c', [0, []]])
    want = {'P:2': {1}, 'F:State.locked_funds': {-1}, 'F:State.pre_commit_deposits': {-1}, 'F:State.initial_pledge': {-1}}
    extra = {k for k in lf if k not in want}
    rep.need('K10', 'unlocked-balance:formula', all(lf.get(k) == v for k, v in want.items()) and not extra,
             'unlocked = balance - locked_funds - pre_commit_deposits - initial_pledge (signed terms, up to re-association); found %s' % {k: sorted(v) for k, v in sorted(lf.items())}, X.loc(GU))
    X.guard('K6b', 'unlocked-balance:non-negative', GU, GU.ret_blocks(), m_pred('is_negative', ['F:State.locked_funds'], False), 'negative unlocked balance => Err')
    # ---- unvested funds only leave through penalty repayment
    X.callers('K5', 'State::unlock_vested_and_unvested_funds', callee_is('state::State::unlock_vested_and_unvested_funds'), ['state::State::repay_partial_debt_in_priority_order'], crates=[CR])
    X.callers('K5', 'VestingFunds::unlock_vested_and_unvested_funds', callee_is('vesting_state::VestingFunds::unlock_vested_and_unvested_funds'), ['state::State::unlock_vested_and_unvested_funds'], crates=[CR])
    X.callers('K5', 'VestingFunds::unlock_vested_funds', callee_is('vesting_state::VestingFunds::unlock_vested_funds'), ['state::State::unlock_vested_funds'], crates=[CR])
    X.callers('K5', 'VestingFunds::add_locked_funds', callee_is('vesting_state::VestingFunds::add_locked_funds'), ['state::State::add_locked_funds'], crates=[CR])
    X.must_reach('K3', 'withdraw:never-unlocks-unvested', W, callee_is('state::State::unlock_vested_and_unvested_funds'), 'State::unlock_vested_and_unvested_funds', want=False)
    RP = X.fn('state::State::repay_partial_debt_in_priority_order', CR)
    for c in RP.calls:
        if callee_is('state::State::unlock_vested_and_unvested_funds')(c):
            X.arg_has('K10', 'unvested-unlock:target-is-fee-debt', c, 3, ['F:State.fee_debt'], 'unvested funds are unlocked only up to the fee debt', narrow=False)
    X.guard('K6b', 'unvested-unlock:never-more-than-debt', RP, RP.ret_blocks(), m_rel('gt', ['T:State::unlock_vested_and_unvested_funds.0'], ['F:State.fee_debt'], False), 'from_vesting > fee_debt => Err')
    # ---- locked_funds ledger follows the vesting table
    for fn_, src in (('state::State::unlock_vested_funds', 'C:VestingFunds::unlock_vested_funds'), ('state::State::unlock_vested_and_unvested_funds', 'C:VestingFunds::unlock_vested_and_unvested_funds')):
        F = X.fn(fn_, CR)
        subs = [c for c in F.calls if (c.defp or '').endswith('SubAssign::sub_assign') and X.updates_field(c, 'State', 'locked_funds')]
        rep.need('K10', '%s:ledger-decrease' % fn_.split('::')[-1], len(subs) == 1 and has_atom(prog.narrow.operand(F, subs[0].args[1]), src),
                 'locked_funds decreases by exactly what the vesting table released', X.loc(F))
        neg = X.find_conds(F, m_pred('is_negative', ['F:State.locked_funds'], False))
        okn = False
        if subs and len(neg) == 1:
            cc, arm = neg[0]
            okn = not F.ok_returns_from([t for (t, _l) in F.succ[subs[0].bb]], removed=[X.edge(cc, arm)])
        rep.need('K6b', '%s:non-negative' % fn_.split('::')[-1], okn, 'after the decrease, a negative locked_funds must be an error', X.loc(F))
    AL = X.fn('state::State::add_locked_funds', CR)
    # adding to the vesting table also releases what had vested: the ledger goes down by that amount and up by the new sum
    subs = [c for c in AL.calls if (c.defp or '').endswith('SubAssign::sub_assign') and X.updates_field(c, 'State', 'locked_funds')]
    rep.need('K10', 'add_locked_funds:ledger-decrease', len(subs) == 1 and has_atom(prog.narrow.operand(AL, subs[0].args[1]), 'C:VestingFunds::add_locked_funds'),
             'locked_funds decreases by what the vesting table released while adding (found %d `-=` sites)' % len(subs), X.loc(AL))
    adds = [c for c in AL.calls if (c.defp or '').endswith('AddAssign::add_assign') and X.updates_field(c, 'State', 'locked_funds')]
    rep.need('K10', 'add_locked_funds:ledger-increase', len(adds) == 1 and has_atom(prog.narrow.operand(AL, adds[0].args[1]), 'P:4'), 'locked_funds increases by the vesting sum', X.loc(AL))
    X.guard('K6b', 'add_locked_funds:non-negative-sum', AL, [c.bb for c in AL.calls if callee_is('vesting_state::VestingFunds::add_locked_funds')(c)], m_pred('is_negative', ['P:4'], False), 'negative vesting sum => Err')
    # ---- vesting table: only strictly past epochs are vested
    # every comparison of a vesting entry's epoch with the current epoch on the way of VestingFunds::unlock_vested_funds (its own
    # body, the private helpers of the module it calls - `take_vested`, `can_vest` on the pinned tree - and their closures) is the
    # strict `entry.epoch < current_epoch`; stated over the call tree, so that inlining / renaming those helpers changes nothing
    UV = X.fn('vesting_state::VestingFunds::unlock_vested_funds', CR)
    tree = [g for g in (prog.V(prog.fns[x]) for x in sorted(prog.reachable_fns(UV.id)) if x in prog.fns) if g.crate == CR and '::vesting_state::' in g.id and not g.id.endswith(('::load', '::save', '::new'))]
    cmps = []
    for g in tree:
        for b in g.blocks:
            for st in b['s']:
                if st[0] == '=' and st[2][0] == 'bin' and norm_op(st[2][1]) in ('Lt', 'Le', 'Gt', 'Ge', 'Eq', 'Ne'):
                    la, ra = prog.slicer.operand(g, st[2][2]), prog.slicer.operand(g, st[2][3])
                    le, re_ = has_atom(la, 'F:VestingFund.epoch'), has_atom(ra, 'F:VestingFund.epoch')
                    if le != re_:
                        op = norm_op(st[2][1])
                        strict = (op == 'Lt' and le) or (op == 'Gt' and re_)
                        other = ra if le else la
                        cmps.append((g.id.split('::')[-1], st[3], strict and any(a[0] == 'P' for a in other) and not any(a[0] == 'OP' for a in other)))
    rep.need('K6b', 'unlock_vested:strictly-before-current-epoch', len(cmps) >= 1 and all(c[2] for c in cmps),
             'funds vest only while entry.epoch < current_epoch (plain comparison with the epoch parameter); comparisons found: %s' % cmps, X.loc(UV))
    rep.count('vesting_epoch_comparisons', len(cmps))
    UU = X.fn('vesting_state::VestingFunds::unlock_vested_and_unvested_funds', CR)
    lt = [c for c in conds(UU, prog.slicer) if match_rel(c, 'lt', ['F:VestingFund.epoch'], ['P:3']) is not None]
    rep.need('K6b', 'unlock_unvested:classifies-by-epoch', len(lt) >= 1, 'funds with epoch < current_epoch count as vested, the rest as unvested', X.loc(UU))
    # ---- constants: 180 days, daily steps, 12 h quantisation, 75 % locked
    V = prog.fns.get('fil_actor_miner::policy::REWARD_VESTING_SPEC') or next((f for k, f in prog.fns.items() if k.endswith('::REWARD_VESTING_SPEC') and f.kind == 'const'), None)
    if V is None:
        rep.ob('K11', 'REWARD_VESTING_SPEC', False, 'constant not found (fail closed)')
    else:
        want = {'initial_delay': 0, 'vest_period': 180 * 2880, 'step_duration': 2880, 'quantization': 12 * 120}
        for fld, val in want.items():
            ats = X.agg_field_atoms(V, 'VestSpec', fld, narrow=False)
            vals = {a[1] for (_b, at) in ats for a in at if a[0] == 'V'}
            got = eval_const_expr(prog, V, 'VestSpec', fld)
            rep.need('K11', 'REWARD_VESTING_SPEC.%s' % fld, got == val, 'REWARD_VESTING_SPEC.%s must be %d epochs, is %s' % (fld, val, got), X.loc(V))
    X.const_is('K11', 'LOCKED_REWARD_FACTOR_NUM', 3, CR)
    X.const_is('K11', 'LOCKED_REWARD_FACTOR_DENOM', 4, CR)
    LR = X.fn('monies::locked_reward_from_reward', CR)
    a = prog.slicer.local(LR, 0)
    rep.need('K10', 'locked_reward:formula', has_all(a, ['P:1', 'K:LOCKED_REWARD_FACTOR_NUM', 'K:LOCKED_REWARD_FACTOR_DENOM', 'K:REWARD_VESTING_SPEC']),
             'locked = reward * NUM / DENOM with the reward vesting spec', X.loc(LR))
    # rewards and the creation deposit are locked with that spec
    AR = X.fn('Actor::apply_rewards', CR)
    for g in prog.family(AR):
        for c in g.calls:
            if callee_is('state::State::add_locked_funds')(c):
                X.arg_has('K10', 'apply_rewards:locks-the-locked-share', c, 3, ['T:monies::locked_reward_from_reward.0'], 'the locked share of the reward is put into vesting')
                X.arg_has('K10', 'apply_rewards:vest-spec', c, 4, ['T:monies::locked_reward_from_reward.1'], 'with the reward vesting spec')
                X.arg_has('K10', 'apply_rewards:at-current-epoch', c, 2, ['C:Runtime::curr_epoch'], 'starting at the current epoch')
        for c in g.calls:
            if callee_is('monies::locked_reward_from_reward')(c):
                X.arg_has('K10', 'apply_rewards:of-the-reward', c, 0, ['F:ApplyRewardParams.reward'], 'computed from the reward parameter', narrow=False)
    K = X.fn('Actor::constructor', CR)
    for c in K.calls:
        if callee_is('state::State::add_locked_funds')(c):
            X.arg_has('K10', 'constructor:deposit-vests', c, 3, ['C:calculate_create_miner_deposit'], 'the creation deposit is locked')
            X.arg_has('K10', 'constructor:vest-spec', c, 4, ['K:REWARD_VESTING_SPEC'], 'with the reward vesting spec', narrow=False)
    # ---- running totals (amounts, power, datacap) accumulated in loops keep their earlier contributions
    X.accumulator_integrity('K12', 'running-totals', ['fil_actor_miner'], 'running totals of amounts')
    X.no_dropped_results('K14', 'results-not-discarded', ['fil_actor_miner'], 'no Result of a call is discarded')
    X.tolerated_failures('K15', 'tolerated-failures', ['fil_actor_miner'], 'tolerated failures are the reviewed ones')
    X.write_sites_preserved('K16', 'updates-present', 'fil_actor_miner', ['State.locked_funds', 'State.vesting_funds', 'BeneficiaryTerm.used_quota'], 'state updates do not disappear')



def eval_const_expr(prog, f, adt, field):
    """evaluate the integer initialiser of `field` in the (single) aggregate of `adt` built in const body f; supports
    literals, named integer constants and + - * of those"""
    for b in f.blocks:
        for st in b['s']:
            if st[0] == '=' and st[2][0] == 'agg' and st[2][1].get('k') == 'adt' and st[2][1]['adt'].endswith('::' + adt):
                fields = st[2][1]['fields']
                if field in fields:
                    return _ev(prog, f, st[2][2][fields.index(field)])
    return None


def _ev(prog, f, op, depth=0):
    if depth > 10:
        return None
    if op[0] == 'k':
        if 'val' in op[1]:
            return op[1]['val']
        if 'def' in op[1]:
            c = prog.consts.get(op[1]['def'])
            return c.get('val') if c else None
        return None
    if op[0] in ('c', 'm'):
        pl = op[1]
        ds = [d for d in f.defs.get(pl[0], []) if d[0] == '=']
        if len(ds) != 1:
            return None
        rv = ds[0][4]
        if rv[0] == 'use':
            return _ev(prog, f, rv[1], depth + 1)
        if rv[0] == 'cast':
            return _ev(prog, f, rv[2], depth + 1)
        if rv[0] == 'bin':
            a, b = _ev(prog, f, rv[2], depth + 1), _ev(prog, f, rv[3], depth + 1)
            o = norm_op(rv[1])
            if o in ('Add', 'Sub', 'Mul'):
                if a is None or b is None:
                    return None
                return {'Add': a + b, 'Sub': a - b, 'Mul': a * b}[o]
            return None
        if rv[0] == 'agg' and rv[1].get('k') == 'tuple':
            return None
        if pl[1] and isinstance(pl[1][0], list) and pl[1][0][0] == 'f':
            return None
    return None
