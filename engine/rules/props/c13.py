"""C13 - control of a miner changes hands only by two-sided, delayed handover."""
from core import *
from rules import *

LEVEL = 'other'
LEVEL_TEXT = ('Structural necessary conditions over MIR: single writers of owner/worker/control/beneficiary/pending fields and of the info CID; the '
              'owner write lies behind the validation against the pending address and the same-address comparison; the worker write behind the '
              'effective-epoch comparison, with effective_at derived from curr_epoch + policy delay; the beneficiary write behind both approval '
              'flags, each flag set only under its caller-equality guard. Who may start each protocol is the C11 matrix. Timing arithmetic is not decided.')
TECHNIQUE = 'single-writer sets, guard dominance by CFG edge deletion, backward slices of written values over rustc MIR'
CR = 'fil_actor_miner'
TX = RUNTIME + 'transaction'


def main_closure(prog, H, pred):
    cls = [c for c in prog.closures_of(H.id, recursive=False) if pred(c)]
    return cls


def run(prog, rep, tier, cfg):
    X = Ctx(prog, rep)
    rep.explanation = LEVEL_TEXT
    rep.not_decided = 'epoch arithmetic of the delay and of beneficiary term expiry; behaviour of the parties over histories'
    # ---- K4 single writers of MinerInfo fields
    W = {
        'owner': ['Actor::change_owner_address'],
        'worker': ['process_pending_worker'],
        'control_addresses': ['Actor::change_worker_address'],
        'pending_worker_key': ['Actor::change_worker_address', 'process_pending_worker'],
        'pending_owner_address': ['Actor::change_owner_address'],
        'beneficiary': ['Actor::change_owner_address', 'Actor::change_beneficiary'],
        'beneficiary_term': ['Actor::change_beneficiary', 'Actor::withdraw_balance'],
        'pending_beneficiary_term': ['Actor::change_owner_address', 'Actor::change_beneficiary'],
    }
    for field, allowed in W.items():
        X.writers('K4', 'MinerInfo', field, allowed, crate=CR,
                  constructors=['state::MinerInfo::new', 'Deserialize', 'Clone'])
    X.writers('K4', 'BeneficiaryTerm', 'quota', ['Actor::change_beneficiary'], crate=CR)
    X.writers('K4', 'BeneficiaryTerm', 'expiration', ['Actor::change_beneficiary'], crate=CR)
    X.writers('K4', 'BeneficiaryTerm', 'used_quota', ['Actor::change_beneficiary', 'Actor::withdraw_balance'], crate=CR)
    X.writers('K4', 'PendingBeneficiaryChange', 'approved_by_beneficiary', ['Actor::change_beneficiary'], crate=CR)
    X.writers('K4', 'PendingBeneficiaryChange', 'approved_by_nominee', ['Actor::change_beneficiary'], crate=CR)
    X.writers('K4', 'State', 'info', ['state::State::save_info'], crate=CR)
    save_callers = ['Actor::change_worker_address', 'Actor::change_owner_address', 'Actor::change_peer_id', 'Actor::change_multiaddresses',
                    'Actor::report_consensus_fault', 'Actor::withdraw_balance', 'Actor::change_beneficiary', 'process_pending_worker']
    X.callers('K5', 'State::save_info', callee_is('State::save_info'), save_callers, crates=[CR])
    X.callers('K5', 'process_pending_worker', callee_is('process_pending_worker'), ['Actor::confirm_change_worker_address', 'handle_proving_deadline'], crates=[CR])
    # ---- owner handover
    CO = X.fn('Actor::change_owner_address', CR)
    cls = main_closure(prog, CO, lambda c: X.write_blocks(c, 'MinerInfo', 'owner'))
    rep.need('K6', 'change_owner:closure', len(cls) == 1, 'one closure writing MinerInfo.owner expected, found %d' % len(cls), X.loc(CO))
    for cl in cls:
        wo = X.write_blocks(cl, 'MinerInfo', 'owner')

        def validates_pending(c):
            if not (c.defp or '').endswith('validate_immediate_caller_is'):
                return False
            at = prog.narrow.operand(cl, c.args[1])
            return has_atom(at, 'F:MinerInfo.pending_owner_address') and not has_atom(at, 'F:MinerInfo.owner')
        X.call_guard('K6a', 'change_owner:confirm-by-pending', cl, wo, validates_pending, 'validate_immediate_caller_is([pending_owner_address])?')
        X.guard('K6b', 'change_owner:same-address', cl, wo,
                m_rel('ne', ['F:ChangeOwnerAddressParams.new_owner'], ['F:MinerInfo.pending_owner_address'], False),
                'new_address != pending_address => Err')
        X.value_from('K10', 'change_owner:new-owner-is-pending', cl, X.stmt_rvalue_atoms(cl, 'MinerInfo', 'owner'), ['F:MinerInfo.pending_owner_address'], 'value written to info.owner', copy=True)
        # the proposal arm: pending := Some(new_address) only after validating the current owner
        props = [(bb, a) for (bb, a) in X.stmt_rvalue_atoms(cl, 'MinerInfo', 'pending_owner_address') if has_atom(a, 'F:ChangeOwnerAddressParams.new_owner')]
        rep.need('K6', 'change_owner:proposal-site', len(props) == 1, 'one proposal write pending_owner_address = Some(new_address) expected, found %d' % len(props), X.loc(cl))

        def validates_owner(c):
            if not (c.defp or '').endswith('validate_immediate_caller_is'):
                return False
            at = prog.narrow.operand(cl, c.args[1])
            return has_atom(at, 'F:MinerInfo.owner')
        if props:
            X.call_guard('K6a', 'change_owner:propose-by-owner', cl, [props[0][0]], validates_owner, 'validate_immediate_caller_is([owner])?')
        # the old owner's pending beneficiary proposal dies with the handover
        pbt = X.write_blocks(cl, 'MinerInfo', 'pending_beneficiary_term')
        r1 = cl.reach([0], blocked=set(pbt) | cl.errblocks)
        before = not (set(wo) & r1)
        after = bool(pbt) and not any(cl.ok_returns_from([t for (t, _l) in cl.succ[w]], blocked=set(pbt)) for w in wo)
        rep.need('K7', 'change_owner:cancels-pending-beneficiary-proposal', bool(pbt) and (before or after),
                 'every completed owner handover clears MinerInfo.pending_beneficiary_term', X.loc(cl, wo[0] if wo else None))
        vals = X.stmt_rvalue_atoms(cl, 'MinerInfo', 'pending_beneficiary_term', narrow=False)
        X.value_from('K10', 'change_owner:pending-proposal-cleared-to-none', cl, vals, ['E:Option::None'], 'pending_beneficiary_term := None', forbid=['E:Option::Some'])
        # every success path stores the info
        X.followed_by('K7', 'change_owner:saved', cl, wo, [c.bb for c in cl.calls if callee_is('State::save_info')(c)], 'owner change is saved')
    # ID-address requirement
    txs = [c.bb for c in CO.calls if (c.defp or '') == TX]
    X.guard('K6b', 'change_owner:id-address', CO, txs, m_variant(['C:Address::protocol'], 0), 'new owner must be an ID address', )
    # ---- worker key change
    PW = X.fn('process_pending_worker', CR)
    ww = X.write_blocks(PW, 'MinerInfo', 'worker')
    X.guard('K6b', 'worker:effective-epoch', PW, ww, m_rel('lt', ['C:Runtime::curr_epoch'], ['F:WorkerKeyChange.effective_at'], False),
            'curr_epoch < effective_at => no change', success_only=False)
    X.guard('K6b', 'worker:pending-some', PW, ww, m_variant(['F:MinerInfo.pending_worker_key'], 1), 'pending_worker_key is Some', success_only=False)
    X.value_from('K10', 'worker:new-worker-from-pending', PW, X.stmt_rvalue_atoms(PW, 'MinerInfo', 'worker'), ['F:WorkerKeyChange.new_worker'], 'value written to info.worker', copy=True)
    X.followed_by('K7', 'worker:saved', PW, ww, [c.bb for c in PW.calls if callee_is('State::save_info')(c)], 'worker change is saved')
    CW = X.fn('Actor::change_worker_address', CR)
    cls = main_closure(prog, CW, lambda c: X.write_blocks(c, 'MinerInfo', 'pending_worker_key'))
    rep.need('K6', 'change_worker:closure', len(cls) == 1, 'one closure writing pending_worker_key expected, found %d' % len(cls), X.loc(CW))
    for cl in cls:
        X.value_from('K10', 'change_worker:effective_at', cl, X.agg_field_atoms(cl, 'WorkerKeyChange', 'effective_at'),
                     ['C:Runtime::curr_epoch', 'F:Policy.worker_key_change_delay', 'OP:Add'], 'effective_at = curr_epoch + policy.worker_key_change_delay', )
        X.value_from('K10', 'change_worker:new_worker', cl, X.agg_field_atoms(cl, 'WorkerKeyChange', 'new_worker'),
                     ['C:resolve_worker_address'], 'new_worker is the resolved, key-checked worker address')
        wp = X.write_blocks(cl, 'MinerInfo', 'pending_worker_key')
        X.guard('K6b', 'change_worker:no-override', cl, wp, m_pred('is_none', ['F:MinerInfo.pending_worker_key'], True), 'pending_worker_key.is_none()')
        X.guard('K6b', 'change_worker:differs', cl, wp, m_rel('ne', ['C:resolve_worker_address'], ['F:MinerInfo.worker'], True), 'new_worker != info.worker')
        X.followed_by('K7', 'change_worker:saved', cl, wp + X.write_blocks(cl, 'MinerInfo', 'control_addresses'),
                      [c.bb for c in cl.calls if callee_is('State::save_info')(c)], 'worker request / control addresses are saved')
    # policy value (default policy: 2 * chain finality = 1800 epochs on mainnet parameters)
    pol = X.try_fn('K11', '<runtime::policy::Policy as core::default::Default>::default', 'fil_actors_runtime')
    if pol is not None:
        X.value_from('K11', 'policy:worker_key_change_delay', pol, X.agg_field_atoms(pol, 'Policy', 'worker_key_change_delay'),
                     ['K:WORKER_KEY_CHANGE_DELAY'], 'default policy delay is the WORKER_KEY_CHANGE_DELAY constant')
    beneficiary_gates(prog, rep, X)
    # ---- owner change keeps beneficiary semantics: beneficiary follows only if it was the old owner
    for cl in main_closure(prog, CO, lambda c: X.write_blocks(c, 'MinerInfo', 'owner')):
        wb = X.write_blocks(cl, 'MinerInfo', 'beneficiary')
        X.guard('K6b', 'change_owner:beneficiary-follows-only-if-owner', cl, wb, m_rel('eq', ['F:MinerInfo.beneficiary'], ['F:MinerInfo.owner'], True), 'info.beneficiary == info.owner')
    # ---- error discipline: no Result produced in these crates is silently discarded
    X.no_dropped_results('K14', 'results-not-discarded', ['fil_actor_miner'], 'no Result of a call is discarded')
    X.tolerated_failures('K15', 'tolerated-failures', ['fil_actor_miner'], 'tolerated failures are the reviewed ones')
    X.write_sites_preserved('K16', 'updates-present', 'fil_actor_miner', ['MinerInfo.owner', 'MinerInfo.pending_owner_address', 'MinerInfo.worker', 'MinerInfo.pending_worker_key', 'MinerInfo.control_addresses', 'MinerInfo.beneficiary', 'MinerInfo.beneficiary_term', 'MinerInfo.pending_beneficiary_term', 'State.info'], 'state updates do not disappear')



def beneficiary_gates(prog, rep, X, prefix=''):
    """the hand-written caller gates of the accept-any method ChangeBeneficiary (also evaluated under C11)"""
    # ---- beneficiary change
    CB = X.fn('Actor::change_beneficiary', CR)
    cls = main_closure(prog, CB, lambda c: X.write_blocks(c, 'MinerInfo', 'beneficiary'))
    rep.need('K6', prefix + 'change_beneficiary:closure', len(cls) == 1, 'one closure writing MinerInfo.beneficiary expected, found %d' % len(cls), X.loc(CB))
    CALLER = ['C:MessageInfo::caller']
    NOMINEE = ['F:ChangeBeneficiaryParams.new_beneficiary']
    for cl in cls:
        wb = X.write_blocks(cl, 'MinerInfo', 'beneficiary') + X.write_blocks(cl, 'BeneficiaryTerm', 'quota') + X.write_blocks(cl, 'BeneficiaryTerm', 'expiration')
        X.guard('K6b', prefix + 'change_beneficiary:approved-by-beneficiary', cl, wb, m_boolatoms(['F:PendingBeneficiaryChange.approved_by_beneficiary'], True), 'approved_by_beneficiary')
        X.guard('K6b', prefix + 'change_beneficiary:approved-by-nominee', cl, wb, m_boolatoms(['F:PendingBeneficiaryChange.approved_by_nominee'], True), 'approved_by_nominee')
        X.value_from('K10', prefix + 'change_beneficiary:value', cl, X.stmt_rvalue_atoms(cl, 'MinerInfo', 'beneficiary'), NOMINEE, 'value written to info.beneficiary')
        X.value_from('K10', prefix + 'change_beneficiary:quota', cl, X.stmt_rvalue_atoms(cl, 'BeneficiaryTerm', 'quota'), ['F:PendingBeneficiaryChange.new_quota'], 'value written to beneficiary_term.quota')
        X.value_from('K10', prefix + 'change_beneficiary:expiration', cl, X.stmt_rvalue_atoms(cl, 'BeneficiaryTerm', 'expiration'), ['F:PendingBeneficiaryChange.new_expiration'], 'value written to beneficiary_term.expiration')
        # flag writes: each under its caller-equality guard
        fb = X.write_blocks(cl, 'PendingBeneficiaryChange', 'approved_by_beneficiary', kinds=('assign',))
        rep.floor('K6b', prefix + 'approved_by_beneficiary_writes', len(fb), 2)
        for i, bb in enumerate(sorted(fb)):
            X.guard('K6b', prefix + 'change_beneficiary:flag-beneficiary#%d' % i, cl, [bb],
                    m_any(m_rel('eq', CALLER, ['F:MinerInfo.beneficiary'], True),
                          m_pred('is_zero', ['C:BeneficiaryTerm::available'], True)),
                    'caller == info.beneficiary (or current term exhausted, on the owner proposal arm)')
        # the auto-approval on exhaustion only on the owner's proposal arm
        for i, bb in enumerate(sorted(fb)):
            at_guard = X.find_conds(cl, m_pred('is_zero', ['C:BeneficiaryTerm::available'], True))
            for (c, arm) in at_guard:
                r = cl.reach([c.arms[arm]], stop_at=None)
                if bb in r and c.bb in cl.reach([0]):
                    # this write is on the exhaustion arm: must also be behind caller == owner
                    if not cl.dominates(c.bb, bb):
                        continue
                    X.guard('K6b', prefix + 'change_beneficiary:auto-approve-only-by-owner', cl, [bb], m_rel('eq', CALLER, ['F:MinerInfo.owner'], True), 'caller == info.owner')
        fn_ = X.write_blocks(cl, 'PendingBeneficiaryChange', 'approved_by_nominee', kinds=('assign',))
        rep.floor('K6b', prefix + 'approved_by_nominee_writes', len(fn_), 1)
        X.guard('K6b', prefix + 'change_beneficiary:flag-nominee', cl, fn_, m_rel('eq', CALLER, NOMINEE, True), 'caller == new_beneficiary')
        # proposal: pending_beneficiary_term = Some(new proposal) only by the owner
        props = [(bb, a) for (bb, a) in X.stmt_rvalue_atoms(cl, 'MinerInfo', 'pending_beneficiary_term') if has_atom(a, 'C:PendingBeneficiaryChange::new')]
        rep.need('K6', prefix + 'change_beneficiary:proposal-site', len(props) == 1, 'one proposal write expected, found %d' % len(props), X.loc(cl))
        if props:
            X.guard('K6b', prefix + 'change_beneficiary:propose-by-owner', cl, [props[0][0]], m_rel('eq', CALLER, ['F:MinerInfo.owner'], True), 'caller == info.owner')
        # confirmation arm (caller != owner): must name the same proposal and come from beneficiary or nominee
        not_owner = [m_rel('eq', CALLER, ['F:MinerInfo.owner'], True)]
        saves = [c.bb for c in cl.calls if callee_is('State::save_info')(c)]
        X.guard('K6b', prefix + 'change_beneficiary:confirm:proposal-exists', cl, saves, m_variant(['F:MinerInfo.pending_beneficiary_term'], 1), 'a proposal exists', assume=not_owner)
        X.guard('K6b', prefix + 'change_beneficiary:confirm:same-nominee', cl, saves, m_rel('ne', ['F:PendingBeneficiaryChange.new_beneficiary'], NOMINEE, False), 'proposal nominee == params nominee', assume=not_owner)
        X.guard('K6b', prefix + 'change_beneficiary:confirm:same-quota', cl, saves, m_rel('ne', ['F:PendingBeneficiaryChange.new_quota'], ['F:ChangeBeneficiaryParams.new_quota'], False), 'proposal quota == params quota', assume=not_owner)
        X.guard('K6b', prefix + 'change_beneficiary:confirm:same-expiration', cl, saves, m_rel('ne', ['F:PendingBeneficiaryChange.new_expiration'], ['F:ChangeBeneficiaryParams.new_expiration'], False), 'proposal expiration == params expiration', assume=not_owner)
        X.guard_any('K6b', prefix + 'change_beneficiary:confirm:party', cl, saves,
                    [m_rel('ne', CALLER, ['F:MinerInfo.beneficiary'], False), m_rel('ne', CALLER, ['F:PendingBeneficiaryChange.new_beneficiary'], False)],
                    'caller is the current beneficiary or the proposed one', assume=not_owner)
        # proposal sanity (owner arm)
        if props:
            X.guard('K6b', prefix + 'change_beneficiary:propose:quota-positive', cl, [props[0][0]], m_pred('is_positive', ['F:ChangeBeneficiaryParams.new_quota'], True), 'new_quota > 0 for a foreign beneficiary',
                    assume=[m_rel('ne', NOMINEE, ['F:MinerInfo.owner'], False)])
            X.guard('K6b', prefix + 'change_beneficiary:propose:owner-quota-zero', cl, [props[0][0]], m_pred('is_zero', ['F:ChangeBeneficiaryParams.new_quota'], True), 'quota must be zero when returning to owner',
                    assume=[m_rel('ne', NOMINEE, ['F:MinerInfo.owner'], True)])
        X.followed_by('K7', prefix + 'change_beneficiary:saved', cl, X.write_blocks(cl, 'MinerInfo', 'beneficiary'), saves, 'beneficiary change is saved')
        # a change of beneficiary resets the used quota: the comparison with the *old* beneficiary must be evaluated before the field is overwritten
        cmpb = X.find_conds(cl, m_rel('ne', NOMINEE, ['F:MinerInfo.beneficiary'], True))
        uq = X.write_blocks(cl, 'BeneficiaryTerm', 'used_quota')
        rep.need('K6b', prefix + 'change_beneficiary:quota-reset-test', len(cmpb) == 1 and len(uq) >= 1, 'one comparison new_beneficiary != info.beneficiary guarding the used_quota reset expected', X.loc(cl))
        if len(cmpb) == 1 and uq:
            X.guard('K6b', prefix + 'change_beneficiary:quota-reset-guard', cl, uq, m_rel('ne', NOMINEE, ['F:MinerInfo.beneficiary'], True), 'used_quota is reset only when the beneficiary changes')
            X.precedes('K7', prefix + 'change_beneficiary:compare-before-overwrite', cl, [cmpb[0][0].bb], X.write_blocks(cl, 'MinerInfo', 'beneficiary'),
                       'info.beneficiary is compared with the nominee before it is overwritten')
            c0, arm0 = cmpb[0]
            X.followed_by('K7', prefix + 'change_beneficiary:quota-reset-when-changed', cl, [c0.arms[arm0]] if False else [c0.bb], uq + [c0.arms[not arm0]], 'when the beneficiary changes the used quota is reset')
            X.value_from('K10', prefix + 'change_beneficiary:quota-reset-zero', cl, X.stmt_rvalue_atoms(cl, 'BeneficiaryTerm', 'used_quota', narrow=False), ['C:zero'], 'used_quota := 0')
