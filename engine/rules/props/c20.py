"""C20 - actor identities are unique, stable and derived as specified."""
from core import *
from rules import *
import sends as sendsmod

LEVEL = 'other'
LEVEL_TEXT = ('Structural facts over MIR: the ID counter and address map have one writer which only increments and refuses an already mapped robust '
              'address; create_actor is called only from Exec/Exec4, behind can_exec (whose true results are exactly multisig, payment channel, '
              'and miner-by-power) respectively the EAM-only validation and the placeholder-code comparison; the EAM sends only behind the '
              'reserved-address test, resurrects only EVM actors and deploys only over placeholders; CREATE increments the nonce before calling '
              'out and never when the endowment is unaffordable; address formulas are checked for operand provenance only (not the hash values).')
TECHNIQUE = 'single-writer / single-caller sets, guard dominance by CFG edge deletion, enum-arm analysis, argument provenance slices over rustc MIR'


def type_discr(prog):
    for aid, a in prog.adts.items():
        if aid.endswith('::Type') and a['kind'] == 'enum' and {'EVM', 'Miner', 'Placeholder'} <= {v['name'] for v in a['variants']}:
            return {v['name']: v['discr'] for v in a['variants']}
    raise AnchorMissing('builtin Type enum')


def true_blocks(f):
    out = []
    for bi, b in enumerate(f.blocks):
        if b.get('cleanup'):
            continue
        for st in b['s']:
            if st[0] == '=' and st[1][0] == 0 and not st[1][1]:
                rv = st[2]
                if rv[0] == 'use' and rv[1][0] == 'k' and rv[1][1].get('val') == 0:
                    continue
                out.append(bi)
    return out


def run(prog, rep, tier, cfg):
    X = Ctx(prog, rep)
    rep.explanation = LEVEL_TEXT
    rep.not_decided = 'RLP / Keccak address values; freshness over histories (relies on the counter only growing, which is decided)'
    T = type_discr(prog)
    INIT = 'fil_actor_init'
    # ---- init state
    X.writers('K4', 'State', 'next_id', ['state::State::map_addresses_to_id'], crate=INIT, constructors=['state::State::new'])
    X.writers('K4', 'State', 'address_map', ['state::State::map_addresses_to_id'], crate=INIT, constructors=['state::State::new'])
    MA = X.fn('state::State::map_addresses_to_id', INIT)
    vals = X.stmt_rvalue_atoms(MA, 'State', 'next_id', narrow=False)
    rep.floor('K10', 'next_id_increments', len(vals), 2)
    X.value_from('K10', 'init:next_id-increment', MA, vals, ['F:State.next_id', 'OP:Add', 'V:1'], 'next_id := next_id + 1', forbid=['OP:Sub'])
    wmap = X.write_blocks(MA, 'State', 'address_map')
    X.guard('K6b', 'init:robust-address-fresh', MA, wmap, m_boolatoms(['C:set_if_absent'], True), '!set_if_absent(robust) => Err')
    # every successful mapping also binds the robust (re-org stable) address and stores the map - also when the delegated
    # address was already known (Exec4 over a placeholder): an early return would hand out the id without the binding
    sia = [c for c in MA.calls if (c.callee or '').endswith('::set_if_absent')]
    rep.need('K7', 'init:robust-address-bound-on-every-success', len(sia) == 1 and result_fate(MA, sia[0]) == 'try' and not MA.ok_returns_from([0], blocked={sia[0].bb}),
             'no success return of map_addresses_to_id avoids set_if_absent(robust_addr, id)', X.loc(MA))
    rep.need('K7', 'init:map-stored-on-every-success', bool(wmap) and not MA.ok_returns_from([0], blocked=set(wmap)), 'no success return avoids storing the address map', X.loc(MA))
    sets = [c for c in MA.calls if (c.callee or '').endswith('Map2::<BS, K, V>::set')]
    rep.floor('K6b', 'delegated_map_set_sites', len(sets), 1)
    X.guard('K6b', 'init:delegated-mapped-once', MA, [c.bb for c in sets], m_variant(['C:Map2::<BS, K, V>::get'], 0), 'delegated address not yet mapped')
    for c in sets:
        X.arg_has('K10', 'init:delegated-maps-to-new-id', c, 2, ['F:State.next_id'], 'the delegated address maps to the freshly allocated id', narrow=False)
    # ---- create_actor
    X.callers('K5', 'Runtime::create_actor', lambda c: (c.defp or '') == RUNTIME + 'create_actor' and c.fn.crate.startswith('fil_actor'),
              ['fil_actor_init::Actor::exec', 'fil_actor_init::Actor::exec4'])
    EX = X.fn('Actor::exec', INIT)
    ca = [c for c in EX.calls if (c.defp or '') == RUNTIME + 'create_actor']
    cab = [c.bb for c in ca]
    X.guard('K6b', 'exec:can_exec', EX, cab, m_pred('can_exec', [], True), 'can_exec(caller code, requested code)')
    X.guard('K6b', 'exec:not-existing', EX, cab, m_boolatoms(['C:Runtime::transaction'], False), 'existing => Err')
    for c in EX.calls:
        if (c.callee or '').endswith('::can_exec'):
            X.arg_has('K10', 'exec:can_exec:caller-code', c, 1, ['C:Runtime::get_actor_code_cid', 'C:MessageInfo::caller'], 'permission is judged on the code of the immediate caller', narrow=False)
            X.arg_has('K10', 'exec:can_exec:requested-code', c, 2, ['F:ExecParams.code_cid'], 'permission is judged on the requested code')
    for c in ca:
        X.arg_has('K10', 'exec:create:code', c, 1, ['F:ExecParams.code_cid'], 'the created actor has the requested (permitted) code')
        X.arg_has('K10', 'exec:create:id', c, 2, ['C:Runtime::transaction'], 'the created actor gets the id allocated in the state transaction')
    X.call_guard('K6a', 'exec:id-allocated-first', EX, cab, lambda c: (c.defp or '') == RUNTIME + 'transaction' and any(
        prog.reaches(x, pred_call=callee_is('State::map_addresses_to_id')) for x in c.cl), 'transaction(map_addresses_to_id)?')
    exec_gates(prog, rep, X, T)
    E4 = X.fn('Actor::exec4', INIT)
    ca4 = [c for c in E4.calls if (c.defp or '') == RUNTIME + 'create_actor']
    existing_false = m_boolatoms(['C:Runtime::transaction'], False)
    X.guard('K6b', 'exec4:placeholder-only', E4, [c.bb for c in ca4],
            m_rel('ne', ['C:Runtime::get_actor_code_cid'], ['C:Runtime::get_code_cid_for_type'], False), 'existing && code != placeholder => Err', assume=[existing_false])
    for c in E4.calls:
        if (c.defp or '') == RUNTIME + 'get_code_cid_for_type':
            X.arg_has('K10', 'exec4:placeholder-type', c, 1, ['E:Type::Placeholder'], 'the only replaceable code is the placeholder', narrow=False)
        if (c.callee or '').endswith('Address::new_delegated'):
            X.arg_has('K10', 'exec4:namespace-is-caller', c, 0, ['C:MessageInfo::caller'], 'the delegated namespace is the calling address manager', narrow=False)
            X.arg_has('K10', 'exec4:subaddress', c, 1, ['F:Exec4Params.subaddress'], 'the delegated sub-address is the requested one', narrow=False)
    for c in ca4:
        X.arg_has('K10', 'exec4:create:delegated', c, 3, ['C:Address::new_delegated'], 'the actor is created under the computed delegated address', narrow=False)
        X.arg_has('K10', 'exec4:create:code', c, 1, ['F:Exec4Params.code_cid'], 'requested code')
    for (h, F) in (('exec', EX), ('exec4', E4)):
        snd = [c for c in F.calls if sendsmod.is_send(c)]
        rep.need('K5', '%s:constructor-send' % h, len(snd) == 1, 'one constructor send expected', X.loc(F))
        for c in snd:
            X.arg_has('K10', '%s:ctor:method' % h, c, 2, ['K:METHOD_CONSTRUCTOR'], 'constructor method')
            X.arg_has('K10', '%s:ctor:value' % h, c, 4, ['C:MessageInfo::value_received'], 'the endowment is forwarded')
            rep.need('K8', '%s:ctor:propagated' % h, result_fate(F, c) == 'try', 'a failing constructor aborts the creation', c.where)
            X.precedes('K7', '%s:create-before-construct' % h, F, [x.bb for x in F.calls if (x.defp or '') == RUNTIME + 'create_actor'], [c.bb], 'create_actor precedes the constructor call')
    # ---- EAM
    EAM = 'fil_actor_eam'
    CA = X.fn('create_actor', EAM)
    snd = [c for c in CA.calls if sendsmod.is_send(c)]
    rep.need('K5', 'eam:create_actor:sends', len(snd) == 2, 'Resurrect and Exec4 sends expected, found %d' % len(snd), X.loc(CA))
    X.guard('K6b', 'eam:reserved-address', CA, [c.bb for c in snd], m_pred('can_assign_address', ['P:3'], True), 'can_assign_address(new_addr)')
    CAA = X.fn('can_assign_address', EAM)
    tb = true_blocks(CAA)
    for pn in ('is_precompile', 'is_id', 'is_null'):
        # either a branch whose false arm is the only way to a true result, or the result itself is the negation of the test
        neg = False
        for b in CAA.blocks:
            for st in b['s']:
                if st[0] == '=' and st[1][0] == 0 and st[2][0] == 'un' and st[2][1] == 'Not' and has_atom(prog.slicer.operand(CAA, st[2][2]), 'C:EthAddress::' + pn):
                    neg = True
        if neg:
            rep.ob('K6b', 'eam:can_assign_address:%s' % pn, True, 'result is the negation of %s' % pn, X.loc(CAA))
        else:
            X.guard('K6b', 'eam:can_assign_address:%s' % pn, CAA, tb, m_pred('EthAddress::' + pn, [], False), '%s => not assignable' % pn, success_only=False)
    res = [c for c in snd if has_atom(prog.narrow.operand(CA, c.args[2]), 'K:RESURRECT_METHOD')]
    ex4 = [c for c in snd if has_atom(prog.narrow.operand(CA, c.args[2]), 'K:EXEC4_METHOD')]
    rep.need('K5', 'eam:send-kinds', len(res) == 1 and len(ex4) == 1, 'one Resurrect and one Exec4 send expected', X.loc(CA))
    payload = lambda val: (lambda c: (val if (c.kind == 'variant' and c.place[1] and has_atom(c.A, 'C:Runtime::resolve_builtin_actor_type') and val in c.arms) else None))
    X.guard('K6b', 'eam:resurrect-only-evm', CA, [c.bb for c in res], payload(T['EVM']), 'existing actor resolves to Type::EVM')
    X.guard('K6b', 'eam:deploy-only-over-placeholder', CA, [c.bb for c in ex4], payload(T['Placeholder']), 'existing actor resolves to Type::Placeholder',
            assume=[m_variant(['C:Runtime::resolve_address'], 0)])
    for c in res:
        X.arg_has('K10', 'eam:resurrect:target', c, 1, ['C:Runtime::resolve_address'], 'the resurrected actor is the one at the computed address')
        X.arg_has('K10', 'eam:resurrect:value', c, 4, ['C:MessageInfo::value_received'], 'value forwarded')
        rep.need('K8', 'eam:resurrect:propagated', result_fate(CA, c) == 'try', 'failure aborts', c.where)
    for c in ex4:
        X.arg_has('K10', 'eam:exec4:to-init', c, 1, ['K:INIT_ACTOR_ADDR'], 'Exec4 goes to the init actor')
        X.arg_has('K10', 'eam:exec4:value', c, 4, ['C:MessageInfo::value_received'], 'value forwarded')
        rep.need('K8', 'eam:exec4:propagated', result_fate(CA, c) == 'try', 'failure aborts', c.where)
    X.value_from('K10', 'eam:exec4:subaddress', CA, X.agg_field_atoms(CA, 'Exec4Params', 'subaddress', narrow=False), ['P:3'], 'the f4 sub-address is the computed eth address')
    X.value_from('K10', 'eam:exec4:code', CA, X.agg_field_atoms(CA, 'Exec4Params', 'code_cid', narrow=False), ['C:Runtime::get_code_cid_for_type', 'E:Type::EVM'], 'contracts are created with the EVM code')
    for c in CA.calls:
        if (c.callee or '').endswith('Address::new_delegated'):
            X.arg_has('K10', 'eam:f4-from-new-address', c, 1, ['P:3'], 'the looked-up f4 address is derived from the computed eth address', narrow=False)
            X.arg_has('K10', 'eam:f4-namespace', c, 0, ['K:EAM_ACTOR_ID'], 'namespace is the EAM id', narrow=False)
    # address derivation inputs
    for (h, fnname, pats) in (('create', 'compute_address_create', {1: ['C:resolve_eth_address'], 2: ['F:CreateParams.nonce']}),
                              ('create2', 'compute_address_create2', {1: ['C:resolve_eth_address'], 2: ['F:Create2Params.salt'], 3: ['F:Create2Params.initcode']})):
        H = X.fn('EamActor::' + h, EAM)
        cs = [c for c in H.calls if (c.callee or '').endswith('::' + fnname)]
        rep.need('K5', 'eam:%s:address-computed' % h, len(cs) == 1, 'one call of %s expected' % fnname, X.loc(H))
        for c in cs:
            for idx, p in pats.items():
                X.arg_has('K10', 'eam:%s:%s:arg%d' % (h, fnname, idx), c, idx, p, 'address derivation input', narrow=False)
        for c in H.calls:
            if (c.callee or '').endswith('::resolve_eth_address'):
                X.arg_has('K10', 'eam:%s:deployer-is-caller' % h, c, 1, ['C:MessageInfo::caller'], 'the deployer is the immediate caller', narrow=False)
            if (c.callee or '').endswith('::create_actor'):
                X.arg_has('K10', 'eam:%s:new-address' % h, c, 2, ['C:' + fnname], 'the created address is the computed one', narrow=False)
    CX = X.fn('compute_address_create_external', EAM)
    for c in CX.calls:
        if (c.callee or '').endswith('::compute_address_create'):
            X.arg_has('K10', 'eam:create_external:nonce', c, 2, ['C:MessageInfo::nonce'], 'external deployments use the message nonce', narrow=False)
    C1 = X.fn('compute_address_create', EAM)
    ap = [c for c in C1.calls if (c.callee or '').endswith('RlpStream::append')]
    rep.need('K10', 'eam:create-formula-shape', len(ap) == 2 and any(has_atom(prog.slicer.operand(C1, c.args[1]), 'P:2') for c in ap) and any(has_atom(prog.slicer.operand(C1, c.args[1]), 'P:3') for c in ap)
             and any((c.callee or '').endswith('::hash_20') for c in C1.calls),
             'CREATE address = hash_20(rlp([deployer, nonce]))', X.loc(C1))
    C2 = X.fn('compute_address_create2', EAM)
    h20 = [c for c in C2.calls if (c.callee or '').endswith('::hash_20')]
    rep.need('K10', 'eam:create2-formula-shape', len(h20) == 1 and has_all(prog.slicer.operand(C2, h20[0].args[1]), ['V:255', 'P:2', 'P:3', 'C:Primitives::hash', 'E:SupportedHashes::Keccak256', 'P:4', 'C:concat']),
             'CREATE2 address = hash_20(0xff ++ deployer ++ salt ++ keccak(initcode))', X.loc(C2))
    H20 = X.fn('hash_20', EAM)
    hs = [c for c in H20.calls if (c.defp or '').endswith('Primitives::hash') or (c.defp or '').endswith('::hash')]
    rep.need('K10', 'eam:hash_20', any(has_atom(prog.slicer.operand(H20, a), 'E:SupportedHashes::Keccak256') for c in hs for a in c.args) and
             has_all(prog.slicer.local(H20, 0), ['V:12', 'V:32']), 'hash_20 = keccak256(data)[12..32]', X.loc(H20))
    # ---- redeploying over an EVM actor: only a dead one (the EAM routes every collision with an EVM actor to Resurrect)
    RSF = X.fn("interpreter::system::System::<'r, RT>::resurrect", 'fil_actor_evm')
    X.guard('K6b', 'evm:resurrect-only-dead', RSF, [c.bb for c in RSF.calls if callee_is("interpreter::system::System::<'r, RT>::new")(c)], m_pred('is_dead', [], True), '!is_dead => Err')
    ID = X.fn('is_dead', 'fil_actor_evm')
    okd = any(any(callee_is('current_tombstone')(c) for c in g.calls) for g in prog.family(ID)) and any((c.callee or '').endswith('is_some_and') for c in ID.calls)
    rep.need('K6b', 'evm:is_dead-definition', okd, 'dead = has a tombstone and it is not the current message\'s', X.loc(ID))
    # ---- EVM nonce
    EVM = 'fil_actor_evm'
    CC = X.fn('interpreter::instructions::lifecycle::create_common', EVM)
    inc = [c.bb for c in CC.calls if callee_is("System::<'r, RT>::increment_nonce")(c)]
    eam_send = [c.bb for c in CC.calls if callee_is("System::<'r, RT>::send")(c)]
    X.precedes('K7', 'evm:nonce-before-create', CC, inc, eam_send, 'increment_nonce precedes the EAM send')
    X.guard('K6b', 'evm:no-nonce-bump-when-unaffordable', CC, inc, m_rel('gt', ['P:5'], ['C:Runtime::current_balance'], False), 'endowment > balance => return 0 before incrementing', success_only=False)
    X.writers('K4', 'System', 'nonce', ["interpreter::system::System::<'r, RT>::increment_nonce", "interpreter::system::System::<'r, RT>::reload"], crate=EVM,
              constructors=["interpreter::system::System::<'r, RT>::new", "interpreter::system::System::<'r, RT>::load"])
    IN = X.fn("interpreter::system::System::<'r, RT>::increment_nonce", EVM)
    X.value_from('K10', 'evm:nonce-only-grows', IN, X.stmt_rvalue_atoms(IN, 'System', 'nonce', narrow=False), ['F:System.nonce', 'C:checked_add', 'V:1'], 'nonce := nonce.checked_add(1)')
    CRT = X.fn('interpreter::instructions::lifecycle::create', EVM)
    X.value_from('K10', 'evm:create-uses-own-nonce', CRT, X.agg_field_atoms(CRT, 'CreateParams', 'nonce', narrow=False), ['F:System.nonce'], 'CREATE passes the contract nonce to the address manager')
    for c in CC.calls:
        if callee_is("System::<'r, RT>::send")(c):
            X.arg_has('K10', 'evm:create-goes-to-eam', c, 1, ['K:EAM_ACTOR_ADDR'], 'contract creation goes through the address manager')
    # ---- power is the only sender of Exec for miners
    execs = [s for s in sendsmod.all_sends(prog) if has_atom(s.method, 'K:EXEC_METHOD')]
    rep.need('K5', 'power:only-exec-sender', [s.c.fn.id for s in execs] == ['fil_actor_power::Actor::create_miner'], 'the only workspace sender of init.Exec is power.create_miner: %s' % [s.c.fn.id for s in execs])
    CM = X.fn('Actor::create_miner', 'fil_actor_power')
    X.value_from('K10', 'power:exec-miner-code', CM, X.agg_field_atoms(CM, 'ExecParams', 'code_cid', narrow=False), ['C:Runtime::get_code_cid_for_type', 'E:Type::Miner'], 'power execs the miner code')
    # ---- error discipline: no Result produced in these crates is silently discarded
    X.no_dropped_results('K14', 'results-not-discarded', ['fil_actor_init', 'fil_actor_eam', 'fil_actor_evm'], 'no Result of a call is discarded')
    X.tolerated_failures('K15', 'tolerated-failures', ['fil_actor_init', 'fil_actor_eam', 'fil_actor_evm'], 'tolerated failures are the reviewed ones')
    X.write_sites_preserved('K16', 'updates-present', 'fil_actor_init', ['State.next_id', 'State.address_map'], 'state updates do not disappear')
    X.write_sites_preserved('K16', 'updates-present', 'fil_actor_evm', ['System.nonce'], 'state updates do not disappear')



def exec_gates(prog, rep, X, T, prefix=''):
    """who may Exec which code (accept-any method gated by hand; also evaluated under C11)"""
    INIT = 'fil_actor_init'
    CE = X.fn('can_exec', INIT)
    cls = prog.closures_of(CE.id)
    rep.need('K6b', prefix + 'can_exec:closure', len(cls) == 1, 'can_exec decides in one closure', X.loc(CE))
    for cl in cls:
        tb = true_blocks(cl)
        sw = [c for c in conds(cl, prog.slicer) if c.kind == 'variant' and not c.place[1]]
        ok = False
        detail = 'no switch over the requested type'
        if sw:
            s = sw[0]
            allowed = {T['Multisig'], T['PaymentChannel'], T['Miner']}
            extra = [v for v in s.arms if v != 'otherwise' and v not in allowed and s.arms[v] != s.arms['otherwise']]
            r = cl.reach([0], removed=[(s.bb, s.arms[v]) for v in s.arms if v in allowed])
            ok = not (set(tb) & r) and not extra and allowed <= set(s.arms)
            detail = 'true must be returned only for Multisig, PaymentChannel and Miner (extra arms: %s)' % extra
            # Miner only if the caller is the power actor
            if ok:
                marm = s.arms[T['Miner']]
                pw = [c for c in conds(cl, prog.slicer) if c.kind == 'rel' and has_atom(c.A | c.B, 'E:Type::Power') and has_atom(c.A | c.B, 'C:Runtime::resolve_builtin_actor_type')]
                ok2 = False
                for c in pw:
                    t = match_rel(c, 'eq', [], [])
                    if t is None:
                        continue
                    r2 = cl.reach([marm], removed=[(c.bb, c.arms[t])])
                    if not (set(tb) & r2):
                        ok2 = True
                rep.need('K6b', prefix + 'can_exec:miner-only-by-power', ok2, 'the Miner arm must return true only when the caller resolves to Type::Power', X.loc(cl))
        rep.need('K6b', prefix + 'can_exec:allowed-types', ok, detail, X.loc(cl))
