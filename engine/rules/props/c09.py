"""C09 - DataCap is conserved and each allocation is spent exactly once."""
import re
from core import *
from rules import *
import sends as sendsmod

LEVEL = 'other'
LEVEL_TEXT = ('Structural necessary conditions over the MIR of the verified registry and DataCap token actors: each allocation-table mutation is paired '
              'with its token effect in the same handler with the same amount (claim -> burn of the summed claimed sizes, expiry -> transfer of the '
              'summed recovered sizes to the client, grant -> verifier allowance reduced by the granted amount and that amount minted, removal -> '
              'destroy); allocations are created only when the received token amount equals the summed request sizes; a claim is inserted only if '
              'absent and only for an allocation that can_claim_alloc accepts (all seven conjuncts present); mint/destroy are governor-only and '
              'transfers involve the governor. Supply equations over histories are not decided.')
TECHNIQUE = 'mutation-to-effect pairing with value-provenance slices (accumulators, tuple components), guard dominance, per-iteration filters, single-writer / single-caller sets over rustc MIR'
VR = 'fil_actor_verifreg'
DC = 'fil_actor_datacap'
TX = RUNTIME + 'transaction'
ST = 'state::State::'


def is_mm(c, name):
    cal = c.callee or ''
    return 'mapmap::MapMap' in cal and cal.endswith('::' + name)


RAW_RESPONSE = {
    ("fil_actor_datacap::<&SyscallProvider<'_, RT> as fvm_actor_utils::syscalls::Syscalls>::send", None): 'adapter handing the raw response to the frc46 token library (trusted), which checks the receiver hook\'s exit code',
}


def token_send(prog, f, method_name):
    madt = prog.adts.get('fil_actor_verifreg::ext::datacap::Method')
    num = [v['discr'] for v in madt['variants'] if v['name'] == method_name][0] if madt else None
    return [c for c in f.calls if sendsmod.is_send(c) and has_atom(prog.narrow.operand(f, c.args[1]), 'K:DATACAP_TOKEN_ACTOR_ADDR') and
            (has_atom(prog.narrow.operand(f, c.args[2]), 'V:%s' % num) or has_atom(prog.narrow.operand(f, c.args[2]), 'E:Method::%s' % method_name))]


def run(prog, rep, tier, cfg):
    X = Ctx(prog, rep)
    rep.explanation = LEVEL_TEXT
    rep.not_decided = 'supply = sum of balances = minted - burnt over histories (token library frc46_token is trusted)'
    # ---- every send of the registry and the token actor inspects the callee's exit code (a token call that aborted must abort the caller)
    nx = sendsmod.exit_code_rule(X, rep, sendsmod.all_sends(prog, crates=(VR, DC)), RAW_RESPONSE)
    rep.floor('K8', 'send_sites_exit_code', nx, 7)
    # ---- token helper functions: right method, amount = the argument, error propagated
    for fn_, meth, amt_idx, extra in (('mint', 'Mint', 3, {'to': 2}), ('burn', 'Burn', 2, {}), ('destroy', 'Destroy', 3, {'owner': 2}), ('transfer', 'Transfer', 3, {'to': 2})):
        F = X.fn(fn_, VR)
        ss = token_send(prog, F, meth)
        rep.need('K5', 'token:%s:send' % fn_, len(ss) == 1 and result_fate(F, ss[0]) == 'try', 'verifreg::%s sends datacap.%s once with failure propagated (found %d)' % (fn_, meth, len(ss)), X.loc(F))
        for c in ss:
            X.arg_has('K10', 'token:%s:amount' % fn_, c, 3, ['P:%d' % amt_idx, 'C:datacap_to_tokens'], 'the token amount is the requested datacap converted to tokens', narrow=False)
            for nm, pi in extra.items():
                X.arg_has('K10', 'token:%s:%s' % (fn_, nm), c, 3, ['P:%d' % pi], 'the %s is the requested one' % nm, narrow=False)
            X.arg_has('K10', 'token:%s:no-fil' % fn_, c, 4, ['C:zero'], 'no FIL is attached')
        if fn_ in ('burn', 'destroy'):
            zs = [c for c in conds(F, prog.slicer) if c.kind == 'pred' and isinstance(c.pred, str) and c.pred.endswith('is_zero')]
            rep.need('K6b', 'token:%s:skips-only-zero' % fn_, len(zs) == 1 and len([c for c in conds(F, prog.slicer) if c.kind in ('pred', 'rel')]) == 1, 'the only skipped amount is zero', X.loc(F))
    D2T = X.fn('datacap_to_tokens', VR)
    T2D = X.fn('tokens_to_datacap', VR)
    rep.need('K10', 'token:conversion', has_all(prog.slicer.local(D2T, 0), ['P:1', 'K:TOKEN_PRECISION']) and has_all(prog.slicer.local(T2D, 0), ['P:1', 'K:TOKEN_PRECISION']),
             'datacap <-> token conversion uses TOKEN_PRECISION both ways', X.loc(D2T))
    # ---- claim -> burn
    CA = X.fn('Actor::claim_allocations', VR)
    cl = [g for g in prog.closures_of(CA.id, recursive=False) if any(is_mm(c, 'remove') for c in g.calls)]
    rep.need('K6', 'claim:closure', len(cl) == 1, 'one closure removing allocations expected', X.loc(CA))
    burns = [c for c in CA.calls if callee_is('burn')(c) and c.fn.crate == VR]
    rep.need('K5', 'claim:burn-site', len(burns) == 1 and result_fate(CA, burns[0]) == 'try', 'one burn(..)? after the claim transaction', X.loc(CA))
    for b in burns:
        X.arg_has('K10', 'claim:burn-amount', b, 1, ['F:Claim.size'], 'the amount burnt derives from the sizes of the claims written', narrow=False, forbid=['F:AllocationClaim.size'])
        txs = [c.bb for c in CA.calls if (c.defp or '') == TX]
        X.followed_by('K7', 'claim:burn-on-every-success-path', CA, txs, [b.bb], 'every successful ClaimAllocations burns the claimed datacap')
    for g in cl:
        rm = [c for c in g.calls if is_mm(c, 'remove')]
        pia = [c for c in g.calls if is_mm(c, 'put_if_absent')]
        rep.need('K5', 'claim:sites', len(rm) == 1 and len(pia) == 1 and result_fate(g, rm[0]) == 'try' and result_fate(g, pia[0]) == 'try', 'one put_if_absent and one remove, both propagated', X.loc(g))
        if rm and pia:
            X.iter_guard('K6b', 'claim:inserted-only-if-absent', g, [rm[0].bb], m_boolatoms(['C:::put_if_absent'], True), '!inserted => Err')
            X.precedes('K7', 'claim:insert-before-remove', g, [pia[0].bb], [rm[0].bb], 'the claim is written before the allocation is removed')
            X.arg_has('K10', 'claim:claim-under-provider', pia[0], 1, ['C:MessageInfo::caller'], 'the claim is recorded under the calling provider', narrow=False)
            pushes = sorted({bb for (bb, _a) in X.agg_field_atoms(g, 'Claim', 'provider')})
            rep.need('K5', 'claim:new-claim-site', len(pushes) == 1, 'one construction of the new claim expected', X.loc(g))
            X.iter_guard('K6b', 'claim:can_claim_alloc', g, pushes, m_pred('can_claim_alloc', [], True), '!can_claim_alloc => fail the sector')
            X.iter_guard('K6b', 'claim:allocation-exists', g, pushes, m_variant(['C:state::get_allocation'], 1), 'no such allocation => fail the sector')
            X.accumulates('K10', 'claim:sector-space-summed', g, ['F:Claim.size'], 'sector_claimed_space += size of each new claim')
            X.accumulates('K10', 'claim:total-space-summed', g, ['F:Claim.size'], 'total_claimed_space += sector space', min_sites=2)
            for fld, src in (('client', 'F:Allocation.client'), ('data', 'F:Allocation.data'), ('size', 'F:Allocation.size'), ('term_min', 'F:Allocation.term_min'), ('term_max', 'F:Allocation.term_max'),
                             ('term_start', 'C:Runtime::curr_epoch'), ('provider', 'C:MessageInfo::caller'), ('sector', 'F:SectorAllocationClaims.sector')):
                X.value_from('K10', 'claim:new-claim.%s' % fld, g, X.agg_field_atoms(g, 'Claim', fld, narrow=False), [src], 'Claim.%s comes from %s' % (fld, src))
        for c in g.calls:
            if callee_is('can_claim_alloc')(c):
                X.arg_has('K10', 'claim:can_claim:provider', c, 1, ['C:MessageInfo::caller'], 'judged for the calling provider', narrow=False)
                X.arg_has('K10', 'claim:can_claim:epoch', c, 3, ['C:Runtime::curr_epoch'], 'at the current epoch', narrow=False)
                X.arg_has('K10', 'claim:can_claim:expiry', c, 4, ['F:SectorAllocationClaims.expiry'], 'against the sector expiry', narrow=False)
        for name in ('save_allocs', 'save_claims'):
            cs = [c for c in g.calls if callee_is(ST + name)(c)]
            rep.need('K7', 'claim:%s' % name, len(cs) == 1 and result_fate(g, cs[0]) == 'try' and not g.ok_returns_from([0], blocked={cs[0].bb}), 'tables are saved on success (%s)' % name, X.loc(g))
    CC = X.fn('can_claim_alloc', VR)
    need = [('eq', ['P:2'], ['F:Allocation.provider']), ('eq', ['F:AllocationClaim.client'], ['F:Allocation.client']), ('eq', ['F:AllocationClaim.data'], ['F:Allocation.data']),
            ('eq', ['F:AllocationClaim.size'], ['F:Allocation.size']), ('le', ['P:4'], ['F:Allocation.expiration']), ('ge', ['P:5', 'P:4', 'OP:Sub'], ['F:Allocation.term_min']),
            ('le', ['P:5', 'P:4', 'OP:Sub'], ['F:Allocation.term_max'])]
    from props.c20 import true_blocks
    tb = true_blocks(CC)
    for i, (rel, a, b) in enumerate(need):
        cs = X.find_conds(CC, m_rel(rel, a, b, True))
        last = X.has_bin(CC, {'eq': 'Eq', 'le': 'Le', 'ge': 'Ge'}[rel], a, b) if not cs else False
        okc = False
        for (c, arm) in cs:
            r = CC.reach([0], removed=[X.edge(c, arm)])
            non_false = [t for t in tb if t in r]
            okc = okc or not non_false
        if not (okc or last) and b[0] in ('F:Allocation.term_min', 'F:Allocation.term_max'):
            # both term bounds at once: `(term_min..=term_max).contains(&lifetime)` as the result (or as a tested condition)
            for q in CC.calls:
                if re.search(r'RangeInclusive<[^>]*>::contains$|RangeInclusive::<[^>]*>::contains$|range::RangeInclusive.*::contains$', q.callee or ''):
                    ra, xa = prog.slicer.operand(CC, q.args[0]), prog.slicer.operand(CC, q.args[1])
                    if has_all(ra, ['F:Allocation.term_min', 'F:Allocation.term_max']) and has_all(xa, ['P:5', 'P:4']) and not has_atom(xa, 'F:Allocation.term_min'):
                        last = True
        rep.need('K6b', 'can_claim_alloc:conjunct#%d:%s' % (i, b[0].split('.')[-1]), okc or last, 'a true result requires %s %s %s' % (a, rel, b), X.loc(CC))
    # ---- expiry -> refund
    RE = X.fn('Actor::remove_expired_allocations', VR)
    tr = [c for c in RE.calls if callee_is('transfer')(c) and c.fn.crate == VR]
    rep.need('K5', 'expire:transfer-site', len(tr) == 1 and result_fate(RE, tr[0]) == 'try', 'one transfer(..)? back to the client', X.loc(RE))
    for c in tr:
        X.arg_has('K10', 'expire:refund-to-client', c, 1, ['F:RemoveExpiredAllocationsParams.client'], 'refunded to the allocations\' client', narrow=False)
        X.arg_has('K10', 'expire:refund-amount', c, 2, ['F:Allocation.size'], 'the refund is the summed size of removed allocations', narrow=False)
        X.followed_by('K7', 'expire:refund-on-every-success-path', RE, [q.bb for q in RE.calls if (q.defp or '') == TX], [c.bb], 'every successful removal refunds')
    for g in prog.closures_of(RE.id, recursive=False):
        rm = [c for c in g.calls if is_mm(c, 'remove')]
        if not rm:
            continue
        X.accumulates('K10', 'expire:recovered-summed', g, ['F:Allocation.size'], 'recovered_datacap += size of each removed allocation')
        X.arg_has('K10', 'expire:removes-clients-own', rm[0], 1, ['F:RemoveExpiredAllocationsParams.client'], 'allocations are removed from the named client only', narrow=False)
        X.arg_has('K10', 'expire:only-expired-ids', rm[0], 2, ['C:expiration::find_expired', 'C:BatchReturn::successes'], 'only ids found or checked expired are removed', narrow=False)
        sv = [c for c in g.calls if callee_is(ST + 'save_allocs')(c)]
        rep.need('K7', 'expire:saved', len(sv) == 1 and result_fate(g, sv[0]) == 'try' and not g.ok_returns_from([0], blocked={sv[0].bb}), 'table saved on success', X.loc(g))
        for c in g.calls:
            if callee_is('expiration::check_expired')(c) or callee_is('expiration::find_expired')(c):
                ei = 3 if callee_is('expiration::check_expired')(c) else 2
                X.arg_has('K10', 'expire:%s:epoch' % (c.callee.split('::')[-1]), c, ei, ['C:Runtime::curr_epoch'], 'expiry judged at the current epoch', narrow=False)
    for fn_ in ('find_expired', 'check_expired'):
        F = X.fn('expiration::' + fn_, VR)
        okx = any(match_rel(c, 'ge', ['P:3' if fn_ == 'find_expired' else 'P:4'], ['C:Expires::expiration']) is not None or
                  match_rel(c, 'ge', [], ['C:Expires::expiration']) is not None for g in prog.family(F) for c in conds(g, prog.slicer))
        rep.need('K6b', 'expiration::%s:test' % fn_, okx, 'expired means curr_epoch >= record.expiration()', X.loc(F))
    for imp, pats in (('Allocation', ['F:Allocation.expiration']), ('Claim', ['F:Claim.term_start', 'F:Claim.term_max', 'OP:Add'])):
        fs = [f for k, f in prog.fns.items() if k.endswith('expiration::Expires>::expiration') and imp in k and f.crate == VR]
        rep.need('K10', 'expiration:%s' % imp, len(fs) == 1 and has_all(prog.slicer.local(fs[0], 0), pats), 'expiration of a %s derives from %s' % (imp, pats), X.loc(fs[0]) if fs else None)
    # ---- grant -> allowance reduced + mint
    AV = X.fn('Actor::add_verified_client', VR)
    mt = [c for c in AV.calls if callee_is('mint')(c) and c.fn.crate == VR]
    rep.need('K5', 'grant:mint-site', len(mt) == 1 and result_fate(AV, mt[0]) == 'try', 'one mint(..)? for the client', X.loc(AV))
    for c in mt:
        X.arg_has('K10', 'grant:mint-amount', c, 2, ['F:VerifierParams.allowance'], 'minted amount is the granted allowance', narrow=False)
        X.arg_has('K10', 'grant:mint-to-client', c, 1, ['F:VerifierParams.address', 'C:resolve_to_actor_id'], 'minted to the resolved client', narrow=False)
        X.followed_by('K7', 'grant:mint-on-every-success-path', AV, [q.bb for q in AV.calls if (q.defp or '') == TX], [c.bb], 'every successful grant mints')
    for g in prog.closures_of(AV.id, recursive=False):
        pv = [c for c in g.calls if callee_is(ST + 'put_verifier')(c)]
        if not pv:
            continue
        rets = g.ret_blocks()
        X.call_guard('K6a', 'grant:caller-is-verifier', g, [pv[0].bb], lambda c: (c.callee or '').endswith('Option::<T>::ok_or_else') and has_all(prog.slicer.operand(g, c.args[0]), ['C:State::get_verifier_cap', 'C:MessageInfo::caller']),
                     'get_verifier_cap(caller)?.ok_or_else(not a verifier)?')
        X.guard('K6b', 'grant:within-allowance', g, [pv[0].bb], m_rel('lt', ['C:State::get_verifier_cap'], ['F:VerifierParams.allowance'], False), 'verifier_cap < allowance => Err')
        X.arg_has('K10', 'grant:new-cap', pv[0], 3, ['C:State::get_verifier_cap', 'F:VerifierParams.allowance', 'C:::sub'], 'new cap = cap - allowance', narrow=False)
        X.arg_has('K10', 'grant:cap-of-caller', pv[0], 2, ['C:MessageInfo::caller'], 'the caller\'s own cap is reduced', narrow=False)
        rep.need('K8', 'grant:cap-stored', result_fate(g, pv[0]) == 'try' and not g.ok_returns_from([0], blocked={pv[0].bb}), 'the reduced cap is stored on every success path', pv[0].where)
        X.guard('K6b', 'grant:client-not-root', g, [pv[0].bb], m_rel('eq', [], ['F:State.root_key'], False), 'root cannot be a client')
        X.guard('K6b', 'grant:client-not-verifier', g, [pv[0].bb], m_pred('is_some', ['C:State::get_verifier_cap'], False), 'a verifier cannot be a client')
    X.guard('K6b', 'grant:minimum-size', AV, [q.bb for q in AV.calls if (q.defp or '') == TX], m_rel('lt', ['F:VerifierParams.allowance'], ['F:Policy.minimum_verified_allocation_size'], False), 'allowance below minimum => Err')
    # ---- removal -> destroy
    RM = X.fn('Actor::remove_verified_client_data_cap', VR)
    X.must_reach('K3', 'remove-datacap:destroys', RM, lambda c: callee_is('destroy')(c) and c.fn.crate == VR, 'verifreg::destroy')
    for c in RM.calls:
        if callee_is('destroy')(c):
            rep.need('K8', 'remove-datacap:destroy-propagated', result_fate(RM, c) in ('try', 'returned'), 'destroy failure aborts', c.where)
            X.arg_has('K10', 'remove-datacap:owner', c, 1, ['F:RemoveDataCapParams.verified_client_to_remove'], 'destroyed from the named client', narrow=False)
    # ---- receiver hook: allocations only for matching token amount
    UH = X.fn('Actor::universal_receiver_hook', VR)
    txs = [c.bb for c in UH.calls if (c.defp or '') == TX]
    X.guard('K6b', 'hook:amount-matches-requests', UH, txs, m_rel('ne', ['F:AllocationRequest.size', 'F:Claim.size'], ['C:tokens_to_datacap', 'F:FRC46TokenReceived.amount'], False),
            'sum of request sizes != tokens received => Err')
    X.accumulates('K10', 'hook:request-sizes-summed', UH, ['F:AllocationRequest.size'], 'datacap_total += size of each allocation request')
    X.accumulates('K10', 'hook:extension-sizes-summed', UH, ['F:Claim.size'], 'the burnt extension total += size of each extended claim', min_sites=1)
    bn = [c for c in UH.calls if callee_is('burn')(c)]
    rep.need('K5', 'hook:extension-burn', len(bn) == 1 and result_fate(UH, bn[0]) == 'try', 'tokens spent on extensions are burnt', X.loc(UH))
    for c in bn:
        X.arg_has('K10', 'hook:burns-extension-total', c, 1, ['F:Claim.size'], 'burn = sizes of extended claims', narrow=False, forbid=['F:AllocationRequest.size'])
    for c in UH.calls:
        if callee_is('validate_tokens_received')(c):
            rep.need('K8', 'hook:payload-validated', result_fate(UH, c) == 'try', 'payload validation propagated', c.where)
    for g in prog.closures_of(UH.id, recursive=False):
        ia = [c for c in g.calls if callee_is(ST + 'insert_allocations')(c)]
        if ia:
            X.arg_has('K10', 'hook:allocations-for-sender', ia[0], 2, ['F:FRC46TokenReceived.from'], 'allocations are created for the token sender', narrow=False)
            rep.need('K8', 'hook:insert-propagated', result_fate(g, ia[0]) == 'try', 'propagated', ia[0].where)
    VT = X.fn('validate_tokens_received', VR)
    X.guard('K6b', 'hook:tokens-are-for-us', VT, VT.ret_blocks(), m_rel('ne', ['F:FRC46TokenReceived.to'], ['P:2'], False), 'token receiver != this actor => Err')
    X.writers('K4', 'State', 'next_allocation_id', [ST + 'insert_allocations'], crate=VR, constructors=[ST + 'new'])
    IA = X.fn(ST + 'insert_allocations', VR)
    wn = X.stmt_rvalue_atoms(IA, 'State', 'next_allocation_id', narrow=False)
    rep.need('K10', 'alloc-id:only-grows', bool(wn) and all(has_atom(a, 'F:State.next_allocation_id') and (has_atom(a, 'OP:Add') or has_atom(a, 'C:::add')) and not has_atom(a, 'OP:Sub') for (_b, a) in wn) or
             any((c.defp or '').endswith('AddAssign::add_assign') and X.updates_field(c, 'State', 'next_allocation_id') for c in IA.calls), 'allocation ids come from a counter that only grows', X.loc(IA))
    # ---- datacap token actor
    for hn, pats, what in (('Actor::transfer', None, 'to == governor || from == governor'), ('Actor::transfer_from', None, 'to == governor')):
        H = X.fn(hn, DC)
        key = hn.split('::')[-1]
        for g in prog.closures_of(H.id, recursive=False):
            tk = [c for c in g.calls if (c.callee or '').endswith('Token::<S, BS>::%s' % key) or (c.callee or '').endswith('::' + key) and 'Token' in (c.callee or '')]
            if not tk:
                continue
            if key == 'transfer':
                # a disjunction: the transfer is reachable only if from (= caller) == governor or to (resolved) == governor - stated
                # over both comparisons at once, whether they are materialised in one bool (`allowed`) or tested one after the other
                X.guard_any('K6b', 'datacap:transfer:governor-involved', g, [tk[0].bb],
                            [m_rel('eq', ['C:MessageInfo::caller'], ['F:State.governor'], True, a_forbid=['F:TransferParams.to']),
                             m_rel('eq', ['C:Runtime::resolve_address', 'F:TransferParams.to'], ['F:State.governor'], True)], what)
                X.arg_has('K10', 'datacap:transfer:from-is-caller', tk[0], 1, ['C:MessageInfo::caller'], 'tokens leave the caller\'s own balance', narrow=False)
            else:
                X.guard('K6b', 'datacap:transfer_from:to-governor', g, [tk[0].bb], m_rel('eq', ['C:Runtime::resolve_address'], ['F:State.governor'], True), what)
                X.arg_has('K10', 'datacap:transfer_from:operator-is-caller', tk[0], 1, ['C:MessageInfo::caller'], 'the spending operator is the caller', narrow=False)
    from props import c11
    import json
    matrix = json.load(open(c11.TABLE))['matrix']
    for m in ('MintExported', 'DestroyExported'):
        row = matrix.get('datacap.' + m)
        rep.need('K2-ref', 'datacap:%s:governor-only' % m, bool(row) and row['sites'] == [{'kind': 'is', 'atoms': ['F:State.governor']}], 'designated Is[State.governor] in the C11 matrix')
    X.writers('K4', 'State', 'governor', [], crate=DC, constructors=['state::State::new', 'Actor::constructor'])
    verifier_gate(prog, rep, X)
    # ---- running totals (amounts, power, datacap) accumulated in loops keep their earlier contributions
    X.accumulator_integrity('K12', 'running-totals', ['fil_actor_verifreg', 'fil_actor_datacap'], 'running totals of amounts')
    X.no_dropped_results('K14', 'results-not-discarded', ['fil_actor_verifreg', 'fil_actor_datacap'], 'no Result of a call is discarded')
    X.tolerated_failures('K15', 'tolerated-failures', ['fil_actor_verifreg', 'fil_actor_datacap'], 'tolerated failures are the reviewed ones')
    X.write_sites_preserved('K16', 'updates-present', 'fil_actor_verifreg', ['State.verifiers', 'State.allocations', 'State.claims', 'State.next_allocation_id', 'State.remove_data_cap_proposal_ids'], 'state updates do not disappear')



def verifier_gate(prog, rep, X, prefix=''):
    """who may grant datacap (accept-any method gated by hand; also evaluated under C11)"""
    AV = X.fn('Actor::add_verified_client', VR)
    for g in prog.closures_of(AV.id, recursive=False):
        pv = [c for c in g.calls if callee_is(ST + 'put_verifier')(c)]
        if pv:
            X.call_guard('K6a', prefix + 'grant:caller-has-verifier-entry', g, g.ret_blocks(), lambda c: (c.callee or '').endswith('Option::<T>::ok_or_else') and has_all(prog.slicer.operand(g, c.args[0]), ['C:State::get_verifier_cap', 'C:MessageInfo::caller']),
                         'get_verifier_cap(caller)?.ok_or_else(not a verifier)?')
