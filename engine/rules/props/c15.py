"""C15 - faults and early terminations are always paid for."""
from core import *
from rules import *
from rules import loop_blocks
import provtable
from props.provspecs import SPECS
import sends as sendsmod

LEVEL = 'other'
LEVEL_TEXT = ('Structural necessary conditions over the miner actor\'s MIR: fee debt has three writers, grows only by a non-negative penalty and shrinks '
              'only by an amount that the same handler burns (component 0 of the repayment result reaches burn_funds on every success path); every '
              'penalty formula result reaches apply_penalty; the debt gate precedes success in pre-commit, recovery declaration, NI commit and withdraw; '
              'a reporter reward is min(burn, target) taken out of the burn, and a tolerated failed reward transfer must fall back into the burn. Fee '
              'magnitudes (2 %, caps) are arithmetic and not decided.')
TECHNIQUE = 'value-provenance slices (tuple-component aware) from ledger mutation to burn send, single-writer / single-caller sets, guard dominance and followed-by over rustc MIR'
CR = 'fil_actor_miner'
TX = RUNTIME + 'transaction'
RPD = 'State::repay_partial_debt_in_priority_order'

RPD_CALLERS = ['Actor::apply_rewards', 'Actor::dispute_windowed_post', 'Actor::report_consensus_fault', 'Actor::repay_debt',
               'handle_proving_deadline', 'process_early_terminations']
RDA_CALLERS = ['Actor::pre_commit_sector_batch_inner', 'Actor::prove_commit_sectors_ni', 'Actor::declare_faults_recovered', 'Actor::withdraw_balance']

FORMULAS = {
    # formula -> functions allowed to call it; those marked True must feed apply_penalty
    # in process_early_terminations the fault fee is an input of the termination fee, which is what gets charged
    'monies::pledge_penalty_for_continued_fault': {'handle_proving_deadline': True, 'process_early_terminations': False, 'Actor::max_termination_fee': False},
    'monies::pledge_penalty_for_termination': {'process_early_terminations': True, 'Actor::max_termination_fee': False},
    'monies::pledge_penalty_for_invalid_windowpost': {'Actor::dispute_windowed_post': True},
    'monies::consensus_fault_penalty': {'Actor::report_consensus_fault': True},
    'policy::daily_proof_fee_payable': {'handle_proving_deadline': True},
}


def outer(prog, f):
    while f.kind == 'closure' and f.parent in prog.fns:
        f = prog.fns[f.parent]
    return f


def run(prog, rep, tier, cfg):
    X = Ctx(prog, rep)
    rep.explanation = LEVEL_TEXT
    rep.not_decided = 'fee formulas and their magnitudes; per-deadline accounting over histories'
    # ---- A. fee_debt discipline
    X.writers('K4', 'State', 'fee_debt', ['state::State::apply_penalty', 'state::' + RPD, 'state::State::repay_debts'], crate=CR, constructors=['state::State::new'])
    AP = X.fn('state::State::apply_penalty', CR)
    adds = [c for c in AP.calls if (c.defp or '').endswith('AddAssign::add_assign')]
    rep.need('K6b', 'apply_penalty:add-site', len(adds) == 1, 'apply_penalty must add the penalty to fee_debt (found %d += sites)' % len(adds), X.loc(AP))
    X.guard('K6b', 'apply_penalty:non-negative', AP, [c.bb for c in adds], m_pred('is_negative', ['P:2'], False), 'penalty.is_negative() => Err')
    for c in adds:
        X.arg_has('K10', 'apply_penalty:adds-the-penalty', c, 1, ['P:2'], 'fee_debt += penalty', narrow=False)
        X.arg_has('K10', 'apply_penalty:into-fee_debt', c, 0, ['F:State.fee_debt'], 'the penalty is added to fee_debt', narrow=False)
    R = X.fn('state::' + RPD, CR)
    subs = [c for c in R.calls if (c.defp or '').endswith('SubAssign::sub_assign') and X.updates_field(c, 'State', 'fee_debt')]
    rep.need('K10', 'repay_partial:debt-decrease-site', len(subs) == 1, 'one `fee_debt -= to_burn` expected, found %d' % len(subs), X.loc(R))
    for c in subs:
        X.arg_has('K10', 'repay_partial:decrease-is-min(unlocked,debt)', c, 1, ['C:core::cmp::min', 'C:State::get_unlocked_balance', 'F:State.fee_debt'], 'fee_debt decreases by min(unlocked balance, fee_debt)')
    repay_partial_results(prog, rep, X)
    for c in R.calls:
        if callee_is('State::get_unlocked_balance')(c):
            X.arg_has('K10', 'repay_partial:balance-arg', c, 1, ['P:4'], 'unlocked balance computed from the current balance argument', narrow=False)
    RD = X.fn('state::State::repay_debts', CR)
    X.guard('K6b', 'repay_debts:affordable', RD, RD.ret_blocks(), m_rel('lt', ['C:State::get_unlocked_balance'], ['F:State.fee_debt'], False, pure=True), 'unlocked < fee_debt => Err')
    rep.need('K10', 'repay_debts:returns-whole-debt', has_all(prog.slicer.local(RD, 0), ['F:State.fee_debt', 'C:core::mem::take']), 'repay_debts returns (and clears) the whole fee debt', X.loc(RD))
    RDA = X.fn('repay_debts_or_abort', CR)
    for c in RDA.calls:
        if callee_is('State::repay_debts')(c):
            X.arg_has('K10', 'repay_debts_or_abort:current-balance', c, 1, ['C:Runtime::current_balance'], 'debts are repaid against the current balance')
            rep.need('K8', 'repay_debts_or_abort:propagated', result_fate(RDA, c) == 'try', 'failure to repay aborts', c.where)
    # ---- B. every debt decrease is burnt by the handler that caused it
    X.callers('K5', RPD, callee_is(RPD), RPD_CALLERS, crates=[CR])
    X.callers('K5', 'repay_debts_or_abort', callee_is('repay_debts_or_abort'), RDA_CALLERS, crates=[CR])
    X.callers('K5', 'State::repay_debts', callee_is('State::repay_debts'), ['repay_debts_or_abort'], crates=[CR])
    BF = X.fn('burn_funds', CR)
    bs = [c for c in BF.calls if sendsmod.is_send(c)]
    rep.need('K5', 'burn_funds:send', len(bs) == 1, 'burn_funds sends once', X.loc(BF))
    for c in bs:
        X.arg_has('K10', 'burn_funds:to-burnt-funds', c, 1, ['K:BURNT_FUNDS_ACTOR_ADDR'], 'burnt funds go to the burnt-funds actor')
        X.arg_has('K10', 'burn_funds:amount', c, 4, ['P:2'], 'the burnt value is the requested amount')
        rep.need('K8', 'burn_funds:propagated', result_fate(BF, c) == 'try', 'a failed burn aborts', c.where)
    X.guard('K6b', 'burn_funds:only-skip-zero', BF, [c.bb for c in bs], m_pred('is_positive', ['P:2'], True), 'amount.is_positive()')
    pos = X.find_conds(BF, m_pred('is_positive', ['P:2'], True))
    rep.need('K6b', 'burn_funds:no-other-skip', len(conds(BF, prog.slicer)) - len([c for c in conds(BF, prog.slicer) if c.kind == 'variant']) == len(pos) or len(pos) == 1,
             'burn_funds must not skip positive amounts', X.loc(BF))
    for (callers, src, what) in ((RPD_CALLERS, 'T:' + RPD + '.0', 'repay_partial_debt_in_priority_order'), (RDA_CALLERS, 'C:repay_debts_or_abort', 'repay_debts_or_abort')):
        for hn in callers:
            H = X.try_fn('K7', hn, CR)
            if H is None:
                continue
            burns = [c for c in H.calls if callee_is('burn_funds')(c) and has_atom(prog.narrow.operand(H, c.args[1]), src)]
            key = hn.split('::')[-1]
            rep.need('K10', 'burn-what-was-repaid:%s' % key, len(burns) >= 1,
                     '%s takes an amount off fee_debt (%s) and must pass exactly that amount to burn_funds' % (hn, what), X.loc(H),
                     {'rule': 'K10', 'handler': hn, 'source': src, 'burn_sites': [c.where for c in burns]})
            for b in burns:
                rep.need('K8', 'burn-propagated:%s' % key, result_fate(H, b) == 'try', 'burn failure must abort', b.where)
            # after the state transaction that repays, every success path burns
            txs = [c.bb for c in H.calls if (c.defp or '') == TX and any(prog.reaches(x, pred_call=lambda q: callee_is(RPD)(q) or callee_is('repay_debts_or_abort')(q)) for x in c.cl)]
            if txs and burns:
                assume = []
                if key == 'process_early_terminations':
                    # "nothing popped" early return: sound only if on that arm the closure cannot have repaid anything
                    EMPTY = m_pred('is_empty', ['C:State::pop_early_terminations'], True)
                    assume = [EMPTY]
                    for g in prog.closures_of(H.id, recursive=False):
                        for (cc, arm) in X.find_conds(g, EMPTY):
                            r = g.reach([cc.arms[arm]])
                            rep.need('K7', 'early-return-repays-nothing:%s' % key, not any(q.bb in r for q in g.calls if callee_is(RPD)(q) or callee_is('State::apply_penalty')(q)),
                                     'on the nothing-to-do arm neither a penalty is applied nor debt repaid', X.loc(g, cc.bb))
                X.followed_by('K7', 'burn-on-every-success-path:%s' % key, H, txs, [b.bb for b in burns], 'the repaid amount is burnt on every success path', assume=assume)
    # ---- C. penalties reach apply_penalty
    X.callers('K5', 'State::apply_penalty', callee_is('State::apply_penalty'),
              ['Actor::apply_rewards', 'Actor::dispute_windowed_post', 'Actor::report_consensus_fault', 'handle_proving_deadline', 'process_early_terminations'], crates=[CR])
    for formula, users in FORMULAS.items():
        allowed = list(users.keys())
        sites = X.callers('K5', formula, callee_is(formula), allowed, crates=[CR])
        for hn, must in users.items():
            if not must:
                continue
            H = X.try_fn('K10', hn, CR)
            if H is None:
                continue
            fam = prog.family(H)
            aps = [(g, c) for g in fam for c in g.calls if callee_is('State::apply_penalty')(c)]
            fed = [(g, c) for (g, c) in aps if has_atom(prog.narrow.operand(g, c.args[1]), 'C:' + formula)]
            rep.need('K10', 'penalty-charged:%s:%s' % (formula.split('::')[-1], hn.split('::')[-1]), bool(fed),
                     'the result of %s must be passed to State::apply_penalty in %s' % (formula, hn), X.loc(H))
            for (g, c) in fed:
                rep.need('K8', 'penalty-charge-propagated:%s:%s' % (formula.split('::')[-1], hn.split('::')[-1]), result_fate(g, c) == 'try', 'apply_penalty failure aborts', c.where)
    HP = X.fn('handle_proving_deadline', CR)
    fed = [(g, c) for g in prog.family(HP) for c in g.calls if callee_is('State::apply_penalty')(c) and has_atom(prog.narrow.operand(g, c.args[1]), 'C:State::cleanup_expired_pre_commits')]
    rep.need('K10', 'penalty-charged:expired-precommit-deposit', bool(fed), 'deposits of expired pre-commits must be charged through apply_penalty', X.loc(HP))
    AR = X.fn('Actor::apply_rewards', CR)
    fed = [(g, c) for g in prog.family(AR) for c in g.calls if callee_is('State::apply_penalty')(c) and has_atom(prog.narrow.operand(g, c.args[1]), 'F:ApplyRewardParams.penalty')]
    rep.need('K10', 'penalty-charged:block-penalty', bool(fed), 'the block penalty passed with ApplyRewards must be charged', X.loc(AR))
    # the penalty is applied before the repayment in every handler (otherwise nothing is taken)
    for hn in ('Actor::apply_rewards', 'Actor::dispute_windowed_post', 'Actor::report_consensus_fault', 'handle_proving_deadline', 'process_early_terminations'):
        H = X.fn(hn, CR)
        for g in prog.family(H):
            ap = [c.bb for c in g.calls if callee_is('State::apply_penalty')(c)]
            rp = [c.bb for c in g.calls if callee_is(RPD)(c)]
            if ap and rp:
                r = g.reach([0], blocked=set(rp) | g.errblocks)
                okb = all(a in r or a in rp for a in ap)
                # every apply_penalty site is reachable without first passing the repayment => penalty precedes repayment
                rep.need('K7', 'penalty-before-repayment:%s' % hn.split('::')[-1], okb and not any(x in g.reach([t for (t, _l) in g.succ[rb]]) for rb in rp for x in ap),
                         'apply_penalty must precede repay_partial_debt_in_priority_order', X.loc(g, ap[0]))
    # ---- D. debt gates
    for hn in RDA_CALLERS:
        H = X.fn(hn, CR)
        ok = False
        for g in prog.family(H):
            gs = [c for c in g.calls if callee_is('repay_debts_or_abort')(c)]
            if not gs:
                continue
            rets = g.ret_blocks()
            ok = X.call_guard('K6a', 'debt-gate:%s' % hn.split('::')[-1], g, rets, callee_is('repay_debts_or_abort'), 'repay_debts_or_abort(rt, state)?')
    # ---- E. reporter rewards
    for hn, target in (('Actor::dispute_windowed_post', 'C:policy::reward_for_disputed_window_post'), ('Actor::report_consensus_fault', 'C:policy::reward_for_consensus_slash_report')):
        H = X.fn(hn, CR)
        key = hn.split('::')[-1]
        rs = [c for c in H.calls if sendsmod.is_send(c)]
        rep.need('K5', 'reporter-reward:%s:send' % key, len(rs) == 1, 'one reporter reward send expected, found %d' % len(rs), X.loc(H))
        for c in rs:
            X.arg_has('K10', 'reporter-reward:%s:recipient' % key, c, 1, ['C:MessageInfo::caller'], 'the reward goes to the reporter (message caller)')
            X.arg_has('K10', 'reporter-reward:%s:clamped' % key, c, 4, ['C:core::cmp::min', 'T:' + RPD + '.0', target], 'reward = min(amount actually taken, policy target)')
            # the reward is taken out of the burn
            burns = [b for b in H.calls if callee_is('burn_funds')(b)]
            for b in burns:
                at = prog.narrow.operand(H, b.args[1])
                rep.need('K10', 'reporter-reward:%s:deducted-from-burn' % key, has_all(at, ['T:' + RPD + '.0', target]) and (has_atom(at, 'C:::sub') or has_atom(at, 'C:::sub_assign')),
                         'the amount burnt is the amount taken minus the reporter reward; derives from %s' % sendsmod.pretty(at), b.where)
            # tolerated failure: the reward must fall back into the burn
            fate = result_fate(H, c)
            if fate == 'try':
                rep.ob('K8', 'reporter-reward:%s:failure-handled' % key, True, 'reward transfer failure aborts the message', c.where)
                continue
            fb = fallback_to_burn(prog, X, H, c, burns)
            rep.need('K8', 'reporter-reward:%s:fallback-to-burn' % key, fb,
                     'the reward transfer is tolerated to fail (result %s) but on the failure arm the unsent reward is not added back to the amount burnt: '
                     'it stays in the miner\'s balance although it was taken off fee_debt' % fate, c.where,
                     {'rule': 'K8', 'handler': hn, 'send': c.where, 'fate': fate, 'fallback_found': fb})

    # ---- F. every early termination is queued under the deadline / partition that holds it (otherwise the fee is never assessed)
    def et_sets(f, adt):
        return [c for c in f.calls if callee_is('BitField::set')(c) and has_atom(prog.narrow.operand(f, c.args[0]), 'F:%s.early_terminations' % adt)]
    n = 0
    for owner, fn_ in (('State', 'state::State::advance_deadline'), ('State', 'Actor::terminate_sectors')):
        H = X.fn(fn_, CR)
        for g in prog.family(H):
            sets = et_sets(g, 'State')
            if not sets:
                continue
            n += 1
            lds = [c for c in g.calls if callee_is('Deadlines::load_deadline')(c)]
            X.index_agreement('K10', 'early-termination-queued:%s:deadline-index' % fn_.split('::')[-1], g,
                              [('early_terminations.set', c, 1) for c in sets] + [('load_deadline', c, 2) for c in lds],
                              'the miner-level early-termination flag is set for the deadline that was processed')
    rep.floor('K10', 'state_early_termination_set_sites', n, 2)
    X.writers('K4', 'State', 'early_terminations', ['state::State::advance_deadline', 'Actor::terminate_sectors', 'state::State::pop_early_terminations'],
              required=['state::State::advance_deadline', 'Actor::terminate_sectors'], crate=CR, constructors=['state::State::new'])
    AD = X.fn('state::State::advance_deadline', CR)
    sets = et_sets(AD, 'State')
    cs = [(c, arm) for (c, arm) in X.find_conds(AD, m_pred('is_empty', ['F:ExpirationSet.early_sectors'], False)) if arm in c.arms]
    rep.need('K7', 'early-termination-queued:advance_deadline:flagged-when-any', len(cs) == 1 and len(sets) == 1 and
             not AD.ok_returns_from([cs[0][0].arms[cs[0][1]]], blocked={sets[0].bb}),
             'when sectors expired early (early_sectors not empty) every success path sets the miner-level early-termination flag', X.loc(AD))
    DT = X.fn('deadline_state::Deadline::terminate_sectors', CR)
    sets = et_sets(DT, 'Deadline')
    pg = [c for c in DT.calls if (c.callee or '').endswith('::get') and has_atom(prog.narrow.operand(DT, c.args[0]), 'C:Deadline::partitions_amt')]
    ps = [c for c in DT.calls if (c.callee or '').endswith('::set') and not callee_is('BitField::set')(c) and has_atom(prog.narrow.operand(DT, c.args[0]), 'C:Deadline::partitions_amt')]
    X.index_agreement('K10', 'early-termination-queued:Deadline::terminate_sectors:partition-index', DT,
                      [('early_terminations.set', c, 1) for c in sets] + [('partitions.get', c, 1) for c in pg] + [('partitions.set', c, 2 if len(c.args) > 3 else 1) for c in ps],
                      'the deadline-level flag is set for the partition that recorded the termination')
    cs = [(c, arm) for (c, arm) in X.find_conds(DT, m_pred('is_empty', ['C:Partition::terminate_sectors'], False)) if arm in c.arms]
    rep.need('K7', 'early-termination-queued:Deadline::terminate_sectors:flagged-when-any', len(cs) == 1 and len(sets) == 1 and
             not DT.ok_returns_from([cs[0][0].arms[cs[0][1]]], blocked={sets[0].bb}),
             'when a partition terminated sectors the deadline-level flag is set on every success path', X.loc(DT))

    early_termination_drain(prog, rep, X)
    # ---- frozen provenance table of the partition / deadline / expiration-queue summaries (tables/prov_miner_partition.json)
    n = provtable.check(X, 'K10', 'summary', SPECS['miner_partition'], provtable.load_table('prov_miner_partition.json'), only_keys=[r'faulty_power', r'fee', r'^ret:', r'early'])
    rep.floor('K10', 'summary_update_sites', n, 80)

def repay_partial_results(prog, rep, X, prefix=''):
    """what repay_partial_debt_in_priority_order hands back: (amount to burn, total unlocked from vesting) - the second is what the
    callers report to the power actor (also evaluated under C03)"""
    R = X.fn('state::' + RPD, CR)
    comp0, comp1 = ret_components(prog, R, 0), ret_components(prog, R, 1)
    rep.need('K10', prefix + 'repay_partial:returns-what-it-took', bool(comp0) and all(has_all(a, ['C:core::cmp::min', 'C:State::get_unlocked_balance']) for a in comp0),
             'component 0 of the result (amount to burn) must be the very amount taken off fee_debt', X.loc(R))
    rep.need('K10', prefix + 'repay_partial:returns-unlocked', bool(comp1) and all(has_atom(a, 'T:State::unlock_vested_and_unvested_funds.1') for a in comp1),
             'component 1 of the result is the total unlocked from vesting', X.loc(R))


def early_termination_drain(prog, rep, X, prefix=''):
    """G. a level's early-termination flag (miner -> deadline, deadline -> partition) is cleared only when the level below reported
    that nothing is left (`more` == false); cleared earlier, the remaining terminated sectors are never processed and never
    charged.  Also evaluated under C05 (early terminations are eventually processed)."""
    n = 0
    for fn_, lower in (('state::State::pop_early_terminations', 'Deadline::pop_early_terminations'), ('deadline_state::Deadline::pop_early_terminations', 'Partition::pop_early_terminations')):
        F = X.fn(fn_, CR)
        pops = [c for c in F.calls if callee_is(lower)(c)]
        rep.need('K5', prefix + 'early-termination-drain:%s:lower-pop' % fn_.split('::')[-2], len(pops) == 1 and result_fate(F, pops[0]) == 'try', 'one %s(..)? per queued index' % lower, X.loc(F))
        if len(pops) != 1:
            continue
        # the "finished" marks recorded after the lower level was drained (a mark made before it, for a vanished partition, is exempt)
        marks = [c for c in F.calls if (c.callee or '').endswith('Vec::<T, A>::push') and F.dominates(pops[0].bb, c.bb) and any(a[0] == 'C' and a[1].endswith('Iterator::next') for a in prog.slicer.operand(F, c.args[1]))
                 and not has_atom(prog.narrow.operand(F, c.args[1]), 'C:' + lower)]
        unsets = [c for c in F.calls if callee_is('BitField::unset')(c) and has_atom(prog.narrow.operand(F, c.args[0]), 'F:%s.early_terminations' % fn_.split('::')[-2])]
        direct = [c for c in unsets if F.dominates(pops[0].bb, c.bb) and c.bb in loop_blocks(F) and pops[0].bb in loop_blocks(F)]
        sites = [c.bb for c in marks] + [c.bb for c in direct]
        n += len(sites)
        rep.need('K5', prefix + 'early-termination-drain:%s:clear-site' % fn_.split('::')[-2], len(unsets) >= 1 and len(sites) >= 1, 'the flag of a drained index is cleared (mark sites %d, unset sites %d)' % (len(sites), len(unsets)), X.loc(F))
        if sites:
            X.iter_guard('K6b', prefix + 'early-termination-drain:%s:only-when-nothing-left' % fn_.split('::')[-2], F, sites, m_boolatoms(['T:%s.1' % lower], False), 'index marked finished only when the lower level has no more early terminations')
        a = ret_components(prog, F, 1)
        rep.need('K10', prefix + 'early-termination-drain:%s:reports-more' % fn_.split('::')[-2], bool(a) and any(has_atom(x, 'F:%s.early_terminations' % fn_.split('::')[-2]) for x in a),
                 'the "has more" result is computed from the level\'s own early-termination flags', X.loc(F))
    rep.floor('K6b', prefix + 'early_termination_finished_marks', n, 2)


def ret_components(prog, f, idx):
    """atoms (narrow) of component idx of every `Ok((..))` tuple returned by f"""
    out = []
    for b in f.blocks:
        for st in b['s']:
            if st[0] == '=' and st[1][0] == 0 and not st[1][1] and st[2][0] == 'agg' and st[2][1].get('variant') == 'Ok' and st[2][2]:
                op = st[2][2][0]
                if op[0] in ('m', 'c') and not op[1][1]:
                    for d in f.defs.get(op[1][0], []):
                        if d[0] == '=' and d[4][0] == 'agg' and d[4][1].get('k') == 'tuple' and idx < len(d[4][2]):
                            out.append(prog.narrow.operand(f, d[4][2][idx]))
    return out
    # ---- running totals (amounts, power, datacap) accumulated in loops keep their earlier contributions
    X.accumulator_integrity('K12', 'running-totals', ['fil_actor_miner'], 'running totals of amounts')
    X.no_dropped_results('K14', 'results-not-discarded', ['fil_actor_miner'], 'no Result of a call is discarded')
    X.tolerated_failures('K15', 'tolerated-failures', ['fil_actor_miner'], 'tolerated failures are the reviewed ones')
    X.write_sites_preserved('K16', 'updates-present', 'fil_actor_miner', ['State.fee_debt', 'State.early_terminations', 'Deadline.early_terminations', 'Deadline.faulty_power', 'Partition.early_terminated'], 'state updates do not disappear')



def fallback_to_burn(prog, X, H, send, burns):
    """on the Err arm of the tolerated send, `acc += <reward>` where acc is the local later handed to burn_funds"""
    S = prog.slicer
    reward = prog.narrow.operand(H, send.args[4])
    burn_locals = set()
    for b in burns:
        a = b.args[1]
        if a[0] in ('m', 'c') and not a[1][1]:
            work = [a[1][0]]
            while work and len(burn_locals) < 12:
                l = work.pop()
                if l in burn_locals:
                    continue
                burn_locals.add(l)
                for d in H.defs.get(l, []):     # follow moves / copies back to the variable that is accumulated into
                    if d[0] == '=' and d[4][0] == 'use' and d[4][1][0] in ('m', 'c') and not d[4][1][1][1]:
                        work.append(d[4][1][1][0])
    # Err arm: a variant condition on a value deriving from this send
    for c in conds(H, S):
        if c.kind != 'variant':
            continue
        if not (has_atom(c.A, 'C:Runtime::send_simple') or has_atom(c.A, 'C:Runtime::send')):
            continue
        if not H.dominates(send.bb, c.bb):
            continue
        err_arm = c.arms.get(1, c.arms.get('otherwise'))
        ok_arm = c.arms.get(0)
        if err_arm is None or err_arm == ok_arm:
            continue
        r = H.reach([err_arm], removed=[(c.bb, ok_arm)] if ok_arm is not None else [])
        only_err = r - (H.reach([ok_arm]) if ok_arm is not None else set())
        for q in H.calls:
            if q.bb in only_err and (q.defp or '').endswith('AddAssign::add_assign'):
                a0 = q.args[0]
                base = None
                if a0[0] in ('m', 'c') and not a0[1][1]:
                    mr = H._mutref.get(a0[1][0]) if hasattr(H, '_mutref') else None
                    if mr:
                        base = mr[0]
                val = prog.narrow.operand(H, q.args[1])
                if base in burn_locals and (val & reward):
                    return True
    return False
