"""C07 - deal payments are exact and independent of the settlement schedule."""
from core import *
from rules import *
import sends as sendsmod

LEVEL = 'other'
LEVEL_TEXT = ('Narrow structural clauses over the market actor\'s MIR: the payment moved by a settlement is price x (window end - window start) with the '
              'window end = min(deal end, now) [or the slash epoch] and the window start = the last settled epoch if later than the deal start, paid '
              'client->provider through the single escrow transfer routine; after every settlement that keeps the deal, the last-settled epoch is set '
              'to the current epoch and stored (so no epoch is paid twice); completion unlocks both collaterals; early termination pays up to the slash '
              'epoch, refunds the unspent fee and client collateral, slashes the whole provider collateral and the slash is burnt. The window '
              'arithmetic itself and schedule independence over histories are not decided.')
TECHNIQUE = 'value-provenance slices of payment operands, followed-by (progress persisted) and guard dominance over rustc MIR CFGs, single-caller sets'
CR = 'fil_actor_market'
ST = 'state::State::'


def run(prog, rep, tier, cfg):
    X = Ctx(prog, rep)
    rep.explanation = LEVEL_TEXT
    rep.not_decided = 'window arithmetic, equality of totals across settlement schedules (value-dependent)'
    payment_window(prog, rep, X)
    # ---- progress is persisted at every settlement site
    X.callers('K5', ST + 'process_deal_update', callee_is(ST + 'process_deal_update'), ['Actor::cron_tick', 'Actor::settle_deal_payments'], crates=[CR])
    for hn in ('Actor::cron_tick', 'Actor::settle_deal_payments'):
        H = X.fn(hn, CR)
        key = hn.split('::')[-1]
        for g in prog.closures_of(H.id, recursive=False):
            pcs = [c for c in g.calls if callee_is(ST + 'process_deal_update')(c)]
            if not pcs:
                continue
            c = pcs[0]
            X.arg_has('K10', '%s:update-epoch' % key, c, 5, ['C:Runtime::curr_epoch'], 'settled up to the current epoch', narrow=False)
            wr = X.write_blocks(g, 'DealState', 'last_updated_epoch', kinds=('assign',))
            rep.need('K7', '%s:progress-write' % key, len(wr) == 1, 'one `state.last_updated_epoch = curr_epoch` expected, found %d' % len(wr), X.loc(g))
            X.value_from('K10', '%s:progress-value' % key, g, X.stmt_rvalue_atoms(g, 'DealState', 'last_updated_epoch', narrow=False), ['C:Runtime::curr_epoch'], 'last_updated_epoch := curr_epoch', copy=True)
            # on the keep arm (remove_deal == false) the progress write happens in the same iteration
            rm = X.find_conds(g, m_boolatoms(['T:State::process_deal_update.3'], False))
            okk = False
            if wr and rm:
                heads = X.loop_heads(g)
                for (cc, arm) in rm:
                    r = g.reach([cc.arms[arm]], blocked=heads | set(wr) | g.errblocks)
                    nxt = set()
                    for h in heads:
                        pass
                    # no loop head (next iteration / exit) reachable from the keep arm without passing the progress write
                    reach_heads = g.reach([cc.arms[arm]], blocked=set(wr) | g.errblocks) & heads
                    if not reach_heads:
                        okk = True
            rep.need('K7', '%s:progress-on-keep' % key, okk, 'when the deal is kept, the iteration cannot end without recording last_updated_epoch', X.loc(g, wr[0]) if wr else X.loc(g))
            pds = [q for q in g.calls if callee_is(ST + 'put_deal_states')(q)]
            rep.need('K7', '%s:progress-stored' % key, len(pds) >= 1 and all(result_fate(g, q) == 'try' for q in pds), 'updated deal states are stored', X.loc(g))
            if key == 'settle_deal_payments' and pds:
                rep.need('K7', '%s:stored-on-success' % key, not g.ok_returns_from([0], blocked={q.bb for q in pds}), 'every successful settlement call stores the new deal states', X.loc(g))
            if key == 'cron_tick' and pds and wr:
                X.followed_by('K7', '%s:stored-after-write' % key, g, wr, [q.bb for q in pds], 'the updated state is stored')
            rmv = [q for q in g.calls if callee_is(ST + 'remove_completed_deal')(q)]
            rep.need('K7', '%s:removed-when-done' % key, len(rmv) == 1 and result_fate(g, rmv[0]) == 'try', 'finished deals are removed', X.loc(g))
    # ---- missed activation: provider collateral burnt in full, client refunded (rows shared with C08)
    import props.c08 as c08
    c08.missed_activation_money(prog, rep, X, prefix='missed-activation:')
    c08.slash_burnt(prog, rep, X, prefix='market:')
    # ---- early termination
    PS = X.fn(ST + 'process_slashed_deal', CR)
    tr = [c for c in PS.calls if callee_is(ST + 'transfer_balance')(c)]
    un = [c for c in PS.calls if callee_is(ST + 'unlock_balance')(c)]
    sl = [c for c in PS.calls if callee_is(ST + 'slash_balance')(c)]
    rep.need('K5', 'terminate:sites', len(tr) == 1 and len(un) == 2 and len(sl) == 1 and all(result_fate(PS, c) == 'try' for c in tr + un + sl), 'pay, refund fee, refund collateral, slash - all propagated', X.loc(PS))
    for c in tr:
        X.arg_has('K10', 'terminate:payment', c, 4, ['F:DealProposal.storage_price_per_epoch', 'F:DealState.slash_epoch', 'F:DealState.last_updated_epoch', 'F:DealProposal.start_epoch', 'F:DealProposal.end_epoch',
                                                    'C:core::cmp::min', 'C:core::cmp::max'], 'payment up to the termination epoch', narrow=False)
        X.arg_has('K10', 'terminate:payer', c, 2, ['F:DealProposal.client'], 'client pays', forbid=['F:DealProposal.provider'])
        X.arg_has('K10', 'terminate:payee', c, 3, ['F:DealProposal.provider'], 'provider is paid', forbid=['F:DealProposal.client'])
    for (party, amt, reason) in (('F:DealProposal.client', 'C:deal_get_payment_remaining', 'E:Reason::ClientStorageFee'), ('F:DealProposal.client', 'F:DealProposal.client_collateral', 'E:Reason::ClientCollateral')):
        hit = [c for c in un if has_atom(prog.slicer.operand(PS, c.args[4]), reason) and has_atom(prog.narrow.operand(PS, c.args[2]), party) and has_atom(prog.narrow.operand(PS, c.args[3]), amt)]
        rep.need('K10', 'terminate:refund:%s' % reason.split('::')[-1], len(hit) == 1, 'unlock %s of %s under %s' % (amt, party, reason), X.loc(PS))
    for c in sl:
        X.arg_has('K10', 'terminate:slash-provider', c, 2, ['F:DealProposal.provider'], 'provider slashed', forbid=['F:DealProposal.client'])
        X.arg_has('K10', 'terminate:slash-whole-collateral', c, 3, ['F:DealProposal.provider_collateral'], 'the whole provider collateral is slashed (plain copy, no arithmetic)', copy=True)
    rep.need('K10', 'terminate:returns-slashed', has_atom(prog.narrow.local(PS, 0), 'F:DealProposal.provider_collateral'), 'returns the slashed amount', X.loc(PS))
    GR = X.fn('state::deal_get_payment_remaining', CR)
    a = prog.slicer.local(GR, 0)
    rep.need('K10', 'remaining:formula', has_all(a, ['F:DealProposal.storage_price_per_epoch', 'F:DealProposal.end_epoch', 'F:DealProposal.start_epoch', 'P:2', 'C:core::cmp::max', 'OP:Sub']),
             'remaining = price * (end - max(slash, start))', X.loc(GR))
    X.guard('K6b', 'remaining:slash-not-after-end', GR, GR.ret_blocks(), m_rel('gt', ['P:2'], ['F:DealProposal.end_epoch'], False, pure=True), 'slash_epoch > end_epoch => Err')
    OT = X.fn('Actor::on_miner_sectors_terminate', CR)
    for g in prog.closures_of(OT.id, recursive=False):
        ps = [c for c in g.calls if callee_is(ST + 'process_slashed_deal')(c)]
        if not ps:
            continue
        X.value_from('K10', 'terminate:slash-epoch-set', g, X.stmt_rvalue_atoms(g, 'DealState', 'slash_epoch', narrow=False), ['F:OnMinerSectorsTerminateParams.epoch'], 'state.slash_epoch := params.epoch', copy=True)
        X.precedes('K7', 'terminate:slash-epoch-before-processing', g, X.write_blocks(g, 'DealState', 'slash_epoch', kinds=('assign',)), [ps[0].bb], 'slash epoch is set before the deal is processed')
        X.iter_guard('K6b', 'terminate:own-deals-only', g, [ps[0].bb], m_rel('ne', ['F:DealProposal.provider'], ['C:MessageInfo::caller'], False), 'deal of another provider => Err')
        X.iter_guard('K6b', 'terminate:not-expired', g, [ps[0].bb], m_rel('le', ['F:DealProposal.end_epoch'], ['F:OnMinerSectorsTerminateParams.epoch'], False, pure=True), 'deal already ended => no slash')
        rc = [c for c in g.calls if callee_is(ST + 'remove_completed_deal')(c)]
        rep.need('K7', 'terminate:removed', len(rc) == 1 and result_fate(g, rc[0]) == 'try' and g.dominates(ps[0].bb, rc[0].bb), 'a terminated deal is removed right after processing', X.loc(g))
    # payments move escrow only through transfer_balance: caller set is part of C06 (K5) and re-checked here
    X.callers('K5', ST + 'transfer_balance', callee_is(ST + 'transfer_balance'), [ST + 'process_deal_update', ST + 'process_slashed_deal'], crates=[CR])
    # ---- running totals (amounts, power, datacap) accumulated in loops keep their earlier contributions
    X.accumulator_integrity('K12', 'running-totals', ['fil_actor_market'], 'running totals of amounts')
    X.no_dropped_results('K14', 'results-not-discarded', ['fil_actor_market'], 'no Result of a call is discarded')
    X.tolerated_failures('K15', 'tolerated-failures', ['fil_actor_market'], 'tolerated failures are the reviewed ones')
    X.write_sites_preserved('K16', 'updates-present', 'fil_actor_market', ['DealState.last_updated_epoch', 'DealState.slash_epoch', 'State.states'], 'state updates do not disappear')



def payment_window(prog, rep, X, prefix=''):
    """what one settlement moves: price x (window end - window start), client -> provider; completion unlocks both collaterals
    (also evaluated under C06: it is what keeps a client's locked balance equal to its remaining obligations)"""
    PU = X.fn(ST + 'process_deal_update', CR)
    tr = [c for c in PU.calls if callee_is(ST + 'transfer_balance')(c)]
    rep.need('K5', prefix + 'update:payment-site', len(tr) == 1 and result_fate(PU, tr[0]) == 'try', 'one transfer_balance(..)? expected', X.loc(PU))
    for c in tr:
        X.arg_has('K10', prefix + 'update:payer', c, 2, ['F:DealProposal.client'], 'the client pays', forbid=['F:DealProposal.provider'])
        X.arg_has('K10', prefix + 'update:payee', c, 3, ['F:DealProposal.provider'], 'the provider is paid', forbid=['F:DealProposal.client'])
        X.arg_has('K10', prefix + 'update:amount', c, 4, ['F:DealProposal.storage_price_per_epoch', 'F:DealState.last_updated_epoch', 'F:DealProposal.start_epoch', 'F:DealProposal.end_epoch',
                                                 'C:core::cmp::min', 'P:6', 'OP:Sub', 'C:::mul'], 'payment = price * (min(end, now) - max-like(start, last_updated))', narrow=False)
        X.guard('K6b', prefix + 'update:only-positive', PU, [c.bb], m_pred('is_positive', ['F:DealProposal.storage_price_per_epoch'], True), 'elapsed_payment.is_positive()')
    rets = PU.ret_blocks()
    EVER = m_rel('ne', ['F:DealState.last_updated_epoch'], ['K:EPOCH_UNDEFINED'], False)   # arm deleted under "ever updated"
    X.guard('K6b', prefix + 'update:not-updated-in-future', PU, [c.bb for c in tr], m_rel('gt', ['F:DealState.last_updated_epoch'], ['P:6'], False, pure=True), 'ever_updated && last_updated_epoch > epoch => Err',
            assume=[m_boolatoms(['F:DealState.last_updated_epoch', 'K:EPOCH_UNDEFINED'], False)])
    X.guard('K6b', prefix + 'update:not-before-start', PU, [c.bb for c in tr], m_rel('gt', ['F:DealProposal.start_epoch'], ['P:6'], False, pure=True), 'start_epoch > epoch => no payment')
    # window start: last_updated only if later than start
    ws = X.find_conds(PU, m_rel('gt', ['F:DealState.last_updated_epoch'], ['F:DealProposal.start_epoch'], True, pure=True))
    rep.need('K6b', prefix + 'update:window-start-choice', len(ws) == 1, 'payment_start = last_updated_epoch if it is later than start_epoch, else start_epoch (found %d tests)' % len(ws), X.loc(PU))
    # window end
    we = [c for c in PU.calls if (c.callee or '') == 'core::cmp::min' and has_all(prog.narrow.operand(PU, c.args[0]) | prog.narrow.operand(PU, c.args[1]), ['F:DealProposal.end_epoch', 'P:6'])]
    rep.need('K10', prefix + 'update:window-end', len(we) == 1, 'payment_end = min(deal.end_epoch, epoch) (found %d)' % len(we), X.loc(PU))
    # completion
    ex = [c for c in PU.calls if callee_is(ST + 'process_deal_expired')(c)]
    rep.need('K5', prefix + 'update:expiry-site', len(ex) == 1 and result_fate(PU, ex[0]) == 'try', 'one process_deal_expired(..)? expected', X.loc(PU))
    X.guard('K6b', prefix + 'update:completes-at-end', PU, [c.bb for c in ex], m_rel('ge', ['P:6'], ['F:DealProposal.end_epoch'], True, pure=True), 'epoch >= end_epoch')
    PE = X.fn(ST + 'process_deal_expired', CR)
    un = [c for c in PE.calls if callee_is(ST + 'unlock_balance')(c)]
    rep.need('K5', prefix + 'expired:unlocks', len(un) == 2 and all(result_fate(PE, c) == 'try' for c in un), 'both collaterals are unlocked', X.loc(PE))
    for (party, amt, reason) in (('F:DealProposal.provider', 'F:DealProposal.provider_collateral', 'E:Reason::ProviderCollateral'), ('F:DealProposal.client', 'F:DealProposal.client_collateral', 'E:Reason::ClientCollateral')):
        hit = [c for c in un if has_atom(prog.slicer.operand(PE, c.args[4]), reason) and has_atom(prog.narrow.operand(PE, c.args[2]), party) and has_atom(prog.narrow.operand(PE, c.args[3]), amt)]
        rep.need('K10', prefix + 'expired:%s' % reason.split('::')[-1], len(hit) == 1, 'unlock %s of %s under %s' % (amt, party, reason), X.loc(PE))
