"""C03 - collateral ledgers are exact: pledge, deposits and the network pledge total."""
from core import *
from rules import *
import sends as sendsmod

LEVEL = 'other'
LEVEL_TEXT = ('Structural necessary conditions over the MIR of the miner and power actors: each of the three miner ledgers and the network pledge total '
              'has a fixed set of writers with a sign guard; every miner handler that changes locked_funds or initial_pledge notifies the power '
              'actor (UpdatePledgeTotal), and the notified delta derives from exactly the amounts that changed the ledgers (tuple-component '
              'provenance); the power-side update is caller-keyed, claim-checked and sign-guarded. Equality of the sums along histories is not decided.')
TECHNIQUE = 'ledger-mutation to notification pairing by call-graph reachability, tuple-component value provenance, single-writer sets and guard dominance over rustc MIR'
CR = 'fil_actor_miner'
PW = 'fil_actor_power'
TX = RUNTIME + 'transaction'

# handler -> atoms the notified pledge delta must derive from (what changes locked_funds / initial_pledge there)
NOTIFY = {
    'Actor::apply_rewards': ['T:State::repay_partial_debt_in_priority_order.1', 'T:monies::locked_reward_from_reward.0', 'C:State::add_locked_funds'],
    'Actor::dispute_windowed_post': ['T:State::repay_partial_debt_in_priority_order.1'],
    'Actor::report_consensus_fault': ['T:State::repay_partial_debt_in_priority_order.1'],
    'Actor::withdraw_balance': ['C:State::unlock_vested_funds'],
    'Actor::repay_debt': ['T:State::repay_partial_debt_in_priority_order.1'],
    'handle_proving_deadline': ['T:State::repay_partial_debt_in_priority_order.1', 'C:State::unlock_vested_funds', 'F:AdvanceDeadlineResult.pledge_delta'],
    'process_early_terminations': ['T:State::repay_partial_debt_in_priority_order.1', 'F:SectorOnChainInfo.initial_pledge'],
    'activate_new_sector_infos': ['C:monies::initial_pledge_for_power'],
    'Actor::prove_replica_updates3': ['T:fil_actor_miner::update_replica_states.1'],
    'Actor::prove_commit_sectors_ni': ['C:monies::initial_pledge_for_power'],
    'Actor::extend_sector_expiration_inner': ['T:Partition::replace_sectors.1'],
}


def ledger_mutators(prog):
    """functions that directly change locked_funds or initial_pledge"""
    return ['state::State::add_locked_funds', 'state::State::unlock_vested_funds', 'state::State::unlock_vested_and_unvested_funds', 'state::State::add_initial_pledge']


def run(prog, rep, tier, cfg):
    X = Ctx(prog, rep)
    rep.explanation = LEVEL_TEXT
    rep.not_decided = 'equality of ledger totals with sums over sectors / pre-commits / vesting table along histories'
    # ---- single writers with sign guards
    X.writers('K4', 'State', 'pre_commit_deposits', ['state::State::add_pre_commit_deposit', 'state::State::cleanup_expired_pre_commits'], crate=CR, constructors=['state::State::new'])
    X.writers('K4', 'State', 'initial_pledge', ['state::State::add_initial_pledge'], crate=CR, constructors=['state::State::new'])
    X.writers('K4', 'State', 'locked_funds', ['state::State::add_locked_funds', 'state::State::unlock_vested_funds', 'state::State::unlock_vested_and_unvested_funds'], crate=CR,
              constructors=['state::State::new'])
    for fn_, fld in (('add_pre_commit_deposit', 'pre_commit_deposits'), ('add_initial_pledge', 'initial_pledge')):
        F = X.fn('state::State::' + fn_, CR)
        wr = X.write_blocks(F, 'State', fld)
        X.guard('K6b', '%s:non-negative' % fn_, F, wr, m_pred('is_negative', ['F:State.' + fld, 'P:2'], False), 'negative new total => Err')
        X.value_from('K10', '%s:new-total' % fn_, F, X.stmt_rvalue_atoms(F, 'State', fld, narrow=False), ['F:State.' + fld, 'P:2', 'C:::add'], '%s := %s + amount' % (fld, fld), forbid=['C:::sub'])
    X.callers('K5', 'State::add_pre_commit_deposit', callee_is('state::State::add_pre_commit_deposit'),
              ['Actor::pre_commit_sector_batch_inner', 'activate_new_sector_infos', 'state::State::cleanup_expired_pre_commits', 'Actor::prove_commit_sectors3'], required=[], crates=[CR])
    CE = X.fn('state::State::cleanup_expired_pre_commits', CR)
    subs = [c for c in CE.calls if (c.defp or '').endswith('SubAssign::sub_assign') and X.updates_field(c, 'State', 'pre_commit_deposits')]
    rep.need('K10', 'cleanup_expired_pre_commits:decrease-site', len(subs) == 1, 'one `pre_commit_deposits -= deposit_to_burn` expected, found %d' % len(subs), X.loc(CE))
    X.accumulates('K10', 'cleanup_expired_pre_commits:sums-expired-deposits', CE, ['F:SectorPreCommitOnChainInfo.pre_commit_deposit'], 'deposit_to_burn += deposit of each expired pre-commit')
    for c in subs:
        X.arg_has('K10', 'cleanup_expired_pre_commits:releases-their-deposits', c, 1, ['F:SectorPreCommitOnChainInfo.pre_commit_deposit'], 'the deposit total decreases by the deposits of the expired pre-commits', narrow=False)
        neg = X.find_conds(CE, m_pred('is_negative', ['F:State.pre_commit_deposits'], False))
        okn = len(neg) == 1 and not CE.ok_returns_from([t for (t, _l) in CE.succ[c.bb]], removed=[X.edge(neg[0][0], neg[0][1])])
        rep.need('K6b', 'cleanup_expired_pre_commits:non-negative', okn, 'a negative deposit total after the decrease is an error', c.where)
    rep.need('K10', 'cleanup_expired_pre_commits:returns-them', has_atom(prog.slicer.local(CE, 0), 'F:SectorPreCommitOnChainInfo.pre_commit_deposit'), 'the released deposits are returned to be penalised', X.loc(CE))
    # ---- pledge-total pairing
    muts = ledger_mutators(prog)
    is_mut = lambda c: any(callee_is(m)(c) for m in muts)
    is_notify = lambda c: callee_is('notify_pledge_changed')(c)
    NP = X.fn('notify_pledge_changed', CR)
    ns = [c for c in NP.calls if sendsmod.is_send(c)]
    rep.need('K5', 'notify_pledge_changed:send', len(ns) == 1, 'one UpdatePledgeTotal send expected', X.loc(NP))
    sendsmod.exit_code_rule(X, rep, [sendsmod.SendSite(prog, c) for c in ns], {})
    for c in ns:
        X.arg_has('K10', 'notify:to-power', c, 1, ['K:STORAGE_POWER_ACTOR_ADDR'], 'notification goes to the power actor')
        X.arg_has('K10', 'notify:method', c, 2, ['K:UPDATE_PLEDGE_TOTAL_METHOD'], 'UpdatePledgeTotal')
        X.arg_has('K10', 'notify:delta', c, 3, ['P:2'], 'carries the delta', narrow=False)
        rep.need('K8', 'notify:propagated', result_fate(NP, c) == 'try', 'a failed notification aborts', c.where)
        X.guard('K6b', 'notify:only-skip-zero', NP, [c.bb], m_pred('is_zero', ['P:2'], False), '!delta.is_zero()')
    from props import c11
    entries = c11.dispatch.extract(prog)[0]
    handlers = {}
    for e in entries:
        if e.crate == CR:
            handlers.setdefault(e.handler, e.variant)
    n_mut = 0
    for hid, variant in sorted(handlers.items()):
        H = prog.fns.get(hid)
        if H is None:
            continue
        mut = prog.reaches(hid, pred_call=is_mut)
        if not mut:
            continue
        n_mut += 1
        noti = prog.reaches(hid, pred_call=is_notify)
        which = sorted({m.split('::')[-1] for m in muts if prog.reaches(hid, pred_call=callee_is(m))})
        rep.need('K3', 'pledge-total-pairing:%s' % variant, noti,
                 'miner method %s changes locked_funds / initial_pledge (via %s) but never sends UpdatePledgeTotal to the power actor: the network pledge total '
                 'is not told about the change' % (variant, which), X.loc(H),
                 {'rule': 'K3', 'handler': hid, 'method': variant, 'ledger_mutators_reached': which, 'notifies_power': noti})
    rep.floor('K3', 'handlers_changing_pledge_ledgers', n_mut, 12)
    # ---- the notified delta is what changed the ledgers
    for hn, pats in NOTIFY.items():
        H = X.try_fn('K10', hn, CR)
        if H is None:
            continue
        cs = [c for c in H.calls if is_notify(c)]
        key = hn.split('::')[-1]
        rep.need('K10', 'notify-site:%s' % key, len(cs) >= 1, '%s must notify the pledge change itself' % hn, X.loc(H))
        for c in cs:
            X.arg_has('K10', 'notify-delta:%s' % key, c, 1, pats, 'the notified delta is built from the amounts that changed the ledgers')
            rep.need('K8', 'notify-propagated:%s' % key, result_fate(H, c) == 'try', 'notification failure aborts', c.where)
        txs = [c.bb for c in H.calls if (c.defp or '') == TX and any(prog.reaches(x, pred_call=is_mut) for x in c.cl)]
        if txs and cs and key not in ('process_early_terminations',):
            X.followed_by('K7', 'notify-on-every-success-path:%s' % key, H, txs, [c.bb for c in cs], 'after the ledgers changed every success path notifies the power actor')
    # functions that call the notifier must be in the frozen table (a new notifier gets reviewed)
    X.callers('K5', 'notify_pledge_changed', is_notify, list(NOTIFY.keys()), crates=[CR])
    # the amount unlocked while repaying fee debt is what those callers notify (rows shared with C15)
    import props.c15 as c15
    c15.repay_partial_results(prog, rep, X, prefix='ledger:')
    # ---- power side
    X.writers('K4', 'State', 'total_pledge_collateral', ['state::State::add_pledge_total'], crate=PW, constructors=['state::State::new'])
    # (field-based: the rows below hold whether the one-line mutator `add_pledge_total` exists or is inlined)
    UP = X.fn('Actor::update_pledge_total', PW)
    ups = X.ledger_updates('State', 'total_pledge_collateral', PW)
    rep.need('K10', 'power:total-accumulates', len(ups) >= 1 and all(d == '+' for (_g, d, _b, _l, _a) in ups),
             'the network pledge total is only ever updated by `+= delta` (found %s)' % [(g.id.split('::')[-1], d) for (g, d, _b, _l, _a) in ups], X.loc(UP))
    for (g, d, bb, line, atoms) in ups:
        rep.need('K10', 'power:adds-the-delta', has_atom(atoms, 'F:UpdatePledgeTotalParams.pledge_delta'), 'the total changes by the reported delta; the added value derives from %s' % sendsmod.pretty(atoms), X.loc(g, bb))
        rep.need('K5', 'power:total-updated-only-by-UpdatePledgeTotal', X.entries_of(g.id) == {'power.UpdatePledgeTotal'},
                 'the update site is reachable from %s only UpdatePledgeTotal may change the total' % sorted(X.entries_of(g.id)), X.loc(g, bb))
    seen_cl = False
    for cl in prog.closures_of(UP.id, recursive=False):
        eb = X.effect_blocks(cl, 'State', 'total_pledge_collateral')
        if not eb:
            continue
        seen_cl = True
        X.guard('K6b', 'power:pledge-total-non-negative', cl, cl.ret_blocks(), m_pred('is_negative', ['F:State.total_pledge_collateral'], False), 'negative total => Err')
        X.call_guard('K6a', 'power:claim-checked', cl, eb, callee_is('state::State::validate_miner_has_claim'), 'validate_miner_has_claim(caller)?')
        for c in cl.calls:
            if callee_is('state::State::validate_miner_has_claim')(c):
                X.arg_has('K10', 'power:claim-of-caller', c, 2, ['C:MessageInfo::caller'], 'the claim checked is the caller\'s', narrow=False)
    rep.need('K5', 'power:update-in-transaction', seen_cl, 'UpdatePledgeTotal changes the total inside its state transaction', X.loc(UP))
    # ---- running totals (amounts, power, datacap) accumulated in loops keep their earlier contributions
    X.accumulator_integrity('K12', 'running-totals', ['fil_actor_miner', 'fil_actor_power'], 'running totals of amounts')
    X.no_dropped_results('K14', 'results-not-discarded', ['fil_actor_miner', 'fil_actor_power'], 'no Result of a call is discarded')
    X.tolerated_failures('K15', 'tolerated-failures', ['fil_actor_miner', 'fil_actor_power'], 'tolerated failures are the reviewed ones')
    X.write_sites_preserved('K16', 'updates-present', 'fil_actor_miner', ['State.pre_commit_deposits', 'State.locked_funds', 'State.initial_pledge', 'State.vesting_funds'], 'state updates do not disappear')
    X.write_sites_preserved('K16', 'updates-present', 'fil_actor_power', ['State.total_pledge_collateral'], 'state updates do not disappear')

