"""Scopes of the frozen provenance tables (see provtable.py). A spec says which functions are covered (by id prefix inside one
crate), which struct fields are memoised summaries, and which callees' arguments are tracked."""
SPECS = {
    # miner: partition / deadline / expiration-queue summaries (C02 power memos, C04 bookkeeping, C15 fault power)
    'miner_partition': {
        'crate': 'fil_actor_miner',
        'fn_prefixes': ['partition_state::Partition::', 'deadline_state::Deadline::', 'expiration_queue::ExpirationSet::', 'expiration_queue::ExpirationQueue::',
                        'partition_state::PowerPair::', 'bitfield_queue::BitFieldQueue::'],
        'exclude': [r'::validate_', r'::new$', r'_amt$', r'::is_live$', r'::load_partition(_snapshot)?$', r'::is_zero$', r'::zero$', r'::empty$', r'::is_empty$', r'::len$', r'::may_get$', r'::must_update', r'::iter_while_mut$', r'::for_each$'],
        'memo_adts': ['Partition', 'Deadline', 'ExpirationSet', 'PowerPair'],
        'memo_fields': {
            'Partition': ['sectors', 'unproven', 'faults', 'recoveries', 'terminated', 'live_power', 'unproven_power', 'faulty_power', 'recovering_power'],
            'Deadline': ['live_sectors', 'total_sectors', 'faulty_power', 'live_power', 'daily_fee', 'early_terminations', 'partitions_posted'],
            'ExpirationSet': ['on_time_sectors', 'early_sectors', 'on_time_pledge', 'active_power', 'faulty_power', 'fee_deduction'],
            'PowerPair': ['raw', 'qa'],
        },
        'arg_callees': ['ExpirationSet::add', 'ExpirationSet::remove', "ExpirationQueue::<'db, BS>::add", "ExpirationQueue::<'db, BS>::remove",
                        'Partition::add_faults', 'Partition::remove_recoveries', 'ExpirationSet::new'],
        'rets': True,
    },
}
