"""C06 - market escrow: locked funds equal outstanding deal obligations."""
from core import *
from rules import *
import sends as sendsmod

LEVEL = 'other'
LEVEL_TEXT = ('Structural necessary conditions over the market actor\'s MIR: the escrow table, the locked table and the three market-wide locked totals have '
              'fixed writer and caller sets; locking checks escrow cover and moves per-party lock and totals together with the amounts of the same '
              'proposal; unlocking subtracts the per-party lock first and decrements the total selected by the reason; transfers and slashes take '
              'from escrow and lock together; withdrawal pays min(requested, escrow - locked) to the address owner (or a miner\'s owner) after '
              'validating exactly the approved set. Equality with the sum over the deal set along histories is not decided.')
TECHNIQUE = 'single-writer / single-caller sets, guard dominance and ordering over rustc MIR CFGs, argument and tuple-component provenance slices, enum-arm to field pairing'
CR = 'fil_actor_market'
TX = RUNTIME + 'transaction'
ST = 'state::State::'


def run(prog, rep, tier, cfg):
    X = Ctx(prog, rep)
    rep.explanation = LEVEL_TEXT
    rep.not_decided = 'per-party equality of locked balance with the obligations of the outstanding deal set over histories'
    # ---- writers / callers
    X.writers('K4', 'State', 'escrow_table', [ST + n for n in ('add_balance_to_escrow_table', 'withdraw_balance_from_escrow_table', 'transfer_balance', 'slash_balance')], crate=CR, constructors=[ST + 'new'])
    X.writers('K4', 'State', 'locked_table', [ST + 'maybe_lock_balance', ST + 'unlock_balance'], crate=CR, constructors=[ST + 'new'])
    for t in ('total_client_locked_collateral', 'total_client_storage_fee', 'total_provider_locked_collateral'):
        X.writers('K4', 'State', t, [ST + 'lock_client_and_provider_balances', ST + 'unlock_balance'], crate=CR, constructors=[ST + 'new'])
    C = lambda name, allowed: X.callers('K5', name, callee_is(ST + name), allowed, crates=[CR])
    C('maybe_lock_balance', [ST + 'lock_client_and_provider_balances'])
    C('lock_client_and_provider_balances', ['Actor::publish_storage_deals'])
    C('unlock_balance', [ST + n for n in ('process_deal_update', 'process_slashed_deal', 'process_deal_init_timed_out', 'process_deal_expired', 'transfer_balance', 'slash_balance')])
    C('transfer_balance', [ST + 'process_deal_update', ST + 'process_slashed_deal'])
    C('slash_balance', [ST + 'process_deal_update', ST + 'process_slashed_deal', ST + 'process_deal_init_timed_out'])
    C('withdraw_balance_from_escrow_table', ['Actor::withdraw_balance'])
    C('add_balance_to_escrow_table', ['Actor::add_balance'])
    # ---- locking
    L = X.fn(ST + 'lock_client_and_provider_balances', CR)
    ml = [c for c in L.calls if callee_is(ST + 'maybe_lock_balance')(c)]
    rep.need('K5', 'lock:two-party-locks', len(ml) == 2 and all(result_fate(L, c) == 'try' for c in ml), 'client and provider are each locked with the error propagated (found %d)' % len(ml), X.loc(L))
    cl_ = [c for c in ml if has_atom(prog.narrow.operand(L, c.args[2]), 'F:DealProposal.client')]
    pr_ = [c for c in ml if has_atom(prog.narrow.operand(L, c.args[2]), 'F:DealProposal.provider')]
    rep.need('K10', 'lock:parties', len(cl_) == 1 and len(pr_) == 1, 'one lock for proposal.client and one for proposal.provider', X.loc(L))
    for c in cl_:
        X.arg_has('K10', 'lock:client-amount', c, 3, ['C:DealProposal::client_balance_requirement'], 'client locks collateral + total storage fee', forbid=['F:DealProposal.provider_collateral'])
    for c in pr_:
        X.arg_has('K10', 'lock:provider-amount', c, 3, ['F:DealProposal.provider_collateral'], 'provider locks its collateral', forbid=['F:DealProposal.client_collateral'])
    adds = [c for c in L.calls if (c.defp or '').endswith('AddAssign::add_assign')]
    want = {'total_client_locked_collateral': 'F:DealProposal.client_collateral', 'total_client_storage_fee': 'C:DealProposal::total_storage_fee', 'total_provider_locked_collateral': 'F:DealProposal.provider_collateral'}
    for fld, src in want.items():
        hit = [c for c in adds if X.updates_field(c, 'State', fld)]
        okh = len(hit) == 1 and has_atom(prog.narrow.operand(L, hit[0].args[1]), src) and not any(has_atom(prog.narrow.operand(L, hit[0].args[1]), o) for o in set(want.values()) - {src})
        rep.need('K10', 'lock:total:%s' % fld, okh, '%s += %s of the same proposal' % (fld, src), X.loc(L, hit[0].bb) if hit else X.loc(L))
        if hit and ml:
            X.precedes('K7', 'lock:parties-before-total:%s' % fld, L, [ml[-1].bb], [hit[0].bb], 'both per-party locks succeed before the totals move')
    for fn_, pats, forb in (('client_balance_requirement', ['F:DealProposal.client_collateral', 'C:DealProposal::total_storage_fee', 'C:::add'], ['F:DealProposal.provider_collateral']),
                            ('total_storage_fee', ['F:DealProposal.storage_price_per_epoch', 'C:DealProposal::duration', 'C:::mul'], []),
                            ('duration', ['F:DealProposal.end_epoch', 'F:DealProposal.start_epoch', 'OP:Sub'], [])):
        F = X.fn('deal::DealProposal::' + fn_, CR)
        a = prog.narrow.local(F, 0)
        rep.need('K10', 'proposal:%s' % fn_, has_all(a, pats) and not any(has_atom(a, p) for p in forb), '%s derives from %s; got %s' % (fn_, pats, sendsmod.pretty(a)), X.loc(F))
    M = X.fn(ST + 'maybe_lock_balance', CR)
    la = [c for c in M.calls if callee_is('balance_table::BalanceTable::<BS>::add')(c)]
    rep.need('K5', 'maybe_lock:add-site', len(la) == 1, 'one locked_table.add expected', X.loc(M))
    X.guard('K6b', 'maybe_lock:escrow-covers', M, [c.bb for c in la], m_rel('gt', ['F:State.locked_table', 'P:4'], ['F:State.escrow_table'], False), 'prev_locked + amount > escrow_balance => Err')
    X.guard('K6b', 'maybe_lock:non-negative', M, [c.bb for c in la], m_pred('is_negative', ['P:4'], False), 'negative amount => Err')
    for c in la:
        X.arg_has('K10', 'maybe_lock:addr', c, 1, ['P:3'], 'locks the given party', narrow=False)
        X.arg_has('K10', 'maybe_lock:amount', c, 2, ['P:4'], 'by the given amount', narrow=False)
        X.followed_by('K7', 'maybe_lock:stored', M, [c.bb], X.write_blocks(M, 'State', 'locked_table'), 'the new locked table root is stored')
    for c in M.calls:
        if callee_is('balance_table::BalanceTable::<BS>::get')(c):
            X.arg_has('K10', 'maybe_lock:reads-same-party#%d' % c.bb, c, 1, ['P:3'], 'cover is checked for the party being locked', narrow=False)
    # ---- unlocking
    U = X.fn(ST + 'unlock_balance', CR)
    ms = [c for c in U.calls if callee_is('balance_table::BalanceTable::<BS>::must_subtract')(c)]
    rep.need('K5', 'unlock:subtract-site', len(ms) == 1 and result_fate(U, ms[0]) == 'try', 'one locked_table.must_subtract(..)? expected', X.loc(U))
    X.guard('K6b', 'unlock:non-negative', U, [c.bb for c in ms], m_pred('is_negative', ['P:4'], False), 'negative amount => Err')
    for c in ms:
        X.arg_has('K10', 'unlock:addr', c, 1, ['P:3'], 'unlocks the given party', narrow=False)
        X.arg_has('K10', 'unlock:amount', c, 2, ['P:4'], 'by the given amount', narrow=False)
        X.arg_has('K10', 'unlock:from-locked-table', c, 0, ['F:State.locked_table'], 'from the locked table', narrow=False)
        X.followed_by('K7', 'unlock:stored', U, [c.bb], X.write_blocks(U, 'State', 'locked_table'), 'the new locked table root is stored')
    radt = prog.adts.get('fil_actor_market::state::Reason') or next((a for k, a in prog.adts.items() if k.endswith('::Reason') and k.startswith(CR)), None)
    sw = [c for c in conds(U, prog.slicer) if c.kind == 'variant' and has_atom(c.A, 'P:5')]
    rep.need('K6b', 'unlock:reason-switch', len(sw) == 1 and radt is not None, 'the total to decrement is selected by the lock reason', X.loc(U))
    if len(sw) == 1 and radt:
        s = sw[0]
        pair = {'ClientCollateral': 'total_client_locked_collateral', 'ClientStorageFee': 'total_client_storage_fee', 'ProviderCollateral': 'total_provider_locked_collateral'}
        subs = [c for c in U.calls if (c.defp or '').endswith('SubAssign::sub_assign')]
        for v in radt['variants']:
            arm = s.arms.get(v['discr'], s.arms.get('otherwise'))
            others = {tb for a2, tb in s.arms.items() if tb != arm}
            r = U.reach([arm], blocked=others)
            hit = [c for c in subs if c.bb in r and c.bb not in U.reach(list(others)) or (c.bb in r and U.dominates(arm, c.bb))]
            hit = [c for c in subs if U.dominates(arm, c.bb)]
            okp = len(hit) == 1 and X.updates_field(hit[0], 'State', pair[v['name']]) and has_atom(prog.slicer.operand(U, hit[0].args[1]), 'P:4')
            rep.need('K6b', 'unlock:reason:%s' % v['name'], okp, 'Reason::%s decrements %s by the amount' % (v['name'], pair[v['name']]), X.loc(U, hit[0].bb) if hit else X.loc(U))
        if ms and subs:
            X.precedes('K7', 'unlock:party-before-total', U, [ms[0].bb], [c.bb for c in subs], 'the per-party lock is released (or the call fails) before the total moves')
    # ---- what a settlement moves out of the client's locked balance (rows shared with C07)
    import props.c07 as c07
    c07.payment_window(prog, rep, X, prefix='payment:')
    # ---- transfer / slash
    T = X.fn(ST + 'transfer_balance', CR)
    tsub = [c for c in T.calls if callee_is('balance_table::BalanceTable::<BS>::must_subtract')(c)]
    tadd = [c for c in T.calls if callee_is('balance_table::BalanceTable::<BS>::add')(c)]
    tun = [c for c in T.calls if callee_is(ST + 'unlock_balance')(c)]
    rep.need('K5', 'transfer:sites', len(tsub) == 1 and len(tadd) == 1 and len(tun) == 1 and all(result_fate(T, c) == 'try' for c in tsub + tadd + tun),
             'escrow -= from, unlock(from), escrow += to, each propagated', X.loc(T))
    for c in tsub:
        X.arg_has('K10', 'transfer:debit-payer', c, 1, ['P:3'], 'payer escrow is debited', narrow=False)
        X.arg_has('K10', 'transfer:debit-amount', c, 2, ['P:5'], 'by the amount', narrow=False)
    for c in tun:
        X.arg_has('K10', 'transfer:unlock-payer', c, 2, ['P:3'], 'payer lock is released', narrow=False)
        X.arg_has('K10', 'transfer:unlock-amount', c, 3, ['P:5'], 'by the amount', narrow=False)
        X.arg_has('K10', 'transfer:unlock-reason', c, 4, ['E:Reason::ClientStorageFee'], 'as client storage fee', narrow=False)
    for c in tadd:
        X.arg_has('K10', 'transfer:credit-payee', c, 1, ['P:4'], 'payee escrow is credited', narrow=False, forbid=['P:3'])
        X.arg_has('K10', 'transfer:credit-amount', c, 2, ['P:5'], 'by the same amount', narrow=False)
        X.followed_by('K7', 'transfer:stored', T, [c.bb], X.write_blocks(T, 'State', 'escrow_table'), 'the escrow table root is stored')
    X.guard('K6b', 'transfer:non-negative', T, [c.bb for c in tsub], m_pred('is_negative', ['P:5'], False), 'negative amount => Err')
    S = X.fn(ST + 'slash_balance', CR)
    ssub = [c for c in S.calls if callee_is('balance_table::BalanceTable::<BS>::must_subtract')(c)]
    sun = [c for c in S.calls if callee_is(ST + 'unlock_balance')(c)]
    rep.need('K5', 'slash:sites', len(ssub) == 1 and len(sun) == 1 and result_fate(S, ssub[0]) == 'try' and result_fate(S, sun[0]) in ('try', 'returned'), 'escrow -= party and unlock(party)', X.loc(S))
    for c in ssub:
        X.arg_has('K10', 'slash:party', c, 1, ['P:3'], 'slashed party escrow is debited', narrow=False)
        X.arg_has('K10', 'slash:amount', c, 2, ['P:4'], 'by the amount', narrow=False)
        X.followed_by('K7', 'slash:stored', S, [c.bb], X.write_blocks(S, 'State', 'escrow_table'), 'the escrow table root is stored')
    for c in sun:
        X.arg_has('K10', 'slash:unlock-party', c, 2, ['P:3'], 'and its lock released', narrow=False)
        X.arg_has('K10', 'slash:unlock-amount', c, 3, ['P:4'], 'by the same amount', narrow=False)
        X.arg_has('K10', 'slash:unlock-reason', c, 4, ['P:5'], 'under the given reason', narrow=False)
    X.guard('K6b', 'slash:non-negative', S, [c.bb for c in ssub], m_pred('is_negative', ['P:4'], False), 'negative amount => Err')
    # ---- balance table primitives
    BT = 'balance_table::BalanceTable::<BS>::'
    SM = X.fn(BT + 'subtract_with_minimum', CR)
    a = prog.narrow.local(SM, 0)
    rep.need('K10', 'subtract_with_minimum:formula', has_all(a, ['C:core::cmp::min', 'C:core::cmp::max', 'P:3', 'P:4', 'C:BalanceTable::<BS>::get']) and has_atom(a, 'C:::sub'),
             'sub = min(max(0, prev - floor), req); derives from %s' % sendsmod.pretty(a), X.loc(SM))
    for c in SM.calls:
        if callee_is(BT + 'add')(c):
            at = prog.narrow.operand(SM, c.args[2])
            rep.need('K10', 'subtract_with_minimum:debits-what-it-returns', has_atom(at, 'C:core::cmp::min') and (has_atom(at, 'C:::neg')), 'the balance is reduced by exactly the returned amount', c.where)
            rep.need('K8', 'subtract_with_minimum:propagated', result_fate(SM, c) == 'try', 'error propagated', c.where)
    MS = X.fn(BT + 'must_subtract', CR)
    X.guard('K6b', 'must_subtract:covered', MS, [c.bb for c in MS.calls if callee_is(BT + 'add')(c)], m_rel('gt', ['P:3'], ['C:BalanceTable::<BS>::get'], False), 'req > prev => Err')
    AD = X.fn(BT + 'add', CR)
    X.guard('K6b', 'add:non-negative', AD, [c.bb for c in AD.calls if (c.callee or '').endswith('Map2::<BS, K, V>::set')], m_pred('is_negative', ['P:3'], False), 'negative sum => Err')
    # ---- withdraw / add entry points
    WE = X.fn(ST + 'withdraw_balance_from_escrow_table', CR)
    sw_ = [c for c in WE.calls if callee_is(BT + 'subtract_with_minimum')(c)]
    rep.need('K5', 'withdraw_from_escrow:site', len(sw_) == 1 and result_fate(WE, sw_[0]) == 'try', 'one subtract_with_minimum(..)? expected', X.loc(WE))
    for c in sw_:
        X.arg_has('K10', 'withdraw_from_escrow:floor-is-locked', c, 3, ['F:State.locked_table', 'C:BalanceTable::<BS>::get'], 'the floor is the party\'s locked balance', narrow=False, forbid=['F:State.escrow_table'])
        X.arg_has('K10', 'withdraw_from_escrow:from-escrow', c, 0, ['F:State.escrow_table'], 'taken from the escrow table', narrow=False)
        X.arg_has('K10', 'withdraw_from_escrow:party', c, 1, ['P:3'], 'of the given party', narrow=False)
        X.arg_has('K10', 'withdraw_from_escrow:request', c, 2, ['P:4'], 'up to the requested amount', narrow=False)
        X.followed_by('K7', 'withdraw_from_escrow:stored', WE, [c.bb], X.write_blocks(WE, 'State', 'escrow_table'), 'escrow root stored')
    for c in WE.calls:
        if callee_is(BT + 'get')(c):
            X.arg_has('K10', 'withdraw_from_escrow:floor-of-same-party', c, 1, ['P:3'], 'locked balance of the same party', narrow=False)
    rep.need('K10', 'withdraw_from_escrow:returns-extracted', has_atom(prog.narrow.local(WE, 0), 'C:BalanceTable::<BS>::subtract_with_minimum'), 'returns what was extracted', X.loc(WE))
    W = X.fn('Actor::withdraw_balance', CR)
    nx = sendsmod.exit_code_rule(X, rep, sendsmod.all_sends(prog, crates=(CR,)), {})
    rep.floor('K8', 'market_send_sites_exit_code', nx, 12)
    snd = [c for c in W.calls if sendsmod.is_send(c)]
    rep.need('K5', 'withdraw:send', len(snd) == 1, 'one withdrawal send', X.loc(W))
    for c in snd:
        X.arg_has('K10', 'withdraw:recipient', c, 1, ['T:fil_actor_market::escrow_address.1'], 'paid to the recipient component of escrow_address', forbid=['C:MessageInfo::caller', 'T:fil_actor_market::escrow_address.2'])
        X.arg_has('K10', 'withdraw:amount-is-extracted', c, 4, ['C:State::withdraw_balance_from_escrow_table'], 'pays exactly what was extracted from escrow', forbid=['F:WithdrawBalanceParams.amount'] if False else [])
        rep.need('K8', 'withdraw:propagated', result_fate(W, c) == 'try', 'a failed payout aborts', c.where)
    for c in W.calls:
        if (c.defp or '').endswith('validate_immediate_caller_is'):
            X.arg_has('K10', 'withdraw:approvers', c, 1, ['T:fil_actor_market::escrow_address.2'], 'callers validated against the approved set', forbid=['T:fil_actor_market::escrow_address.1'] if False else [])
    for g in prog.family(W):
        for c in g.calls:
            if callee_is(ST + 'withdraw_balance_from_escrow_table')(c):
                X.arg_has('K10', 'withdraw:nominal', c, 2, ['T:fil_actor_market::escrow_address.0'], 'escrow entry of the nominal (resolved) address', narrow=False)
                X.arg_has('K10', 'withdraw:requested', c, 3, ['F:WithdrawBalanceParams.amount'], 'requested amount', narrow=False)
    X.guard('K6b', 'withdraw:non-negative', W, [c.bb for c in snd], m_rel('lt', ['F:WithdrawBalanceParams.amount'], ['C:zero'], False), 'negative amount => Err')
    withdraw_gates(prog, rep, X)
    # the other end of escrow_address for miners: the market asks the miner itself, and the miner answers with its owner / worker
    RM = X.fn('request_miner_control_addrs', CR)
    q = [c for c in RM.calls if sendsmod.is_send(c)]
    rep.need('K5', 'control-addrs:query', len(q) == 1 and result_fate(RM, q[0]) == 'try', 'one ControlAddresses query, propagated', X.loc(RM))
    for c in q:
        X.arg_has('K10', 'control-addrs:asks-the-miner', c, 1, ['P:2'], 'the query goes to the miner whose escrow is concerned')
        X.arg_has('K10', 'control-addrs:method', c, 2, ['K:CONTROL_ADDRESSES_METHOD'], 'ControlAddresses')
    rc = {i: ret_components(prog, RM, i) for i in (0, 1)}
    for i, fld, other in ((0, 'owner', 'worker'), (1, 'worker', 'owner')):
        rep.need('K10', 'control-addrs:component-%d-is-%s' % (i, fld), len(rc[i]) == 1 and has_atom(rc[i][0], 'F:GetControlAddressesReturnParams.' + fld) and
                 not has_atom(rc[i][0], 'F:GetControlAddressesReturnParams.' + other) and not has_atom(rc[i][0], 'F:GetControlAddressesReturnParams.control_addresses'),
                 'component %d of the reply is the miner\'s %s' % (i, fld), X.loc(RM))
    X.const_is('K11', 'CONTROL_ADDRESSES_METHOD', 2, CR)
    import dispatch as _dispatch
    ents = [e for e in _dispatch.extract(prog)[0] if e.crate == 'fil_actor_miner' and e.variant == 'ControlAddresses']
    rep.need('K1', 'control-addrs:miner-method-2', len(ents) == 1 and str(ents[0].number) == '2' and ents[0].handler.endswith('control_addresses'),
             'miner method 2 dispatches to control_addresses (found %s)' % [(e.number, e.handler) for e in ents], None)
    MCA = X.fn('Actor::control_addresses', 'fil_actor_miner')
    for fld, others in (('owner', ('worker', 'beneficiary', 'pending_owner_address', 'control_addresses')), ('worker', ('owner', 'beneficiary', 'control_addresses', 'pending_worker_key')),
                        ('control_addresses', ('beneficiary',))):
        X.value_from('K10', 'control-addrs:miner-reports-%s' % fld, MCA, X.agg_field_atoms(MCA, 'GetControlAddressesReturn', fld), ['F:MinerInfo.' + fld, 'C:get_miner_info'],
                     'the reported %s is the miner info\'s %s' % (fld, fld), forbid=['F:MinerInfo.' + o for o in others], copy=True)
    AB = X.fn('Actor::add_balance', CR)
    for g in prog.family(AB):
        for c in g.calls:
            if callee_is(ST + 'add_balance_to_escrow_table')(c):
                X.arg_has('K10', 'add_balance:credits-received-value', c, 3, ['C:MessageInfo::value_received'], 'escrow is credited with exactly the value received', narrow=False)
                X.arg_has('K10', 'add_balance:nominal', c, 2, ['T:fil_actor_market::escrow_address.0'], 'under the nominal address', narrow=False)
    X.guard('K6b', 'add_balance:positive', AB, [c.bb for c in AB.calls if (c.defp or '') == TX], m_rel('le', ['C:MessageInfo::value_received'], ['C:zero'], False), 'value <= 0 => Err')
    # ---- running totals (amounts, power, datacap) accumulated in loops keep their earlier contributions
    X.accumulator_integrity('K12', 'running-totals', ['fil_actor_market'], 'running totals of amounts')
    X.no_dropped_results('K14', 'results-not-discarded', ['fil_actor_market'], 'no Result of a call is discarded')
    X.tolerated_failures('K15', 'tolerated-failures', ['fil_actor_market'], 'tolerated failures are the reviewed ones')
    X.write_sites_preserved('K16', 'updates-present', 'fil_actor_market', ['State.escrow_table', 'State.locked_table', 'State.total_client_locked_collateral', 'State.total_provider_locked_collateral', 'State.total_client_storage_fee'], 'state updates do not disappear')



def withdraw_gates(prog, rep, X, prefix=''):
    """who may withdraw a participant's escrow, and to whom it is paid (also part of C11: market.WithdrawBalance validates its
    caller against exactly the approved set computed here)"""
    EA = X.fn('escrow_address', CR)
    comps = {i: ret_components(prog, EA, i) for i in (0, 1, 2)}
    miner = [k for k in range(len(comps[1])) if has_atom(comps[1][k], 'T:fil_actor_market::request_miner_control_addrs.0')]
    plain = [k for k in range(len(comps[1])) if k not in miner]
    rep.need('K10', prefix + 'escrow_address:two-shapes', len(miner) == 1 and len(plain) == 1, 'one result for miners and one for everybody else', X.loc(EA))
    if len(miner) == 1 and len(plain) == 1:
        m, p = miner[0], plain[0]
        rep.need('K10', prefix + 'escrow_address:miner-recipient-is-owner', has_atom(comps[1][m], 'T:fil_actor_market::request_miner_control_addrs.0') and not has_atom(comps[1][m], 'T:fil_actor_market::request_miner_control_addrs.1')
                 and not has_atom(comps[1][m], 'T:fil_actor_market::request_miner_control_addrs.2'), 'a miner\'s funds go to its owner', X.loc(EA))
        wide = X.S.local(EA, 0)
        extra_src = sorted(atom_str(a) for a in comps[2][m] if (a[0] in ('T', 'P') or a[0] == 'F' and a[1].startswith('fil_actor')) and
                           not (a[0] == 'T' and str(a[2]) in ('0', '1') and (a[1] or '').endswith('request_miner_control_addrs')))
        rep.need('K10', prefix + 'escrow_address:miner-approvers', has_all(comps[2][m], ['T:fil_actor_market::request_miner_control_addrs.0', 'T:fil_actor_market::request_miner_control_addrs.1']) and not extra_src,
                 'exactly owner and worker may withdraw for a miner (not its control addresses, not the caller); other sources found: %s' % extra_src, X.loc(EA))
        rep.need('K10', prefix + 'escrow_address:plain-self', has_atom(comps[1][p], 'C:Runtime::resolve_address') and has_atom(comps[2][p], 'C:Runtime::resolve_address') and not has_atom(comps[2][p], 'C:request_miner_control_addrs'),
                 'everybody else withdraws to, and only by, itself', X.loc(EA))
    X.guard('K6b', prefix + 'escrow_address:miner-branch', EA, [c.bb for c in EA.calls if callee_is('request_miner_control_addrs')(c)],
            m_rel('eq', ['C:Runtime::resolve_builtin_actor_type'], ['E:Type::Miner'], True), 'control addresses are requested only for miner actors')


def ret_components(prog, f, idx):
    out = []
    for b in f.blocks:
        for st in b['s']:
            if st[0] == '=' and st[1][0] == 0 and not st[1][1] and st[2][0] == 'agg' and st[2][1].get('variant') == 'Ok' and st[2][2]:
                op = st[2][2][0]
                if op[0] in ('m', 'c') and not op[1][1]:
                    for d in f.defs.get(op[1][0], []):
                        if d[0] == '=' and d[4][0] == 'agg' and d[4][1].get('k') == 'tuple' and idx < len(d[4][2]):
                            out.append(prog.narrow.operand(f, d[4][2][idx]))
    return out
