"""C19 - EVM contract state stays coherent across nested, re-entrant and reverted calls."""
from core import *
from rules import *
import sends as sendsmod

LEVEL = 'other'
LEVEL_TEXT = ('Structural facts over the MIR of the EVM System cache: every mutation of cached contract state (slots, transient slots, nonce, bytecode, '
              'tombstone) marks the cache dirty on the paths that change it; every outbound send of the actor goes through the one routine that '
              'flushes before and reloads after a successful call; flush persists every cached field; results are returned only after a flush on '
              'the Return outcome while Revert yields an error; transient-data lifespan and tombstone are built from (origin, nonce) of the '
              'message and compared on load/reload; DELEGATECALL re-enters the same actor with the frame\'s caller and value. Visibility '
              'over arbitrary call trees (which needs execution) is not decided.')
TECHNIQUE = 'single-writer / single-caller sets, followed-by (post-domination) and guard dominance over rustc MIR CFGs, aggregate-field provenance slices'
CR = 'fil_actor_evm'
SYS = "interpreter::system::System::<'r, RT>::"


def none_writes(X, f):
    """blocks writing System.saved_state_root"""
    return X.write_blocks(f, 'System', 'saved_state_root', kinds=('assign',))


def run(prog, rep, tier, cfg):
    X = Ctx(prog, rep)
    rep.explanation = LEVEL_TEXT
    rep.not_decided = 'visibility semantics of writes across arbitrary call trees; revert semantics of the FVM itself (trusted)'
    sysfn = lambda n: X.fn(SYS + n, CR)
    # ---- single writers of the cached fields
    X.writers('K4', 'System', 'saved_state_root', [SYS + n for n in ('increment_nonce', 'set_bytecode', 'set_storage', 'set_transient_storage', 'mark_selfdestructed', 'reload', 'flush')],
              crate=CR, constructors=[SYS + 'new', SYS + 'load'])
    X.writers('K4', 'System', 'slots', [SYS + n for n in ('set_storage', 'reload', 'flush', 'get_storage')], required=[SYS + 'set_storage', SYS + 'reload', SYS + 'flush'], crate=CR,
              constructors=[SYS + 'new', SYS + 'load'])
    X.writers('K4', 'System', 'transient_slots', [SYS + n for n in ('set_transient_storage', 'reload', 'flush', 'get_transient_storage')],
              required=[SYS + 'set_transient_storage', SYS + 'reload', SYS + 'flush'], crate=CR, constructors=[SYS + 'new', SYS + 'load'])
    X.writers('K4', 'System', 'bytecode', [SYS + 'set_bytecode', SYS + 'reload'], crate=CR, constructors=[SYS + 'new', SYS + 'load'])
    X.writers('K4', 'System', 'tombstone', [SYS + 'mark_selfdestructed', SYS + 'reload'], crate=CR, constructors=[SYS + 'new', SYS + 'load'])
    X.writers('K4', 'System', 'current_transient_data_lifespan', [], crate=CR, constructors=[SYS + 'new', SYS + 'load'])
    # ---- dirty flag
    for n in ('increment_nonce', 'set_bytecode', 'mark_selfdestructed'):
        F = sysfn(n)
        nw = none_writes(X, F)
        X.followed_by('K7', 'dirty:%s' % n, F, [0], nw, 'unconditional mutator marks the cache dirty on every path') if 0 not in nw else rep.ob('K7', 'dirty:%s' % n, True, 'dirty mark in the entry block', X.loc(F))
        vals = X.stmt_rvalue_atoms(F, 'System', 'saved_state_root', narrow=False)
        X.value_from('K10', 'dirty:%s:none' % n, F, vals, ['E:Option::None'], 'dirty = saved_state_root := None', forbid=['E:Option::Some'])
    for n, fld in (('set_storage', 'slots'), ('set_transient_storage', 'transient_slots')):
        F = sysfn(n)
        nw = none_writes(X, F)
        muts = [c for c in F.calls if ((c.callee or '').endswith('Kamt::<BS, K, V, H, N>::set') or (c.callee or '').endswith('Kamt::<BS, K, V, H, N>::delete') or
                                       (c.callee or '').endswith('::set') or (c.callee or '').endswith('::delete')) and has_atom(prog.slicer.operand(F, c.args[0]), 'F:System.' + fld)]
        rep.need('K7', 'dirty:%s:mutations' % n, len(muts) == 2, 'one set and one delete on System.%s expected, found %d' % (fld, len(muts)), X.loc(F))
        # the `changed` test: a boolean derived from the results of both mutations; on its true arm the dirty mark must follow
        ch = [c for c in conds(F, prog.slicer) if c.kind == 'pred' and c.pred in ('boolvar', 'flag', 'field') and has_atom(c.A, 'F:System.' + fld) and all(
            has_atom(c.A, 'C:' + (m.callee or '').split('::')[-1]) for m in muts)]
        rep.need('K7', 'dirty:%s:changed-test' % n, len(ch) == 1 and bool(nw), 'a single test of "changed" (derived from set/delete results) must guard the dirty mark', X.loc(F))
        if len(ch) == 1 and nw:
            c = ch[0]
            ok = not F.ok_returns_from([c.arms[True]], blocked=set(nw))
            rep.need('K7', 'dirty:%s:marked-when-changed' % n, ok, 'when the slot changed every success path must mark the cache dirty', X.loc(F, nw[0]))
            vals = X.stmt_rvalue_atoms(F, 'System', 'saved_state_root', narrow=False)
            X.value_from('K10', 'dirty:%s:none' % n, F, vals, ['E:Option::None'], 'dirty = saved_state_root := None', forbid=['E:Option::Some'])
    # ---- flush / reload protocol
    sends = X.callers('K5', 'Runtime::send* in evm', lambda c: sendsmod.is_send(c) and c.fn.crate == CR,
                      [SYS + 'send_raw', SYS + 'transfer', 'interpreter::instructions::lifecycle::selfdestruct'])
    SR = sysfn('send_raw')
    sb = [c.bb for c in SR.calls if sendsmod.is_send(c)]
    X.call_guard('K6a', 'send_raw:flush-before', SR, sb, callee_is(SYS + 'flush'), 'self.flush()?')
    rl = [c for c in SR.calls if callee_is(SYS + 'reload')(c)]
    rep.need('K7', 'send_raw:reload-site', len(rl) == 1 and result_fate(SR, rl[0]) == 'try', 'one reload()? expected after the send', X.loc(SR))
    succ = X.find_conds(SR, m_pred('is_success', [], True))
    ok = False
    if len(succ) == 1 and rl:
        c, arm = succ[0]
        ok = not SR.ok_returns_from([c.arms[arm]], blocked={rl[0].bb}) and SR.dominates(sb[0], c.bb) if sb else False
    rep.need('K7', 'send_raw:reload-on-success', ok, 'after a successful call (exit code success) every path must reload the state before returning', X.loc(SR))
    X.precedes('K7', 'send_raw:reload-after-send', SR, sb, [c.bb for c in rl], 'reload happens after the send')
    SD = sysfn('send')
    X.must_reach('K3', 'System::send->send_raw', SD, callee_is(SYS + 'send_raw'), 'System::send_raw')
    X.guard('K6b', 'System::send:non-success-is-error', SD, [bi for bi in SD.ret_blocks()], m_pred('is_success', [], True), 'exit code not success => Err')
    for name in ('interpreter::instructions::call::call_generic', 'interpreter::instructions::lifecycle::create_common', 'interpreter::precompiles::fvm::call_actor_shared'):
        F = X.try_fn('K3', name, CR)
        if F is not None:
            X.must_reach('K3', '%s->flushing-send' % name.split('::')[-1], F, lambda c: callee_is(SYS + 'send_raw')(c) or callee_is(SYS + 'send')(c), 'System::send / send_raw')
            direct = [c for c in F.calls if sendsmod.is_send(c)]
            rep.need('K5', '%s:no-raw-send' % name.split('::')[-1], not direct, 'must not call Runtime::send directly', X.loc(F))
    FL = sysfn('flush')
    ssr = [c.bb for c in FL.calls if (c.defp or '') == RUNTIME + 'set_state_root']
    X.followed_by('K7', 'flush:mark-clean', FL, ssr, none_writes(X, FL), 'after set_state_root the cache is marked clean (saved_state_root = Some(new root))')
    for fld, pats in (('nonce', ['F:System.nonce']), ('tombstone', ['F:System.tombstone']), ('contract_state', ['F:System.slots', 'C:flush']),
                      ('bytecode', ['F:System.bytecode']), ('bytecode_hash', ['F:System.bytecode']), ('transient_data', ['F:System.transient_slots', 'F:System.current_transient_data_lifespan'])):
        X.value_from('K10', 'flush:persists:%s' % fld, FL, X.agg_field_atoms(FL, 'State', fld, narrow=False), pats, 'flush writes the cached %s' % fld)
    for c in FL.calls:
        if (c.defp or '') == RUNTIME + 'set_state_root':
            X.arg_has('K10', 'flush:root-is-new-state', c, 1, ['C:put_cbor'], 'the new state root is the CID of the freshly written state', narrow=False)
    X.guard('K6b', 'flush:skip-only-when-clean', FL, ssr, m_pred('is_some', ['F:System.saved_state_root'], False), 'clean cache => nothing to flush', success_only=False)
    RL = sysfn('reload')
    X.followed_by('K7', 'reload:mark-clean', RL, X.write_blocks(RL, 'System', 'nonce'), none_writes(X, RL), 'a reload ends with saved_state_root = Some(root)')
    for fld, src in (('nonce', 'F:State.nonce'), ('tombstone', 'F:State.tombstone')):
        X.value_from('K10', 'reload:%s' % fld, RL, X.stmt_rvalue_atoms(RL, 'System', fld, narrow=False), [src], 'reload takes %s from the stored state' % fld, copy=True)
    sr = [c for c in RL.calls if (c.callee or '').endswith('::set_root')]
    rep.need('K7', 'reload:set_root-sites', len(sr) == 2 and all(result_fate(RL, c) == 'try' for c in sr), 'slots and transient slots are re-rooted with errors propagated (found %d)' % len(sr), X.loc(RL))
    # ---- lifespans / tombstone
    for fname, adt in (('interpreter::system::get_current_transient_data_lifespan', 'TransientDataLifespan'), ('current_tombstone', 'Tombstone')):
        F = X.fn(fname, CR)
        X.value_from('K10', '%s:origin' % adt, F, X.agg_field_atoms(F, adt, 'origin', narrow=False), ['C:MessageInfo::origin'], '%s.origin = message().origin()' % adt, forbid=['C:MessageInfo::caller', 'C:MessageInfo::receiver'])
        X.value_from('K10', '%s:nonce' % adt, F, X.agg_field_atoms(F, adt, 'nonce', narrow=False), ['C:MessageInfo::nonce'], '%s.nonce = message().nonce()' % adt)
    X.callers('K5', 'TransientDataLifespan construction', lambda c: False, [], required=[])
    for adt, allowed in (('TransientDataLifespan', ['interpreter::system::get_current_transient_data_lifespan']), ('Tombstone', ['current_tombstone'])):
        X.writers('K4', adt, 'origin', [], crate=CR, constructors=allowed)
        X.writers('K4', adt, 'nonce', [], crate=CR, constructors=allowed)
    ID = X.fn('is_dead', CR)
    fam = prog.family(ID)
    ok = any(any(callee_is('current_tombstone')(c) for c in g.calls) for g in fam) and any(
        any(c.kind == 'rel' and c.rel == 'ne' for c in conds(g, prog.slicer)) or any((c.callee or '').endswith('::ne') for c in g.calls) for g in fam)
    rep.need('K6b', 'is_dead:compares-with-current', ok, 'is_dead = tombstone.is_some_and(|t| t != current_tombstone(rt))', X.loc(ID))
    MS = sysfn('mark_selfdestructed')
    X.value_from('K10', 'selfdestruct:tombstone-is-current', MS, X.stmt_rvalue_atoms(MS, 'System', 'tombstone', narrow=False), ['C:current_tombstone'], 'tombstone := current_tombstone(rt)')
    LD = sysfn('load')
    lw = [c.bb for c in LD.calls if (c.callee or '').endswith('::load_with_config') and has_atom(prog.slicer.operand(LD, c.args[0]), 'F:TransientData.transient_data_state')]
    X.guard('K6b', 'load:transient-only-same-lifespan', LD, lw, m_rel('eq', ['C:get_current_transient_data_lifespan'], ['F:TransientData.transient_data_lifespan'], True, a_forbid=['F:TransientDataLifespan.origin', 'F:TransientDataLifespan.nonce'], b_forbid=['F:TransientDataLifespan.origin', 'F:TransientDataLifespan.nonce']),
            'stored transient data is used only if its lifespan equals the current (origin, nonce)')
    dead = X.find_conds(LD, m_pred('is_dead', [], True))
    news = [c for c in LD.calls if callee_is(SYS + 'new')(c)]
    ok = False
    if len(dead) == 1 and news:
        c, arm = dead[0]
        r = LD.reach([c.arms[arm]])
        ok = any(n.bb in r and has_atom(prog.slicer.operand(LD, n.args[1]), 'V:1') for n in news)
        # and the live arm does not construct the empty read-only system
        ok = ok and not any(n.bb in LD.reach([c.arms[not arm]]) for n in news)
    rep.need('K6b', 'load:dead-contract-is-empty-readonly', ok, 'a dead contract loads as System::new(rt, true) and only then', X.loc(LD))
    rs = [c.bb for c in RL.calls if (c.callee or '').endswith('::set_root') and has_atom(prog.slicer.operand(RL, c.args[1]), 'F:TransientData.transient_data_state')]
    X.guard('K6b', 'reload:transient-only-same-lifespan', RL, rs, m_rel('eq', ['F:TransientData.transient_data_lifespan'], ['F:System.current_transient_data_lifespan'], True, a_forbid=['F:TransientDataLifespan.origin', 'F:TransientDataLifespan.nonce'], b_forbid=['F:TransientDataLifespan.origin', 'F:TransientDataLifespan.nonce']),
            'reload keeps transient data only of the same lifespan')
    # reload: on every path that re-roots the persistent slots the transient slots were re-rooted or cleared first
    main_rr = [c.bb for c in RL.calls if (c.callee or '').endswith('::set_root') and has_atom(prog.slicer.operand(RL, c.args[1]), 'F:State.contract_state')]
    tr_upd = [c.bb for c in RL.calls if ((c.callee or '').endswith('::set_root') or (c.callee or '').endswith('::clear')) and X.updates_field(c, 'System', 'transient_slots')]
    rep.need('K5', 'reload:transient-update-sites', len(main_rr) == 1 and len(tr_upd) == 2, 'reload re-roots the persistent slots once and either re-roots or clears the transient slots (found %d / %d sites)' % (len(main_rr), len(tr_upd)), X.loc(RL))
    X.precedes('K7', 'reload:transient-always-refreshed', RL, tr_upd, main_rr, 'a reload never keeps the in-memory transient slots: they are re-rooted (same lifespan) or cleared (otherwise, including when the stored state has none)')
    # liveness of a contract is decided only by is_dead (tombstone of *another* top-level message); nothing else may branch on a tombstone
    bad = []
    for f in prog.bodies():
        if f.crate != CR or f.kind in ('promoted', 'const') or NEUTRAL.search(f.id):
            continue
        if f.id.startswith(CR + '::is_dead'):
            continue
        for c in conds(f, prog.slicer):
            flds = []
            if c.kind == 'pred':
                flds = getattr(c, 'direct', []) or []
            elif c.kind == 'variant':
                flds = place_fields(c.place)
            if flds and flds[-1][1] == 'tombstone':
                bad.append((f.id, c.bb))
    rep.need('K5', 'tombstone:liveness-only-via-is_dead', not bad, 'branches on a tombstone outside is_dead (a zombie must stay alive until its top-level message ends): %s' % bad[:4])
    for hn in ('EvmContractActor::bytecode', 'EvmContractActor::bytecode_hash'):
        H = X.fn(hn, CR)
        X.guard('K6b', '%s:code-hidden-only-when-dead' % hn.split('::')[-1], H, [b for b in H.ret_blocks()], m_pred('is_dead', [], False), 'code is reported unless is_dead', success_only=True) if False else \
            rep.need('K6b', '%s:consults-is_dead' % hn.split('::')[-1], len(X.find_conds(H, m_pred('is_dead', [], True))) == 1, 'the code getters decide emptiness by is_dead', X.loc(H))
    RS = sysfn('resurrect')
    X.guard('K6b', 'resurrect:only-dead', RS, [c.bb for c in RS.calls if callee_is(SYS + 'new')(c)], m_pred('is_dead', [], True), '!is_dead => Err')
    CRT = sysfn('create')
    X.guard('K6b', 'create:only-empty', CRT, [c.bb for c in CRT.calls if callee_is(SYS + 'new')(c)], m_rel('ne', ['C:Runtime::get_state_root'], ['K:EMPTY_ARR_CID'], False), 'state root != empty => Err')
    # ---- outcomes
    II = X.fn('invoke_contract_inner', CR)
    okb = [bi for bi, b in enumerate(II.blocks) for st in b['s'] if st[0] == '=' and st[1][0] == 0 and not st[1][1] and st[2][0] == 'agg' and st[2][1].get('variant') == 'Ok'
           and has_atom(prog.slicer.rvalue(II, st[2]), 'F:Output.return_data')]
    X.call_guard('K6a', 'invoke:flush-before-return', II, okb, callee_is(SYS + 'flush'), 'system.flush()? on the Return outcome')
    rev = [c for c in conds(II, prog.slicer) if c.kind == 'variant' and has_atom(c.A, 'F:Output.outcome')]
    rep.need('K6b', 'invoke:outcome-switch', len(rev) >= 1, 'the outcome (Return / Revert) must be inspected', X.loc(II))
    if rev:
        c = rev[0]
        oadt = [a for k, a in prog.adts.items() if k.endswith('output::Outcome')]
        rv = [v['discr'] for v in oadt[0]['variants'] if v['name'] == 'Revert'][0] if oadt else 1
        arm = c.arms.get(rv, c.arms.get('otherwise'))
        rep.need('K6b', 'invoke:revert-is-error', not II.ok_returns_from([arm]), 'the Revert outcome must end in an error (state discarded by the FVM)', X.loc(II))
    IE = X.fn('initialize_evm_contract', CR)
    sbc = [c.bb for c in IE.calls if callee_is(SYS + 'set_bytecode')(c)]
    X.followed_by('K7', 'constructor:flush-after-set_bytecode', IE, sbc, [c.bb for c in IE.calls if callee_is(SYS + 'flush')(c)], 'deployed code is flushed')
    # ---- DELEGATECALL re-enters self with the frame's caller and value
    CG = X.fn('interpreter::instructions::call::call_generic', CR)
    X.value_from('K10', 'delegatecall:caller', CG, X.agg_field_atoms(CG, 'DelegateCallParams', 'caller', narrow=False), ['F:ExecutionState.caller'], 'delegate frame keeps the caller')
    X.value_from('K10', 'delegatecall:value', CG, X.agg_field_atoms(CG, 'DelegateCallParams', 'value', narrow=False), ['F:ExecutionState.value_received'], 'delegate frame keeps the received value')
    madt = prog.adts.get('fil_actor_evm::Method')
    dnum = [v['discr'] for v in madt['variants'] if v['name'] == 'InvokeContractDelegate'][0] if madt else None
    ds = [c for c in CG.calls if callee_is(SYS + 'send')(c) and (has_atom(prog.narrow.operand(CG, c.args[2]), 'E:Method::InvokeContractDelegate') or
                                                                 has_atom(prog.narrow.operand(CG, c.args[2]), 'V:%s' % dnum))]
    rep.need('K5', 'delegatecall:send', len(ds) == 1, 'one InvokeContractDelegate self-send expected, found %d' % len(ds), X.loc(CG))
    for c in ds:
        X.arg_has('K10', 'delegatecall:to-self', c, 1, ['C:MessageInfo::receiver'], 'delegate call re-enters this very actor')
    ICD = X.fn('EvmContractActor::invoke_contract_delegate', CR)
    for c in ICD.calls:
        if callee_is('invoke_contract_inner')(c):
            X.arg_has('K10', 'delegate:code', c, 2, ['F:DelegateCallParams.code'], 'runs the delegated code', narrow=False)
            X.arg_has('K10', 'delegate:caller', c, 3, ['F:DelegateCallParams.caller'], 'with the original caller', narrow=False)
            X.arg_has('K10', 'delegate:value', c, 4, ['F:DelegateCallParams.value'], 'and the original value', narrow=False)
    # ---- SELFDESTRUCT: balance to the beneficiary, then tombstone
    SDF = X.fn('interpreter::instructions::lifecycle::selfdestruct', CR)
    tr = [c for c in SDF.calls if sendsmod.is_send(c) or callee_is(SYS + 'transfer')(c)]
    mk = [c.bb for c in SDF.calls if callee_is(SYS + 'mark_selfdestructed')(c)]
    rep.need('K5', 'selfdestruct:sites', len(tr) == 1 and len(mk) == 1, 'one balance transfer and one tombstone mark expected', X.loc(SDF))
    for c in tr:
        vi = 4 if sendsmod.is_send(c) else 2
        X.arg_has('K10', 'selfdestruct:whole-balance', c, vi, ['C:Runtime::current_balance'], 'the whole balance moves to the beneficiary')
        rep.need('K8', 'selfdestruct:transfer-propagated', result_fate(SDF, c) == 'try', 'a failed transfer aborts the selfdestruct', c.where)
        X.precedes('K7', 'selfdestruct:transfer-before-mark', SDF, [c.bb], mk, 'funds move before the tombstone is set')
    # ---- error discipline: no Result produced in these crates is silently discarded
    X.no_dropped_results('K14', 'results-not-discarded', ['fil_actor_evm'], 'no Result of a call is discarded')
    X.tolerated_failures('K15', 'tolerated-failures', ['fil_actor_evm'], 'tolerated failures are the reviewed ones')
    X.write_sites_preserved('K16', 'updates-present', 'fil_actor_evm', ['System.saved_state_root', 'System.nonce', 'System.bytecode', 'System.tombstone', 'System.slots', 'System.transient_slots', 'System.current_transient_data_lifespan'], 'state updates do not disappear')

