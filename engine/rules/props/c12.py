"""C12 - multisig: quorum of current signers, at most once, within the lock."""
import re
from core import *
from rules import *
import sends as sendsmod

LEVEL = 'other'
LEVEL_TEXT = ('Structural necessary conditions decided on every path of the multisig actor: the only outbound send is guarded by the threshold '
              'comparison, the availability check and delete-before-send; signer gates guard every pending-set mutation; the cancel and '
              'repeat-approval rejections, admin single-writers (self-call only, via C11), purge on remove/swap and the signer/threshold '
              'bounds are each checked as guard-dominance facts over MIR. The linear-vesting arithmetic of amount_locked is not decided.')
TECHNIQUE = 'guard dominance by CFG edge deletion, single-writer / single-caller sets, call-graph reachability over rustc MIR'
CR = 'fil_actor_multisig'


def ok_rets(f):
    return f.ret_blocks()


def run(prog, rep, tier, cfg):
    X = Ctx(prog, rep)
    rep.explanation = LEVEL_TEXT
    rep.not_decided = 'amount_locked arithmetic (ceil division of the linear schedule); hash equality of proposals'
    E = X.fn('execute_transaction_if_approved', CR)
    # --- only send site
    sites = X.callers('K5', 'Runtime::send* in multisig', lambda c: sendsmod.is_send(c) and c.fn.crate == CR, ['execute_transaction_if_approved'])
    rep.floor('K5', 'multisig_send_sites', len(sites), 1)
    send_bbs = [c.bb for c in E.calls if sendsmod.is_send(c)]
    # --- threshold guard: approved.len() >= num_approvals_threshold
    X.guard('K6b', 'execute:threshold', E, send_bbs,
            m_rel('ge', ['F:Transaction.approved'], ['F:State.num_approvals_threshold'], True, pure=True),
            'len(txn.approved) >= st.num_approvals_threshold')
    # --- availability check dominates the send, on the right operands
    X.call_guard('K6a', 'execute:check_available', E, send_bbs, callee_is('State::check_available'), 'State::check_available(..)?')
    for c in E.calls:
        if callee_is('State::check_available')(c):
            X.arg_has('K10', 'execute:check_available:balance', c, 1, ['C:Runtime::current_balance'], 'availability is checked against the current balance')
            X.arg_has('K10', 'execute:check_available:amount', c, 2, ['F:Transaction.value'], 'availability is checked for the transaction value')
            X.arg_has('K10', 'execute:check_available:epoch', c, 3, ['C:Runtime::curr_epoch'], 'availability is checked at the current epoch')
    for c in E.calls:
        if sendsmod.is_send(c):
            X.arg_has('K10', 'execute:send:to', c, 1, ['F:Transaction.to'], 'send recipient')
            X.arg_has('K10', 'execute:send:method', c, 2, ['F:Transaction.method'], 'send method')
            X.arg_has('K10', 'execute:send:value', c, 4, ['F:Transaction.value'], 'send value')
    # --- delete-before-send
    def deleting_tx(c):
        if c.callee != RUNTIME + 'transaction' and c.defp != RUNTIME + 'transaction':
            return False
        for cl in c.cl:
            g = prog.fns.get(cl)
            if g is None:
                continue
            dels = [x for x in g.calls if (x.callee or '').endswith('Map2::<BS, K, V>::delete')]
            wr = X.write_blocks(g, 'State', 'pending_txs')
            if dels and wr:
                # the deleted key is the executed transaction id and the flush result is stored on success paths
                return True
        return False
    X.call_guard('K6a', 'execute:delete-before-send', E, send_bbs, deleting_tx,
                 'transaction(|st| { ptx.delete(txn_id)?; st.pending_txs = ptx.flush()? })?')
    for cl in prog.closures_of(E.id):
        dels = [x for x in cl.calls if (x.callee or '').endswith('Map2::<BS, K, V>::delete')]
        for d in dels:
            X.arg_has('K10', 'execute:delete:key', d, 1, ['P:3'], 'the deleted pending entry is the executed transaction id', narrow=False)
            X.followed_by('K7', 'execute:delete:flushed', cl, [d.bb], X.write_blocks(cl, 'State', 'pending_txs'), 'delete is followed by storing the flushed root')
    # check_available body: the three rejections
    CA = X.fn('State::check_available', CR)
    X.guard('K6b', 'check_available:negative', CA, ok_rets(CA), m_pred('is_negative', ['P:3'], False), 'amount.is_negative() => Err')
    X.guard('K6b', 'check_available:balance', CA, ok_rets(CA), m_rel('lt', ['P:2'], ['P:3'], False), 'balance < amount => Err')
    # the lock comparison guards every Ok except the zero-amount shortcut
    zero = X.find_conds(CA, m_pred('is_zero', ['P:3'], True))
    lock = X.find_conds(CA, m_rel('lt', ['P:2', 'P:3'], ['C:State::amount_locked'], False))
    rep.need('K6b', 'check_available:lock-comparison-present', len(lock) == 1 and len(zero) == 1,
             'check_available must compare (balance - amount) with amount_locked (found %d) and shortcut only zero amounts (found %d)' % (len(lock), len(zero)), X.loc(CA))
    if len(lock) == 1 and len(zero) == 1:
        zc, zt = zero[0]
        lc, lt_ = lock[0]
        r = CA.reach([0], removed=[(zc.bb, zc.arms[zt]), (lc.bb, lc.arms[lt_])], blocked=CA.errblocks)
        rep.need('K6b', 'check_available:locked', not (set(ok_rets(CA)) & r),
                 'Ok must be reachable only for a zero amount or when remaining balance >= amount_locked', X.loc(CA))
        for c in CA.calls:
            if callee_is('State::amount_locked')(c):
                X.arg_has('K10', 'check_available:elapsed', c, 1, ['P:4', 'F:State.start_epoch'], 'elapsed = curr_epoch - start_epoch', narrow=False)
    caller_gates(prog, rep, X)
    # --- admin state: single writers (handlers are Is[receiver] by C11)
    admin = ['Actor::constructor', 'Actor::add_signer', 'Actor::remove_signer', 'Actor::swap_signer',
             'Actor::change_num_approvals_threshold', 'Actor::lock_balance', 'State::set_locked']
    X.writers('K4', 'State', 'signers', ['Actor::add_signer', 'Actor::remove_signer', 'Actor::swap_signer'], crate=CR)
    X.writers('K4', 'State', 'num_approvals_threshold', ['Actor::add_signer', 'Actor::remove_signer', 'Actor::change_num_approvals_threshold'], crate=CR)
    X.writers('K4', 'State', 'initial_balance', ['State::set_locked'], crate=CR)
    X.writers('K4', 'State', 'start_epoch', ['State::set_locked'], crate=CR)
    X.writers('K4', 'State', 'unlock_duration', ['State::set_locked'], crate=CR)
    X.writers('K4', 'State', 'next_tx_id', ['Actor::propose'], crate=CR)
    X.writers('K4', 'State', 'pending_txs', ['Actor::propose', 'Actor::cancel', 'Actor::approve_transaction', 'execute_transaction_if_approved', 'State::purge_approvals'], crate=CR)
    X.callers('K5', 'State::set_locked', callee_is('State::set_locked'), ['Actor::constructor', 'Actor::lock_balance'])
    # every function that writes admin state is a constructor or validates Is[receiver]: cross-check with the C11 matrix
    import json, os
    from props import c11
    matrix = json.load(open(c11.TABLE))['matrix']
    for m in ('AddSigner', 'RemoveSigner', 'SwapSigner', 'ChangeNumApprovalsThreshold', 'LockBalance'):
        row = matrix.get('multisig.' + m)
        rep.need('K2-ref', 'admin-self-call:' + m, bool(row) and row['sites'] == [{'kind': 'is', 'atoms': ['C:MessageInfo::receiver']}],
                 'admin method must be designated Is[message().receiver()] in the C11 matrix')
    # --- purge on remove / swap
    for hname, field in (('remove_signer', 'RemoveSignerParams.signer'), ('swap_signer', 'SwapSignerParams.from')):
        H = X.fn('Actor::' + hname, CR)
        X.must_reach('K3', hname + ':purge_approvals', H, callee_is('State::purge_approvals'), 'State::purge_approvals')
        for cl in prog.closures_of(H.id, recursive=False):
            for pc in [x for x in cl.calls if callee_is('State::purge_approvals')(x)]:
                rep.need('K8', hname + ':purge-propagated', result_fate(cl, pc) in ('try', 'returned'), 'purge_approvals error must be propagated', pc.where)
                X.arg_has('K10', hname + ':purge-target', pc, 2, ['F:' + field], 'approvals purged are those of the removed signer', narrow=False)
                X.arg_has('K10', hname + ':purge-target-resolved', pc, 2, ['C:resolve_to_actor_id', 'C:Address::new_id'], 'approvals are stored under ID addresses: the purged address is the resolved one',
                          forbid=['F:' + field])
                X.followed_by('K7', hname + ':purge-on-success', cl, [b for b in [0]], [pc.bb], 'every success path purges')
    PA = X.fn('State::purge_approvals', CR)
    X.followed_by('K7', 'purge_approvals:persisted', PA, [0], X.write_blocks(PA, 'State', 'pending_txs'), 'purge stores the new pending root on every success path')
    # --- bounds
    AS = X.fn('Actor::add_signer', CR)
    for cl in prog.closures_of(AS.id, recursive=False):
        pushes = [x.bb for x in cl.calls if (x.callee or '').endswith('Vec::<T, A>::push')]
        if not pushes:
            continue
        X.guard('K6b', 'add_signer:max', cl, pushes, m_rel('ge', ['F:State.signers'], ['K:SIGNERS_MAX'], False), 'signers.len() >= SIGNERS_MAX => Err')
        X.guard('K6b', 'add_signer:duplicate', cl, pushes, m_pred('State::is_signer', ['F:AddSignerParams.signer'], False), 'is_signer(new) => Err')
    X.const_is('K11', 'SIGNERS_MAX', 256, CR)
    for hname in ('add_signer', 'remove_signer', 'swap_signer'):
        H = X.fn('Actor::' + hname, CR)
        for cl in prog.closures_of(H.id):
            for c in cl.calls:
                if (c.callee or '').endswith('Vec::<T, A>::push') or callee_is('State::is_signer')(c):
                    X.arg_has('K10', '%s:%s-uses-resolved-id#%d' % (hname, (c.callee or '').split('::')[-1], c.bb), c, 1, ['C:resolve_to_actor_id'],
                              'signers are stored and compared as resolved ID addresses')
    RS = X.fn('Actor::remove_signer', CR)
    for cl in prog.closures_of(RS.id, recursive=False):
        ret = [x.bb for x in cl.calls if (x.callee or '').endswith('::retain')]
        if not ret:
            continue
        X.guard('K6b', 'remove_signer:is-signer', cl, ret, m_pred('State::is_signer', ['F:RemoveSignerParams.signer'], True), 'is_signer(old)')
        X.guard('K6b', 'remove_signer:last', cl, ret, m_rel('eq', ['F:State.signers'], ['V:1'], False), 'signers.len() == 1 => Err')
        X.guard('K6b', 'remove_signer:below-threshold', cl, ret,
                m_rel('lt', ['F:State.signers', 'OP:Sub', 'V:1'], ['F:State.num_approvals_threshold'], False, pure=True), '!decrease && len-1 < threshold => Err',
                assume=[m_boolatoms(['F:RemoveSignerParams.decrease'], True)])
        dec = X.write_blocks(cl, 'State', 'num_approvals_threshold')
        X.guard('K6b', 'remove_signer:threshold>=2', cl, dec, m_rel('lt', ['F:State.num_approvals_threshold'], ['V:2'], False), 'threshold < 2 => Err before decrement')
    SS = X.fn('Actor::swap_signer', CR)
    for cl in prog.closures_of(SS.id, recursive=False):
        pushes = [x.bb for x in cl.calls if (x.callee or '').endswith('Vec::<T, A>::push')]
        if not pushes:
            continue
        X.guard('K6b', 'swap_signer:from-is-signer', cl, pushes, m_pred('State::is_signer', ['F:SwapSignerParams.from'], True), 'is_signer(from)')
        X.guard('K6b', 'swap_signer:to-not-signer', cl, pushes, m_pred('State::is_signer', ['F:SwapSignerParams.to'], False), 'is_signer(to) => Err')
    CT = X.fn('Actor::change_num_approvals_threshold', CR)
    for cl in prog.closures_of(CT.id, recursive=False):
        wr = X.write_blocks(cl, 'State', 'num_approvals_threshold')
        if not wr:
            continue
        X.guard('K6b', 'change_threshold:nonzero', cl, wr, m_rel('eq', ['F:ChangeNumApprovalsThresholdParams.new_threshold'], ['V:0'], False), 'new == 0 => Err')
        X.guard('K6b', 'change_threshold:<=signers', cl, wr, m_rel('gt', ['F:ChangeNumApprovalsThresholdParams.new_threshold'], ['F:State.signers'], False), 'new > signers.len() => Err')
    LB = X.fn('Actor::lock_balance', CR)
    txs = [c.bb for c in LB.calls if c.callee == RUNTIME + 'transaction' or c.defp == RUNTIME + 'transaction']
    X.guard('K6b', 'lock_balance:duration>0', LB, txs, m_rel('le', ['F:LockBalanceParams.unlock_duration'], ['V:0'], False), 'unlock_duration <= 0 => Err')
    X.guard('K6b', 'lock_balance:amount>=0', LB, txs, m_pred('is_negative', ['F:LockBalanceParams.amount'], False), 'amount.is_negative() => Err')
    for cl in prog.closures_of(LB.id, recursive=False):
        sl = [x.bb for x in cl.calls if callee_is('State::set_locked')(x)]
        if sl:
            X.guard('K6b', 'lock_balance:once', cl, sl, m_rel('ne', ['F:State.unlock_duration'], ['V:0'], False), 'st.unlock_duration != 0 => Err')
    K = X.fn('Actor::constructor', CR)
    cr = [c.bb for c in K.calls if (c.defp or '') == RUNTIME + 'create']
    X.guard('K6b', 'constructor:nonempty', K, cr, m_pred('is_empty', ['F:ConstructorParams.signers'], False), 'signers.is_empty() => Err')
    X.guard('K6b', 'constructor:max', K, cr, m_rel('gt', ['F:ConstructorParams.signers'], ['K:SIGNERS_MAX'], False), 'signers.len() > SIGNERS_MAX => Err')
    X.guard('K6b', 'constructor:threshold<=signers', K, cr, m_rel('gt', ['F:ConstructorParams.num_approvals_threshold'], ['F:ConstructorParams.signers'], False), 'threshold > signers.len() => Err')
    X.guard('K6b', 'constructor:threshold>=1', K, cr, m_rel('lt', ['F:ConstructorParams.num_approvals_threshold'], ['V:1'], False), 'threshold < 1 => Err')
    X.guard('K6b', 'constructor:dedup', K, [x.bb for x in K.calls if (x.callee or '').endswith('Vec::<T, A>::push')],
            m_pred('BTreeSet::<T, A>::insert', [], True), 'duplicate signer => Err')
    # ---- the approval list is ordered (its first entry is the only one who may cancel): removing a purged signer must keep the
    # order of the remaining approvers - `retain` / `remove(i)`, never `swap_remove` (which moves the last approver to the front)
    PA = X.fn('state::State::purge_approvals', CR)
    fam = prog.family(PA)
    keep = [c for g in fam for c in g.calls if re.search(r'Vec::<T, A>::(retain|retain_mut|remove)$|::drain$|::filter$', c.callee or '')]
    swap = [c for g in fam for c in g.calls if re.search(r'Vec::<T, A>::swap_remove$|::swap$|::sort|::reverse$|::dedup', c.callee or '')]
    rep.need('K10', 'purge:keeps-approval-order', bool(keep) and not swap,
             'purge_approvals removes the signer with an order-preserving operation (found %s; order-breaking: %s)' % ([(c.callee or '').split('::')[-1] for c in keep], [(c.callee or '').split('::')[-1] for c in swap]), X.loc(PA))

    # ---- error discipline: no Result produced in these crates is silently discarded
    X.no_dropped_results('K14', 'results-not-discarded', ['fil_actor_multisig'], 'no Result of a call is discarded')
    X.tolerated_failures('K15', 'tolerated-failures', ['fil_actor_multisig'], 'tolerated failures are the reviewed ones')
    X.write_sites_preserved('K16', 'updates-present', 'fil_actor_multisig', ['State.signers', 'State.num_approvals_threshold', 'State.next_tx_id', 'State.pending_txs', 'State.initial_balance', 'State.start_epoch', 'State.unlock_duration', 'Transaction.approved'], 'state updates do not disappear')



def caller_gates(prog, rep, X, prefix=''):
    """the hand-written caller gates of the accept-any methods Propose / Approve / Cancel (also evaluated under C11)"""
    # --- signer gates
    for (hname, gate_targets) in (('propose', 'writes'), ('approve', 'ok'), ('cancel', 'writes')):
        H = X.fn('Actor::' + hname, CR)
        cls = [c for c in prog.closures_of(H.id, recursive=False) if any((x.callee or '').endswith('State::is_signer') for x in c.calls)]
        rep.need('K6b', prefix + '%s:signer-gate-closure' % hname, len(cls) == 1, 'expected one transaction closure testing is_signer in %s, found %d' % (hname, len(cls)), X.loc(H))
        for cl in cls:
            if gate_targets == 'writes':
                tg = X.write_blocks(cl, 'State', 'pending_txs') + X.write_blocks(cl, 'State', 'next_tx_id')
            else:
                tg = ok_rets(cl)
            X.guard('K6b', prefix + '%s:is_signer(caller)' % hname, cl, tg, m_pred('State::is_signer', ['C:MessageInfo::caller'], True),
                    'st.is_signer(message().caller())')
    # approve_transaction: repeated approver rejected, approver pushed is the caller
    AT = X.fn('Actor::approve_transaction', CR)
    txs = [c for c in AT.calls if c.callee == RUNTIME + 'transaction' or c.defp == RUNTIME + 'transaction']
    rep.need('K5', prefix + 'approve_transaction:transaction', len(txs) == 1, 'one state transaction expected', X.loc(AT))
    rej = X.find_conds(AT, m_rel('eq', ['F:Transaction.approved'], ['C:MessageInfo::caller'], True))
    ok = False
    if rej and txs:
        c, arm = rej[0]
        r = AT.reach([c.arms[arm]])
        nxt = [x for x in AT.calls if (x.defp or '').endswith('Iterator::next') and has_atom(prog.slicer.operand(AT, x.args[0]), 'F:Transaction.approved')]
        ok = (txs[0].bb not in r) and not AT.ok_returns_from([c.arms[arm]]) and any(AT.dominates(n.bb, txs[0].bb) for n in nxt)
    rep.need('K6b', prefix + 'approve_transaction:repeat-approver-rejected', ok,
             'a loop over txn.approved comparing each entry with message().caller() must reject (Err) on equality before the approval is recorded',
             X.loc(AT))
    for cl in prog.closures_of(AT.id, recursive=False):
        pushes = [x for x in cl.calls if (x.callee or '').endswith('Vec::<T, A>::push')]
        for pcall in pushes:
            X.arg_has('K10', prefix + 'approve_transaction:push-caller', pcall, 1, ['C:MessageInfo::caller'], 'the recorded approver is the message caller')
            X.followed_by('K7', prefix + 'approve_transaction:persisted', cl, [pcall.bb], X.write_blocks(cl, 'State', 'pending_txs'), 'the approval is persisted')
    # execute is called with the state / txn of this very transaction
    # cancel: only the earliest approver
    C = X.fn('Actor::cancel', CR)
    for cl in prog.closures_of(C.id, recursive=False):
        if not X.write_blocks(cl, 'State', 'pending_txs'):
            continue
        X.guard('K6b', prefix + 'cancel:first-approver', cl, X.write_blocks(cl, 'State', 'pending_txs'),
                m_rel('ne', ['F:Transaction.approved', 'C:first'], ['C:MessageInfo::caller'], False),
                'tx.approved.first() != Some(caller) => Err')
