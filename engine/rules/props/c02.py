"""C02 - power is credited exactly for proven, healthy, unexpired sectors (narrow clauses)."""
import re
from core import *
from rules import *
import provtable
from props.provspecs import SPECS
import sends as sendsmod

LEVEL = 'other'
LEVEL_TEXT = ('Narrow structural clauses over MIR: which miner methods must, and which must not, send UpdateClaimedPower (no power at pre-commit, '
              'prove-commit, recovery declaration or compaction; power changes at PoSt, dispute, fault declaration, termination, extension, replica '
              'update and the deadline cron), each notified delta deriving from the power delta the state transition returned; in the power actor the '
              'claim updated is the caller\'s, claims and totals have one writer, negative claims are rejected and the consensus-minimum bookkeeping '
              'tests both sides of the threshold. The running sums and the partition algebra are not decided.')
TECHNIQUE = 'call-graph reachability matrix (must / must-not), value-provenance slices of notified deltas, single-writer sets and guard dominance over rustc MIR'
MI = 'fil_actor_miner'
PW = 'fil_actor_power'

MUST = {
    'SubmitWindowedPoSt': ['F:PoStResult.power_delta'],
    'DisputeWindowedPoSt': ['C:Deadline::record_faults'],
    'DeclareFaults': ['C:Deadline::record_faults'],
    'TerminateSectors': ['C:Deadline::terminate_sectors'],
    'ExtendSectorExpiration2': ['T:Partition::replace_sectors.0'],
    'ProveReplicaUpdates3': ['T:fil_actor_miner::update_replica_states.0'],
    'OnDeferredCronEvent': ['F:AdvanceDeadlineResult.power_delta'],
}
MUST_NOT = ['Constructor', 'PreCommitSectorBatch2', 'ProveCommitSectors3', 'ProveCommitSectorsNI', 'InternalSectorSetupForPreseal', 'DeclareFaultsRecovered', 'CompactPartitions',
            'CompactSectorNumbers', 'ChangeWorkerAddress', 'ChangeOwnerAddress', 'ChangePeerID', 'ChangeMultiaddrs', 'WithdrawBalance', 'ApplyRewards', 'ReportConsensusFault',
            'RepayDebt', 'ChangeBeneficiary', 'ConfirmChangeWorkerAddress', 'ControlAddresses', 'GetOwnerExported', 'GetBeneficiary']


def run(prog, rep, tier, cfg):
    X = Ctx(prog, rep)
    rep.explanation = LEVEL_TEXT
    rep.not_decided = 'equality of claimed power with the sum over proven, healthy, unexpired sectors; partition / deadline algebra'
    from props import c11
    entries = [e for e in c11.dispatch.extract(prog)[0] if e.crate == MI]
    hmap = {}
    for e in entries:
        hmap.setdefault(e.variant, e.handler)
    RUP = X.fn('request_update_power', MI)
    ss = [c for c in RUP.calls if sendsmod.is_send(c)]
    rep.need('K5', 'request_update_power:send', len(ss) == 1 and result_fate(RUP, ss[0]) == 'try', 'one UpdateClaimedPower send, propagated', X.loc(RUP))
    sendsmod.exit_code_rule(X, rep, [sendsmod.SendSite(prog, c) for c in ss], {})
    for c in ss:
        X.arg_has('K10', 'request_update_power:to-power', c, 1, ['K:STORAGE_POWER_ACTOR_ADDR'], 'to the power actor')
        X.arg_has('K10', 'request_update_power:method', c, 2, ['K:UPDATE_CLAIMED_POWER_METHOD'], 'UpdateClaimedPower')
        X.guard('K6b', 'request_update_power:only-skip-zero', RUP, [c.bb], m_pred('PowerPair::is_zero', ['P:2'], False), 'delta.is_zero() => nothing to send')
    X.value_from('K10', 'request_update_power:raw', RUP, X.agg_field_atoms(RUP, 'UpdateClaimedPowerParams', 'raw_byte_delta', narrow=False), ['F:PowerPair.raw'], 'raw delta', forbid=['F:PowerPair.qa'])
    X.value_from('K10', 'request_update_power:qa', RUP, X.agg_field_atoms(RUP, 'UpdateClaimedPowerParams', 'quality_adjusted_delta', narrow=False), ['F:PowerPair.qa'], 'qa delta', forbid=['F:PowerPair.raw'])
    is_upd = lambda c: callee_is('request_update_power')(c) and c.fn.crate == MI
    for m, pats in MUST.items():
        hid = hmap.get(m)
        if hid is None:
            rep.ob('K3', 'power-notified:%s' % m, False, 'method %s not bound (fail closed)' % m)
            continue
        H = prog.fns[hid]
        X.must_reach('K3', 'power-notified:%s' % m, H, is_upd, 'request_update_power')
        sites = [c for x in prog.reachable_fns(hid) if x in prog.fns and prog.fns[x].crate == MI for c in prog.fns[x].calls if is_upd(c)]
        okd = any(has_all(prog.narrow.operand(c.fn, c.args[1]), pats) for c in sites)
        rep.need('K10', 'power-delta-provenance:%s' % m, okd, 'the notified delta must derive from %s (the delta returned by the state transition)' % pats, X.loc(H))
        rep.need('K8', 'power-notification-propagated:%s' % m, all(result_fate(c.fn, c) == 'try' for c in sites), 'a failed power update aborts', X.loc(H))
    for m in MUST_NOT:
        hid = hmap.get(m)
        if hid is None:
            continue
        X.must_reach('K3', 'no-power-change:%s' % m, prog.fns[hid], is_upd, 'request_update_power', want=False)
    X.callers('K5', 'request_update_power', is_upd, ['Actor::submit_windowed_post', 'Actor::prove_replica_updates3', 'Actor::dispute_windowed_post', 'Actor::extend_sector_expiration_inner',
                                                    'Actor::terminate_sectors', 'Actor::declare_faults', 'handle_proving_deadline'])
    # ---- power actor
    UC = X.fn('Actor::update_claimed_power', PW)
    for g in prog.closures_of(UC.id, recursive=False):
        for c in g.calls:
            if callee_is('state::State::add_to_claim')(c):
                X.arg_has('K10', 'power:claim-of-caller', c, 3, ['C:MessageInfo::caller'], 'the claim updated is the calling miner\'s', narrow=False)
                X.arg_has('K10', 'power:raw-delta', c, 4, ['F:UpdateClaimedPowerParams.raw_byte_delta'], 'raw delta', narrow=False, forbid=['F:UpdateClaimedPowerParams.quality_adjusted_delta'])
                X.arg_has('K10', 'power:qa-delta', c, 5, ['F:UpdateClaimedPowerParams.quality_adjusted_delta'], 'qa delta', narrow=False, forbid=['F:UpdateClaimedPowerParams.raw_byte_delta'])
                rep.need('K8', 'power:add_to_claim-propagated', result_fate(g, c) == 'try', 'propagated', c.where)
        sv = [c for c in g.calls if callee_is('state::State::save_claims')(c)]
        if sv:
            rep.need('K7', 'power:claims-saved', result_fate(g, sv[0]) == 'try' and not g.ok_returns_from([0], blocked={sv[0].bb}), 'claims saved on success', X.loc(g))
    X.writers('K4', 'State', 'miner_above_min_power_count', ['state::State::add_to_claim', 'state::State::delete_claim', 'state::State::update_stats_for_new_miner'], required=['state::State::add_to_claim'], crate=PW, constructors=['state::State::new'])
    for fld in ('total_raw_byte_power', 'total_quality_adj_power'):
        X.writers('K4', 'State', fld, ['state::State::add_to_claim', 'state::State::delete_claim'], required=['state::State::add_to_claim'], crate=PW, constructors=['state::State::new'])
    for fld in ('total_bytes_committed', 'total_qa_bytes_committed'):
        X.writers('K4', 'State', fld, ['state::State::add_to_claim', 'state::State::delete_claim'], required=['state::State::add_to_claim'], crate=PW, constructors=['state::State::new'])
    X.writers('K4', 'State', 'claims', ['state::State::save_claims'], crate=PW, constructors=['state::State::new'])
    X.callers('K5', 'power set_claim', lambda c: callee_is('state::set_claim')(c) and c.fn.crate == PW, ['state::State::add_to_claim', 'Actor::create_miner'])
    AC = X.fn('state::State::add_to_claim', PW)
    sc = [c.bb for c in AC.calls if callee_is('state::set_claim')(c)]
    X.guard('K6b', 'power:raw-non-negative', AC, sc, m_pred('is_negative', [], False, direct='Claim.raw_byte_power'), 'negative raw power => Err')
    X.guard('K6b', 'power:qa-non-negative', AC, sc, m_pred('is_negative', [], False, direct='Claim.quality_adj_power'), 'negative qa power => Err')
    X.guard('K6b', 'power:count-non-negative', AC, sc, m_rel('lt', ['F:State.miner_above_min_power_count'], ['V:0'], False), 'negative above-minimum count => Err')
    X.value_from('K10', 'power:new-raw', AC, X.agg_field_atoms(AC, 'Claim', 'raw_byte_power'), ['F:Claim.raw_byte_power', 'P:5', 'C:::add'], 'new raw = old raw + delta', forbid=['P:6'])
    X.value_from('K10', 'power:new-qa', AC, X.agg_field_atoms(AC, 'Claim', 'quality_adj_power'), ['F:Claim.quality_adj_power', 'P:6', 'C:::add'], 'new qa = old qa + delta', forbid=['P:5'])
    # the consensus-minimum bookkeeping compares both the old and the new claim's raw power with the minimum (as tested conditions or
    # as bools matched later - `if`-chain and `match (prev_below, still_below)` alike)
    thr = [c for c in AC.calls if ((c.defp or '').endswith(('PartialOrd::lt', 'PartialOrd::ge', 'PartialOrd::le', 'PartialOrd::gt')) or re.search(r'Partial(Ord|Eq).*>::(lt|le|gt|ge)$', c.callee or '')) and len(c.args) == 2
           and has_atom(prog.slicer.operand(AC, c.args[0]) | prog.slicer.operand(AC, c.args[1]), 'C:consensus_miner_min_power')
           and has_atom(prog.slicer.operand(AC, c.args[0]) | prog.slicer.operand(AC, c.args[1]), 'F:Claim.raw_byte_power')]
    rep.need('K6b', 'power:threshold-bookkeeping', len(thr) >= 2, 'the consensus-minimum bookkeeping compares the old and the new raw power with the minimum (found %d comparisons)' % len(thr), X.loc(AC))
    for c in AC.calls:
        if (c.callee or '').endswith('consensus_miner_min_power'):
            rep.need('K8', 'power:min-power-propagated', result_fate(AC, c) == 'try', 'propagated', c.where)

    # ---- Window PoSt bookkeeping at deadline level: who is faulted at the deadline's end, who may be proven
    DS = 'deadline_state::Deadline::'
    PE = X.fn(DS + 'process_deadline_end', MI)
    mp = [c for c in PE.calls if callee_is('partition_state::Partition::record_missed_post')(c)]
    rep.need('K5', 'deadline-end:missed-post-site', len(mp) == 1 and result_fate(PE, mp[0]) == 'try', 'one record_missed_post(..)? per unproven partition', X.loc(PE))
    X.iter_guard('K6b', 'deadline-end:only-unposted-partitions', PE, [c.bb for c in mp], m_pred('BitField::get', ['F:Deadline.partitions_posted'], False),
                 'a partition whose index is in partitions_posted is skipped; every other partition is marked as having missed its PoSt')
    # an unposted partition is skipped only if it has no recovering power AND all its live power is already faulty: from the
    # "has recovering power" arm and from the "faulty != live" arm the iteration cannot end without marking the partition
    heads = X.loop_heads(PE)
    for nm, mt in (('recovering-power', m_pred('is_zero', [], False, direct='Partition.recovering_power')), ('not-all-faulty', m_rel('eq', ['F:Partition.faulty_power'], ['F:Partition.live_power'], False))):
        cs = [(c, arm) for (c, arm) in X.find_conds(PE, mt) if arm in c.arms]
        okc = bool(cs) and bool(mp) and all(not (heads & PE.reach([c.arms[arm]], blocked={mp[0].bb} | PE.errblocks)) and not PE.ok_returns_from([c.arms[arm]], blocked={mp[0].bb}) for (c, arm) in cs)
        rep.need('K7', 'deadline-end:skip-only-if-all-faulty:%s' % nm, okc, 'an unposted partition with %s must be marked as having missed its PoSt in the same iteration (found %d test(s))' % (nm.replace('-', ' '), len(cs)),
                 X.loc(PE, cs[0][0].bb) if cs else X.loc(PE))
    sets = [c for c in PE.calls if (c.callee or '').endswith('::set') and 'Amt' in (c.callee or '') or (c.callee or '').endswith('Array::set')]
    sets = [c for c in PE.calls if (c.callee or '').split('::')[-1] == 'set' and has_atom(prog.slicer.operand(PE, c.args[2]) if len(c.args) > 2 else set(), 'C:Partition::record_missed_post')] or \
           [c for c in PE.calls if (c.callee or '').split('::')[-1] == 'set' and len(c.args) == 3]
    rep.need('K7', 'deadline-end:partition-stored', bool(mp) and bool(sets) and all(result_fate(PE, c) == 'try' for c in sets) and
             not set(X.loop_heads(PE)) & PE.reach([t for (t, _l) in PE.succ[mp[0].bb] if t == mp[0].target], blocked={c.bb for c in sets} | PE.errblocks),
             'after record_missed_post the partition is stored back before the iteration ends', X.loc(PE, mp[0].bb) if mp else X.loc(PE))
    # the flush is conditional on a "something changed" flag set in the same iteration: start the path at the block that raises the
    # flag (flag values are tracked along paths), or at the store itself when the flush is unconditional
    fl = [bb for bb in range(len(PE.blocks)) if mp and any(v in (1, True) for (_l, v) in PE._flag_updates(bb)) and PE.dominates(bb, mp[0].bb)]
    wb = set(X.write_blocks(PE, 'Deadline', 'partitions'))
    starts = fl[-1:] or [c.bb for c in sets]
    rep.need('K7', 'deadline-end:partitions-flushed', bool(wb) and bool(starts) and not PE.ok_returns_from(starts, blocked=wb),
             'once a partition was marked, no success return is reachable without flushing the partitions array into Deadline.partitions', X.loc(PE, starts[0]) if starts else X.loc(PE))
    RP = X.fn(DS + 'record_proven_sectors', MI)
    marks = [c for c in RP.calls if (c.callee or '').endswith('BitField::set') and X.updates_field(c, 'Deadline', 'partitions_posted')]
    rep.need('K5', 'post:marks-posted', len(marks) == 1, 'each proven partition is recorded in partitions_posted', X.loc(RP))
    X.guard('K6b', 'post:not-already-proven', RP, [c.bb for c in marks], m_pred('BitField::is_empty', ['F:Deadline.partitions_posted', 'OP:BitAnd'] if False else ['F:Deadline.partitions_posted'], True),
            'partitions_posted ∩ proven partitions ≠ ∅ => Err (a partition is proven at most once per deadline)')
    X.guard('K6b', 'post:no-duplicate-partitions', RP, [c.bb for c in marks], m_rel('ne', ['C:BitField::len'], ['P:7'], False), 'duplicate partition indexes in one submission => Err')
    order = []
    for nm in ('record_skipped_faults', 'recover_faults', 'activate_unproven'):
        cs = [c for c in RP.calls if callee_is('partition_state::Partition::' + nm)(c)]
        rep.need('K5', 'post:%s-site' % nm, len(cs) == 1 and (nm == 'activate_unproven' or result_fate(RP, cs[0]) == 'try'), 'one call of Partition::%s per proven partition' % nm, X.loc(RP))
        order += cs[:1]
    if len(order) == 3:
        X.precedes('K7', 'post:skipped-faults-before-recovery', RP, [order[0].bb], [order[1].bb], 'skipped sectors are marked faulty (and their recovery retracted) before declared recoveries are credited')
        X.precedes('K7', 'post:recovery-before-activation', RP, [order[1].bb], [order[2].bb], 'recoveries are processed before unproven sectors are activated')
        X.followed_by('K7', 'post:partition-stored', RP, [order[2].bb], [c.bb for c in RP.calls if (c.callee or '').split('::')[-1] == 'set' and len(c.args) == 3], 'the updated partition is stored back')

    # ---- frozen provenance table of the partition / deadline / expiration-queue summaries (tables/prov_miner_partition.json)
    n = provtable.check(X, 'K10', 'summary', SPECS['miner_partition'], provtable.load_table('prov_miner_partition.json'), only_keys=[r'power', r'^ret:', r'^arg:', r'sectors', r'unproven', r'faults', r'recoveries', r'terminated'])
    rep.floor('K10', 'summary_update_sites', n, 150)
    # ---- running totals (amounts, power, datacap) accumulated in loops keep their earlier contributions
    X.accumulator_integrity('K12', 'running-totals', ['fil_actor_miner', 'fil_actor_power'], 'running totals of amounts')
    X.no_dropped_results('K14', 'results-not-discarded', ['fil_actor_miner', 'fil_actor_power'], 'no Result of a call is discarded')
    X.tolerated_failures('K15', 'tolerated-failures', ['fil_actor_miner', 'fil_actor_power'], 'tolerated failures are the reviewed ones')
    X.write_sites_preserved('K16', 'updates-present', 'fil_actor_power', ['State.total_raw_byte_power', 'State.total_quality_adj_power', 'State.miner_above_min_power_count', 'State.claims'], 'state updates do not disappear')
    X.write_sites_preserved('K16', 'updates-present', 'fil_actor_miner', ['Partition.live_power', 'Partition.unproven_power', 'Partition.faulty_power', 'Partition.recovering_power', 'Deadline.live_power', 'Deadline.faulty_power', 'Deadline.partitions_posted'], 'state updates do not disappear')

