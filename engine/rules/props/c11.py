"""C11 - privileged methods are callable only by their designated callers.

Decided: for every (actor, method number) bound by an `invoke_method` dispatch table (K1) the handler performs exactly one
successful caller validation on every success path (K2 typestate), of the kind and with the designated-caller atoms frozen in
tables/c11_matrix.json; every dispatcher except EVM/EAM is behind restrict_internal_api; the FVM shim aborts unvalidated calls.
"""
import json, os
from core import *
import dispatch, typestate

LEVEL = 'proof'
TABLE = os.path.join(os.path.dirname(os.path.dirname(os.path.dirname(os.path.dirname(os.path.abspath(__file__))))), 'tables', 'c11_matrix.json')

UNRESTRICTED = {'fil_actor_evm': 'EVM<->FVM bridge, validates Type[EVM]/self/EAM itself and exports InvokeContract',
                'fil_actor_eam': 'address manager: Create/Create2 validate Type[EVM], CreateExternal validates origin'}

PRINCIPAL_CALLS = ('MessageInfo::receiver', 'MessageInfo::origin', 'MessageInfo::caller', 'escrow_address')


def principal(prog, atoms):
    """designated-caller atoms of a validation argument: state fields, named constants, enum variants, message info"""
    out = set()
    for a in atoms:
        if a[0] == 'F':
            if a[1].startswith('core::') or a[1].startswith('closure:') or a[1] in ('tuple', '?') or a[1].startswith('alloc::'):
                continue
            out.add('F:%s.%s' % (a[1].split('::')[-1], a[2]))
        elif a[0] == 'K':
            if a[1].startswith('core::') or a[1].startswith('alloc::'):
                continue
            out.add('K:%s' % a[1].split('::')[-1])
        elif a[0] == 'E':
            if a[1].startswith('core::') or a[1].startswith('alloc::'):
                continue
            out.add('E:%s::%s' % (a[1].split('::')[-1], a[2]))
        elif a[0] == 'C':
            for p in PRINCIPAL_CALLS:
                if a[1].endswith(p):
                    out.add('C:%s' % p)
        elif a[0] == 'V':
            out.add('V:%s' % a[1])
    # literal values only matter for Address::new_id(<literal>) (evm GetStorageAt); drop them when named atoms exist
    named = {x for x in out if not x.startswith('V:')}
    if named:
        return sorted(named)
    return sorted(out)


def site_desc(prog, c):
    kind = (c.defp or c.callee).split('validate_immediate_caller_')[-1]
    atoms = set()
    for a in c.args[1:]:
        atoms |= prog.narrow.operand(c.fn, a)
    pr = principal(prog, atoms) if kind != 'accept_any' else []
    # params that only parametrise *which* field is read are not designated callers
    pr = [x for x in pr if not x.startswith('F:') or not x.split(':')[1].split('.')[0].endswith('Params')]
    return kind, pr


def derive(prog):
    """the matrix as derived from the current tree: key -> {number, handler, counts, sites}"""
    entries, info = dispatch.extract(prog)
    T = typestate.CallerTypestate(prog)
    rows = {}
    for e in entries:
        ok, err = T.summary(e.handler)
        sites = T.validation_sites(e.handler)
        descs = sorted({(k, tuple(p)) for (k, p) in (site_desc(prog, c) for c in sites)})
        rows.setdefault(e.key(), []).append({
            'number': e.number, 'handler': e.handler, 'dispatch': e.kind,
            'ok_counts': sorted(ok), 'sites': [{'kind': k, 'atoms': list(p)} for (k, p) in descs],
            'where': ['%s' % c.where for c in sites][:6],
        })
    return entries, info, rows, T


def run(prog, rep, tier, cfg):
    rep.explanation = ('For every bound (actor, method number): exactly one successful caller validation on every success path of the '
                       'handler (interprocedural typestate over MIR), validation kind and designated-caller atoms equal to the frozen matrix; '
                       'restrict_internal_api dominates every dispatch except the two frozen bridge actors; the shim aborts unvalidated returns.')
    rep.not_decided = "'changes nothing on rejection' relies on the FVM reverting an aborted message (trusted)"
    entries, info, rows, T = derive(prog)
    table = json.load(open(TABLE))
    matrix = table['matrix']
    # --- K1: dispatch tables
    rep.floor('K1', 'dispatching_actors', len(info), table['floors']['dispatching_actors'])
    rep.floor('K1', 'bound_method_numbers', len(entries), table['floors']['bound_method_numbers'])
    for crate, i in sorted(info.items()):
        f = i['fn']
        if crate in UNRESTRICTED:
            rep.need('K1-restrict', crate, not i['restricted'] or i['restrict_ok'], 'frozen exception: %s' % UNRESTRICTED[crate], '%s:%s' % (f.file, f.line))
        else:
            rep.need('K1-restrict', crate, i['restricted'] and i['restrict_ok'],
                     'invoke_method must start with restrict_internal_api(rt, method)? dominating the dispatch match '
                     '(restricted=%s, dominates+propagated=%s)' % (i['restricted'], i['restrict_ok']), '%s:%s' % (f.file, f.line))
        missing = sorted(set(i['variants']) - set(i['bound']))
        rep.need('K1-bound', crate, not missing, 'Method variants without a dispatch arm: %s' % missing, '%s:%s' % (f.file, f.line))
    # per-actor counts must not drop (a vanished arm fails closed)
    per_actor = {}
    for e in entries:
        per_actor[e.actor] = per_actor.get(e.actor, 0) + 1
    for a, n in sorted(table['floors']['per_actor'].items()):
        rep.floor('K1', 'arms:' + a, per_actor.get(a, 0), n)
    # --- K2: exactly one validation + designated set
    seen = set()
    for key, lst in sorted(rows.items()):
        for r in lst:
            k2 = '%s#%s' % (key, r['number'])
            seen.add(key)
            exp = matrix.get(key)
            where = r['where'][0] if r['where'] else r['handler']
            sample = {'rule': 'K2', 'actor_method': key, 'number': r['number'], 'handler': r['handler'],
                      'validations_on_success_paths': r['ok_counts'], 'sites': r['sites']}
            rep.need('K2-once', k2, r['ok_counts'] == [1],
                     'handler %s: number of caller validations on success paths is %s, must be exactly [1]' % (r['handler'], r['ok_counts']),
                     where, sample)
            if exp is None:
                rep.note('method %s (#%s) is not in the frozen matrix: only the exactly-once rule applies' % (key, r['number']))
                continue
            rep.need('K2-handler', k2, r['handler'].endswith(exp['handler']),
                     'method bound to handler %s, matrix says %s' % (r['handler'], exp['handler']), where)
            got = sorted((s['kind'], tuple(s['atoms'])) for s in r['sites'])
            want = sorted((s['kind'], tuple(sorted(s['atoms']))) for s in exp['sites'])
            got = sorted((k, tuple(sorted(a))) for (k, a) in got)
            rep.need('K2-designated', k2, got == want,
                     'designated callers differ: code has %s, matrix has %s' % (got, want), where, sample)
    for key in sorted(matrix):
        rep.need('K2-present', key, key in seen, 'method in the frozen matrix is no longer bound by any dispatch table')
    for (fid, where, text) in T.problems:
        rep.ob('K2-discipline', '%s' % fid, False, text, where)
    rep.count('validation_call_sites', sum(len(v) for v in T.sites.values()))
    # --- restrict_internal_api body
    restrict_rules(prog, rep)
    # --- FVM shim (fil-actor configurations only)
    if cfg != 'nofilactor':
        shim_rules(prog, rep)
    evm_method_rules(prog, rep)
    # accept-any methods whose designated callers are enforced by hand-written gates (owned by other properties, re-evaluated here)
    from rules import Ctx
    from props import c12, c13, c20, c08, c09, c06
    X = Ctx(prog, rep)
    for (fn_, args) in ((c12.caller_gates, ('multisig:',)), (c13.beneficiary_gates, ('miner:',)), (c08.publish_gates, ('market:',)), (c09.verifier_gate, ('verifreg:',)), (c06.withdraw_gates, ('market:',))):
        try:
            fn_(prog, rep, X, *args)
        except AnchorMissing as e:
            rep.anchor_missing('hand-gates', e)
    try:
        c20.exec_gates(prog, rep, X, c20.type_discr(prog), 'init:')
    except AnchorMissing as e:
        rep.anchor_missing('hand-gates', e)
    # ---- error discipline: no Result produced in these crates is silently discarded
    X.no_dropped_results('K14', 'results-not-discarded', [c for c in prog.crates if c.startswith('fil_actor')], 'no Result of a call is discarded')
    X.tolerated_failures('K15', 'tolerated-failures', [c for c in prog.crates if c.startswith('fil_actor')], 'tolerated failures are the reviewed ones')



def restrict_rules(prog, rep):
    f = prog.one('builtin::shared::restrict_internal_api', 'fil_actors_runtime')
    S = prog.slicer
    cs = conds(f, S)
    # (a) method >= FIRST_EXPORTED_METHOD_NUMBER => Ok
    first = prog.consts.get('fil_actors_runtime::builtin::shared::FIRST_EXPORTED_METHOD_NUMBER')
    rep.need('K11', 'FIRST_EXPORTED_METHOD_NUMBER', first is not None and first.get('val') == (1 << 24),
             'FIRST_EXPORTED_METHOD_NUMBER must be 1<<24, is %s' % (first and first.get('val')))
    oks = ok_return_blocks(f)
    gate = [c for c in cs if match_rel(c, 'ge', ['P:2'], ['K:FIRST_EXPORTED_METHOD_NUMBER']) is not None]
    rep.need('K6b', 'restrict_internal_api:export-range-test', len(gate) == 1,
             'expected exactly one comparison of the method number with FIRST_EXPORTED_METHOD_NUMBER, found %d' % len(gate), '%s:%s' % (f.file, f.line))
    if len(gate) != 1:
        return
    g = gate[0]
    truth = match_rel(g, 'ge', ['P:2'], ['K:FIRST_EXPORTED_METHOD_NUMBER'])
    internal_arm = g.arms[not truth]
    # on the internal arm (method < boundary) every Ok return must lie behind: caller type resolved (Some) and != EVM
    typ = [c for c in cs if c.kind == 'variant' and has_atom(c.A, 'C:resolve_builtin_actor_type') and not c.place[1]]
    payload = [c for c in cs if c.kind == 'variant' and has_atom(c.A, 'C:resolve_builtin_actor_type') and c.place[1]]
    evm_rel = [c for c in cs if c.kind == 'rel' and (has_atom(c.A, 'E:Type::EVM') or has_atom(c.B, 'E:Type::EVM'))]
    evm_discr = None
    for aid, tadt in prog.adts.items():
        if aid.endswith('::Type') and tadt['kind'] == 'enum' and {'EVM', 'Miner', 'Account'} <= {v['name'] for v in tadt['variants']}:
            for v in tadt['variants']:
                if v['name'] == 'EVM':
                    evm_discr = v['discr']
    rep.need('K6b', 'restrict_internal_api:caller-type-test', bool(typ) and (bool(evm_rel) or (bool(payload) and evm_discr is not None)),
             'internal-method arm must test resolve_builtin_actor_type(caller code) for Some (found %d) and for Type::EVM (match arms %d, comparisons %d)' % (len(typ), len(payload), len(evm_rel)),
             '%s:%s' % (f.file, f.line))
    if not (typ and (evm_rel or payload)):
        return
    # deleting the "is a builtin type" (Some) edge must cut every Ok return from the internal arm
    t = typ[0]
    some_edges = [(t.bb, tb) for v, tb in t.arms.items() if v == 1]
    r = f.reach([internal_arm], removed=some_edges, blocked=f.errblocks)
    rep.need('K6b', 'restrict_internal_api:unresolved-caller-rejected', not (set(oks) & r),
             'an Ok return is reachable for an internal method although the caller code did not resolve to a builtin type', '%s:%s' % (f.file, f.line))
    ok = False
    detail = 'no arm singles out Type::EVM'
    for p in payload:
        if evm_discr in p.arms:
            arm = p.arms[evm_discr]
            others = [(p.bb, tb) for v, tb in p.arms.items() if v != evm_discr and tb != arm]
            r = f.reach([arm], blocked=f.errblocks)
            ok = not (set(oks) & r)
            detail = 'an Ok return is reachable on the match arm where the caller type is Type::EVM'
    for e in evm_rel:
        tr = match_rel(e, 'eq', ['E:Type::EVM'], [])
        if tr is None:
            tr = match_rel(e, 'eq', [], ['E:Type::EVM'])
        if tr is None:
            continue
        evm_arm = e.arms[tr]
        r = f.reach([evm_arm], blocked=f.errblocks)
        ok = not (set(oks) & r)
        detail = 'an Ok return is reachable on the arm where the caller type equals Type::EVM'
    rep.need('K6b', 'restrict_internal_api:evm-caller-rejected', ok, detail, '%s:%s' % (f.file, f.line))


def ok_return_blocks(f):
    """blocks assigning `_0 = Ok(..)`"""
    out = []
    for bi, b in enumerate(f.blocks):
        if b.get('cleanup'):
            continue
        for st in b['s']:
            if st[0] == '=' and st[1][0] == 0 and not st[1][1] and st[2][0] == 'agg' and st[2][1].get('variant') == 'Ok':
                out.append(bi)
    return out


def shim_rules(prog, rep):
    try:
        tr = prog.one('runtime::fvm::trampoline', 'fil_actors_runtime')
    except AnchorMissing as e:
        rep.anchor_missing('shim', e)
        return
    S = prog.slicer
    # the trampoline: return only through the arm where caller_validated is true; other arm aborts (diverges)
    cs = [c for c in conds(tr, S) if has_atom(c.A, 'F:FvmRuntime.caller_validated')]
    rep.need('shim', 'trampoline:checks-caller_validated', len(cs) >= 1,
             'trampoline must branch on FvmRuntime.caller_validated before returning', '%s:%s' % (tr.file, tr.line))
    if cs:
        c = cs[0]
        # which arm is 'validated'? The arm on which no abort call is reached immediately
        aborts = [x for x in tr.calls if (x.callee or '').endswith('vm::abort')]
        rets = tr.ret_blocks()
        ok = False
        detail = ''
        for truth in (True, False):
            other = c.arms[not truth]
            # remove the `truth` arm: returns must be unreachable => only that arm returns
            r = tr.reach([0], removed=[(c.bb, c.arms[truth])])
            if not (set(rets) & r):
                # and the other arm must reach an abort
                r2 = tr.reach([other])
                if any(a.bb in r2 for a in aborts):
                    ok = True
                    detail = 'returns only via caller_validated==%s arm; other arm aborts' % truth
                    # the returning arm must be the "validated" one: cond is pred on the field (True = validated) or Not
                    ok = ok and (truth is True)
        rep.need('shim', 'trampoline:unvalidated-aborts', ok,
                 detail or 'the value return of trampoline must be reachable only when caller_validated is true, the other arm must call fvm::vm::abort',
                 '%s:%s' % (tr.file, tr.line))
    # writers of caller_validated
    ws = prog.field_writes('FvmRuntime', 'caller_validated')
    writers = sorted({w[0].id for w in ws if w[3] != 'construct'})
    cons = sorted({w[0].id for w in ws if w[3] == 'construct'})
    allowed = table_shim_writers()
    rep.need('K4', 'FvmRuntime.caller_validated:writers', set(writers) <= allowed['writers'] and set(cons) <= allowed['constructors'],
             'writers of caller_validated: %s, constructors: %s; allowed %s / %s' % (writers, cons, sorted(allowed['writers']), sorted(allowed['constructors'])))
    # RefCell::replace(true) call sites on caller_validated
    sites = []
    for f in prog.bodies():
        if f.crate != 'fil_actors_runtime' or f.kind in ('promoted', 'const'):
            continue
        for c in f.calls:
            if (c.callee or '').endswith('RefCell::<T>::replace') or (c.callee or '').endswith('Cell::<T>::set') or (c.callee or '').endswith('Cell::<T>::replace'):
                at = set()
                for a in c.args:
                    at |= S.operand(f, a)
                if has_atom(at, 'F:FvmRuntime.caller_validated'):
                    sites.append(c)
    rep.floor('shim', 'caller_validated_set_sites', len(sites), 4)
    for c in sites:
        f = c.fn
        key = f.id.split('::')[-1]
        # must be dominated by assert_not_validated()? and only be reachable via an accepting arm
        guards = [x for x in f.calls if (x.callee or '').endswith('assert_not_validated')]
        g_ok = any(f.dominates(g.bb, c.bb) and result_fate(f, g) == 'try' for g in guards)
        rep.need('shim', 'set-validated:%s:after-assert_not_validated' % key, g_ok,
                 'caller_validated.replace(true) must be dominated by assert_not_validated()?', c.where)
        if key.endswith('accept_any'):
            continue
        # membership test: some cond whose accepting arm is the only way to the set site
        found = False
        for cd in conds(f, S):
            if cd.kind in ('pred', 'rel', 'variant'):
                for v, tb in cd.arms.items():
                    others = [(cd.bb, t2) for v2, t2 in cd.arms.items() if v2 != v and t2 != tb]
                    if not others:
                        continue
                    # removing arm v cuts the site, and the other arms cannot reach the site
                    r = f.reach([0], removed=[(cd.bb, tb)])
                    if c.bb not in r:
                        found = True
        rep.need('shim', 'set-validated:%s:behind-membership-test' % key, found,
                 'caller_validated.replace(true) must be reachable only through an accepting arm of a membership test', c.where)


def table_shim_writers():
    return {'writers': set(), 'constructors': {'fil_actors_runtime::runtime::fvm::FvmRuntime::<B>::new', 'fil_actors_runtime::<runtime::fvm::FvmRuntime as core::default::Default>::default',
                                               'fil_actors_runtime::runtime::fvm::<impl core::default::Default for runtime::fvm::FvmRuntime>::default'}}


def evm_method_rules(prog, rep):
    """inside the EVM actor the method of every outbound send is one of a fixed set, or the guarded dynamic call_actor method"""
    S = prog.slicer
    f = None
    try:
        f = prog.one('call_actor_shared', 'fil_actor_evm')
    except AnchorMissing as e:
        rep.anchor_missing('evm-call_actor', e)
        return
    cs = conds(f, S)
    lim = [c for c in cs if c.kind == 'rel' and (has_atom(c.A, 'K:EVM_MAX_RESERVED_METHOD') or has_atom(c.B, 'K:EVM_MAX_RESERVED_METHOD'))]
    snd = [c for c in cs if c.kind == 'rel' and (has_atom(c.A, 'K:METHOD_SEND') or has_atom(c.B, 'K:METHOD_SEND'))]
    sends = prog.sites_reaching(f, lambda c: (c.defp or '').startswith(RUNTIME + 'send') or (c.callee or '').endswith('System::<\'r, RT>::send') or (c.callee or '').endswith('::send_raw'))
    rep.need('K6b', 'evm.call_actor:reserved-method-guard', bool(lim) and bool(snd) and bool(sends),
             'call_actor must compare the method with EVM_MAX_RESERVED_METHOD (%d) and METHOD_SEND (%d) before sending (%d send sites)' % (len(lim), len(snd), len(sends)),
             '%s:%s' % (f.file, f.line))
    if lim and sends:
        g = lim[0]
        # method <= EVM_MAX_RESERVED_METHOD arm
        tr = match_rel(g, 'le', [], ['K:EVM_MAX_RESERVED_METHOD'])
        if tr is None:
            tr = match_rel(g, 'gt', [], ['K:EVM_MAX_RESERVED_METHOD'])
            tr = (not tr) if tr is not None else None
        if tr is None:
            rep.ob('K6b', 'evm.call_actor:reserved-method-rejected', False, 'cannot canonicalise the reserved-method comparison', '%s:%s' % (f.file, g.line))
            return
        reserved_arm = g.arms[tr]
        # from the reserved arm, with the METHOD_SEND exception edge removed, no send may be reachable
        removed = []
        for s_ in snd:
            t2 = match_rel(s_, 'eq', [], ['K:METHOD_SEND'])
            if t2 is None:
                t2 = match_rel(s_, 'eq', ['K:METHOD_SEND'], [])
            if t2 is not None:
                removed.append((s_.bb, s_.arms[t2]))
        r = f.reach([reserved_arm], removed=removed, blocked=f.errblocks)
        bad = [c for (c, _d) in sends if c.bb in r]
        rep.need('K6b', 'evm.call_actor:reserved-method-rejected', not bad,
                 'a send is reachable for a reserved method number other than METHOD_SEND: %s' % [b.where for b in bad], '%s:%s' % (f.file, f.line))

LEVEL_TEXT = ('Exhaustive over the finite (actor, method number) matrix derived from the dispatch tables of the current tree: every handler is '
              'proved by an interprocedural typestate analysis over MIR to validate its caller exactly once on every success path, with the '
              'validation kind and designated-caller atoms equal to the frozen matrix; dispatch restriction and the FVM shim abort are '
              'checked structurally. "Changes nothing on rejection" is the FVM revert (trusted).')
TECHNIQUE = 'interprocedural typestate dataflow over rustc MIR + dispatch-table derivation + guard dominance by edge deletion'
