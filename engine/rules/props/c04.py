"""C04 - sector bookkeeping stays a consistent partition of the miner's sectors (narrow clauses)."""
from core import *
from rules import *
import provtable
from props.provspecs import SPECS

LEVEL = 'other'
LEVEL_TEXT = ('Narrow structural clauses over the miner actor\'s MIR: sector numbers are allocated at most once (the allocation bitmap has one writer that '
              'stores prior | new and rejects intersections unless the caller passes AllowCollisions, which only number compaction does; every '
              'insertion of sectors into state is dominated by such an allocation); partition bitfields and power memos are written only inside the '
              'Partition type, every mutating Partition method re-validates the nesting invariants on its success paths, and every stored deadline '
              'is validated. Equality of memoised totals with recomputed totals and queue contents are not decided.')
TECHNIQUE = 'single-writer / single-caller sets, followed-by (post-domination) of validation calls, argument patterns (enum variants) over rustc MIR'
CR = 'fil_actor_miner'
ST = 'state::State::'
PT = 'partition_state::Partition::'
PART_FIELDS = ['sectors', 'unproven', 'faults', 'recoveries', 'terminated', 'live_power', 'unproven_power', 'faulty_power', 'recovering_power', 'expirations_epochs', 'early_terminated']
# mutators that legitimately do not end in validate_state (reason)
NO_VALIDATE = {
    'activate_unproven': 'moves unproven -> active power only; the caller (record_proven_sectors path) validates afterwards via record_skipped_faults/recover_faults',
    'remove_recoveries': 'private helper of the fault paths, every caller validates',
    'record_early_termination': 'touches only the early-termination queue',
    'pop_early_terminations': 'touches only the early-termination queue',
    'new': 'constructor',
}


def run(prog, rep, tier, cfg):
    X = Ctx(prog, rep)
    rep.explanation = LEVEL_TEXT
    rep.not_decided = 'memo totals equal recomputed totals; expiration queue contents; one-partition-one-deadline membership over histories'
    # ---- (1) sector numbers allocated at most once
    X.writers('K4', 'State', 'allocated_sectors', [ST + 'allocate_sector_numbers'], crate=CR, constructors=[ST + 'new'])
    AL = X.fn(ST + 'allocate_sector_numbers', CR)
    w = X.write_blocks(AL, 'State', 'allocated_sectors', kinds=('assign', 'calldst'))
    X.guard('K6b', 'allocate:collisions-rejected', AL, w, m_pred('is_empty', ['C:::bitand'], True), '!collisions.is_empty() => Err', assume=[m_rel('ne', ['P:4'], ['E:CollisionPolicy::AllowCollisions'], False)])
    pol = X.find_conds(AL, m_rel('ne', ['P:4'], ['E:CollisionPolicy::AllowCollisions'], True))
    rep.need('K6b', 'allocate:policy-test', len(pol) == 1, 'the intersection test is skipped only for CollisionPolicy::AllowCollisions', X.loc(AL))
    stored = [c for c in AL.calls if (c.callee or '').endswith('::put_cbor')]
    rep.need('K10', 'allocate:stores-union', len(stored) == 1 and has_all(prog.slicer.operand(AL, stored[0].args[1]), ['C:::bitor', 'P:3', 'F:State.allocated_sectors']),
             'the stored bitmap is prior | new (numbers are never released)', X.loc(AL))
    sites = X.callers('K5', ST + 'allocate_sector_numbers', callee_is(ST + 'allocate_sector_numbers'),
                      ['Actor::pre_commit_sector_batch_inner', 'Actor::prove_commit_sectors_ni', 'Actor::compact_sector_numbers'], crates=[CR])
    for c in sites:
        at = prog.slicer.operand(c.fn, c.args[3])
        allow = has_atom(at, 'E:CollisionPolicy::AllowCollisions')
        deny = has_atom(at, 'E:CollisionPolicy::DenyCollisions')
        from rules import _match_fn
        if _match_fn(c.fn.id, 'Actor::compact_sector_numbers'):
            rep.need('K10', 'allocate:policy:compact_sector_numbers', allow and not deny, 'number compaction (masking unused numbers) is the only AllowCollisions caller', c.where)
        else:
            rep.need('K10', 'allocate:policy:%s' % c.fn.id.split('::')[-2 if c.fn.kind == 'closure' else -1], deny and not allow, 'sector onboarding must pass DenyCollisions', c.where)
        rep.need('K8', 'allocate:propagated:%s' % c.fn.id.split('::')[-2 if c.fn.kind == 'closure' else -1], result_fate(c.fn, c) in ('try', 'returned'), 'a collision aborts the message', c.where)
    # insertions are dominated by an allocation (or reuse numbers of allocated pre-commits)
    X.callers('K5', ST + 'put_precommitted_sectors', callee_is(ST + 'put_precommitted_sectors'), ['Actor::pre_commit_sector_batch_inner'], crates=[CR])
    X.callers('K5', ST + 'put_sectors', callee_is(ST + 'put_sectors'), ['Actor::prove_commit_sectors_ni', 'activate_new_sector_infos', 'update_replica_states', 'Actor::extend_sector_expiration_inner',
                                                                     'update_existing_sector_info', 'Actor::prove_replica_updates3'], required=['Actor::prove_commit_sectors_ni', 'activate_new_sector_infos'], crates=[CR])
    for hn, ins in (('Actor::pre_commit_sector_batch_inner', 'put_precommitted_sectors'), ('Actor::prove_commit_sectors_ni', 'put_sectors')):
        H = X.fn(hn, CR)
        for g in prog.closures_of(H.id, recursive=False):
            a = [c.bb for c in g.calls if callee_is(ST + 'allocate_sector_numbers')(c)]
            b = [c.bb for c in g.calls if callee_is(ST + ins)(c)]
            if a and b:
                X.precedes('K7', '%s:allocate-before-insert' % hn.split('::')[-1], g, a, b, 'sector numbers are allocated (collision-checked) before the sectors enter state')
    AN = X.fn('activate_new_sector_infos', CR)
    for g in prog.family(AN):
        for c in g.calls:
            if callee_is(ST + 'put_sectors')(c):
                X.arg_has('K10', 'activate:numbers-from-precommits', c, 2, ['F:SectorPreCommitInfo.sector_number'], 'activated sectors reuse the numbers of their (allocated) pre-commitments', narrow=False)
    PP = X.fn(ST + 'put_precommitted_sectors', CR)
    okp = any((c.callee or '').endswith('::set_if_absent') for c in PP.calls)
    rep.need('K6b', 'put_precommitted:absent-only', okp, 'a pre-commit is stored only if its sector number is not already pre-committed', X.loc(PP))
    # ---- (3) partition state written only inside Partition, and re-validated
    for fld in PART_FIELDS:
        ws = prog.field_writes('Partition', fld)
        bad = sorted({f.id for (f, bb, line, kind) in ws if kind != 'construct' and f.crate == CR and not NEUTRAL.search(f.id) and 'partition_state::Partition::' not in f.id and '<partition_state::Partition' not in f.id})
        rep.need('K4', 'partition-field-writers:%s' % fld, not bad, 'Partition.%s is written outside the Partition type: %s' % (fld, bad))
    muts = []
    for k, f in prog.fns.items():
        if f.crate == CR and f.kind == 'assocfn' and k.startswith(CR + '::' + PT) and f.nargs >= 1 and f.locals[1][0].startswith('&mut '):
            muts.append(f)
    rep.floor('K7', 'partition_mutators', len(muts), 15)
    for f in sorted(muts, key=lambda x: x.id):
        name = f.id.split('::')[-1]
        if name in NO_VALIDATE:
            rep.ob('K7', 'partition-revalidated:%s' % name, True, 'frozen exception: %s' % NO_VALIDATE[name], X.loc(f))
            continue
        writes_state = any(prog.field_writes('Partition', fld, fns=prog.family(f)) for fld in PART_FIELDS) or any(
            (c.callee or '').startswith(CR + '::' + PT) and c.callee.split('::')[-1] in ('add_faults', 'remove_recoveries', 'add_sectors') for g in prog.family(f) for c in g.calls)
        if not writes_state:
            continue
        vs = [c.bb for c in f.calls if callee_is(PT + 'validate_state')(c) and result_fate(f, c) == 'try']
        # A = every block of the method body that changes partition state (direct field write or call of a mutating helper)
        A = set()
        for fld in PART_FIELDS:
            A |= {bb for (g, bb, line, kind) in prog.field_writes('Partition', fld, fns=[f]) if kind != 'construct'}
        for c in f.calls:
            cal = c.callee or ''
            if cal.startswith(CR + '::' + PT) and cal.split('::')[-1] in [m.id.split('::')[-1] for m in muts] and cal != f.id:
                A.add(c.bb)
            if 'ExpirationQueue' in cal and c.args and c.args[0][0] in ('m', 'c'):
                A.add(c.bb)
        bad = [a for a in sorted(A) if a not in vs and f.ok_returns_from([t for (t, _l) in f.succ[a]], blocked=set(vs))]
        rep.need('K7', 'partition-revalidated:%s' % name, bool(vs) and not bad,
                 'after Partition::%s changes partition state every success path must pass through validate_state()? (unvalidated from blocks %s)' % (name, bad), X.loc(f),
                 {'rule': 'K7', 'method': f.id, 'validate_sites': len(vs), 'mutation_blocks': len(A)})
    VS = X.fn(PT + 'validate_state', CR)
    rep.need('K7', 'validate_state:checks-both', all(any(callee_is(PT + n)(c) and result_fate(VS, c) == 'try' for c in VS.calls) for n in ('validate_power_state', 'validate_bf_state')),
             'validate_state = power-memo checks and bitfield-nesting checks', X.loc(VS))
    VB = X.fn(PT + 'validate_bf_state', CR)
    rb = VB.ret_blocks()
    X.guard('K6b', 'nesting:terminated-disjoint-from-unproven-and-faults', VB, rb, m_pred('contains_any', ['F:Partition.terminated', 'F:Partition.unproven', 'F:Partition.faults'], False), 'terminated ∩ (unproven ∪ faults) ≠ ∅ => Err')
    X.guard('K6b', 'nesting:all-within-sectors', VB, rb, m_pred('contains_all', ['F:Partition.sectors', 'F:Partition.terminated'], True), 'sectors ⊉ (unproven ∪ faults ∪ terminated) => Err')
    X.guard('K6b', 'nesting:recoveries-within-faults', VB, rb, m_pred('contains_all', ['F:Partition.faults', 'F:Partition.recoveries'], True), 'faults ⊉ recoveries => Err')
    VP = X.fn(PT + 'validate_power_state', CR)
    for fld in ('live_power', 'unproven_power', 'faulty_power', 'recovering_power'):
        n = len(X.find_conds(VP, m_pred('is_negative', ['F:Partition.' + fld], False))) if True else 0
        rep.need('K6b', 'power-memo:non-negative:%s' % fld, n >= 2, 'negative %s (raw or qa) => Err (found %d tests)' % (fld, n), X.loc(VP))
    for a, b in (('unproven_power', 'live_power'), ('faulty_power', 'live_power'), ('recovering_power', 'faulty_power')):
        X.guard('K6b', 'power-memo:%s<=%s' % (a, b), VP, VP.ret_blocks(), m_rel('gt', ['F:Partition.' + a], ['F:Partition.' + b], False), '%s.raw > %s.raw => Err' % (a, b))
    UD = X.fn('deadline_state::Deadlines::update_deadline', CR)
    X.call_guard('K6a', 'update_deadline:validated', UD, UD.ret_blocks(), callee_is('deadline_state::Deadline::validate_state'), 'deadline.validate_state()?')

    # ---- (4) a deadline loaded under index i is stored back under the same i (every load/update pair in the miner)
    n = 0
    for f in sorted(prog.bodies(), key=lambda f: f.id):
        if f.crate != CR or f.file.endswith('testing.rs') or f.kind in ('promoted', 'const'):
            continue
        lds = [c for c in f.calls if callee_is('Deadlines::load_deadline')(c)]
        ups = [c for c in f.calls if callee_is('Deadlines::update_deadline')(c)]
        if not lds or not ups:
            continue
        n += 1
        nm = f.id.split('::', 1)[1]
        X.index_agreement('K10', 'deadline-index:%s' % nm, f, [('load_deadline', c, 2) for c in lds] + [('update_deadline', c, 3) for c in ups],
                          'the deadline is stored back under the index it was loaded from')
        for u in ups:
            rep.need('K10', 'deadline-index:%s:stores-loaded' % nm, has_atom(prog.slicer.operand(f, u.args[4]), 'C:Deadlines::load_deadline'), 'the stored deadline is the loaded one', u.where)
    rep.floor('K10', 'deadline_load_update_pairs', n, 12)

    # ---- frozen provenance table of the partition / deadline / expiration-queue summaries (tables/prov_miner_partition.json)
    n = provtable.check(X, 'K10', 'summary', SPECS['miner_partition'], provtable.load_table('prov_miner_partition.json'), only_keys=None)
    rep.floor('K10', 'summary_update_sites', n, 200)
    # ---- extension: every partition whose sectors were rescheduled is recorded under the new expiration epoch, so that the
    # deadline's expiration queue names it (a partition missing there is never visited when those sectors expire)
    EX = X.fn('Actor::extend_sector_expiration_inner', CR)
    n_ext = 0
    for g in prog.family(EX):
        sets = [c for c in g.calls if (c.callee or '').endswith('::set') and not callee_is('BitField::set')(c) and len(c.args) >= 3 and has_atom(prog.narrow.operand(g, c.args[1]), 'F:ValidatedExpirationExtension.partition')
                and any(callee_is('partition_state::Partition::replace_sectors')(q) for q in g.calls)]
        if not sets:
            continue
        pushes = [c for c in g.calls if (c.callee or '').endswith('Vec::<T, A>::push') and has_atom(prog.narrow.operand(g, c.args[1]), 'F:ValidatedExpirationExtension.partition')]
        heads = X.loop_heads(g)
        for a in sets:
            n_ext += 1
            r = g.reach([t for (t, _l) in g.succ[a.bb]], blocked={p.bb for p in pushes} | g.errblocks)
            ok = bool(pushes) and not (r & heads) and not any(g.blocks[b]['t'][0] == 'ret' for b in r)
            rep.need('K7', 'extension:partition-recorded-under-new-epoch', ok,
                     'after a partition\'s sectors were rescheduled the iteration cannot end without recording the partition under the declaration\'s new expiration (unconditionally)', X.loc(g, a.bb))
        adds = [c for c in g.calls if callee_is('deadline_state::Deadline::add_expiration_partitions')(c)]
        rep.need('K5', 'extension:queue-updated', len(adds) == 1 and result_fate(g, adds[0]) == 'try', 'the deadline expiration queue is told about the recorded partitions', X.loc(g))
    rep.floor('K7', 'extension_partition_store_sites', n_ext, 1)

    # ---- deadline memos updated from handler code (outside impl Deadline): the amount added to a deadline's memo must be that
    # deadline's own total - a running total that is (re)started inside the loop over deadlines, or a value computed inside it -
    # not the message-wide total that keeps growing across deadlines
    from rules import loop_blocks, _is_zero_def
    n_memo = 0
    for f in prog.bodies():
        if f.crate != CR or f.kind not in ('fn', 'assocfn', 'closure') or '::deadline_state::' in f.id or '::deadlines::' in f.id or NEUTRAL.search(f.id):
            continue
        lb = None
        for c in f.calls:
            if not (c.defp or '').endswith(('AddAssign::add_assign', 'SubAssign::sub_assign')) or len(c.args) != 2:
                continue
            t = X.mut_target(c, 0)
            if not t or not t[-1][0].endswith('Deadline') or t[-1][1] not in ('live_power', 'faulty_power', 'daily_fee', 'live_sectors', 'total_sectors'):
                continue
            n_memo += 1
            if lb is None:
                lb = loop_blocks(f)
            if c.bb not in lb:
                continue
            src = _base_amount_local(f, c.args[1])
            ok = True
            why = ''
            up = _upvar_of(f, c.args[1])
            if up is not None:
                # a variable captured from outside the closure: its value spans the whole loop unless the loop body restarts it
                restarts = [d for d in f.defs.get(1, []) if d[0] == '=' and d[1] in lb and any(isinstance(q, list) and q[0] == 'f' and q[1] == up and str(q[2]).startswith('closure:') for q in d[3][1]) and _is_zero_def(prog, f, ('=', d[1], d[2], [0, []], d[4]))]
                ok = bool(restarts)
                why = 'the captured total added to Deadline.%s is started outside the loop over deadlines (it also carries the earlier deadlines\' amounts)' % t[-1][1]
            elif src is not None:
                zs = [d for d in f.defs.get(src, []) if d[0] in ('=', 'call') and _is_zero_def(prog, f, d)]
                others = [d for d in f.defs.get(src, []) if d[0] in ('=', 'call') and d not in zs]
                if zs and not others:
                    inside = [z for z in zs if z[1] in lb and c.bb in f.reach([z[1]], use_flags=False) and z[1] in f.reach([t2 for (t2, _l) in f.succ[c.bb]], use_flags=False)]
                    ok = bool(inside)
                    why = 'the total `%s` added to Deadline.%s is started outside the loop over deadlines (it also carries the earlier deadlines\' amounts)' % (f.name_of(src), t[-1][1])
            rep.need('K10', 'deadline-memo-from-own-total:%s:%s' % (f.id.split('::', 1)[-1], t[-1][1]), ok, why or 'the amount added to the deadline memo is the deadline\'s own', c.where)
    rep.floor('K10', 'deadline_memo_updates_in_handlers', n_memo, 4)

    # ---- running totals (amounts, power, datacap) accumulated in loops keep their earlier contributions
    X.accumulator_integrity('K12', 'running-totals', ['fil_actor_miner'], 'running totals of amounts')
    X.no_dropped_results('K14', 'results-not-discarded', ['fil_actor_miner'], 'no Result of a call is discarded')
    X.tolerated_failures('K15', 'tolerated-failures', ['fil_actor_miner'], 'tolerated failures are the reviewed ones')
    X.write_sites_preserved('K16', 'updates-present', 'fil_actor_miner', ['State.allocated_sectors', 'Partition.sectors', 'Partition.unproven', 'Partition.faults', 'Partition.recoveries', 'Partition.terminated', 'Partition.expirations_epochs', 'Partition.early_terminated', 'Deadline.live_sectors', 'Deadline.total_sectors', 'Deadline.daily_fee', 'Deadline.expirations_epochs', 'Deadline.partitions', 'ExpirationSet.on_time_sectors', 'ExpirationSet.early_sectors', 'ExpirationSet.on_time_pledge', 'ExpirationSet.active_power', 'ExpirationSet.faulty_power', 'ExpirationSet.fee_deduction'], 'state updates do not disappear')


def _upvar_of(f, op, depth=0):
    """index of the closure upvar an `&x` operand refers to, or None"""
    if depth > 6 or f.kind != 'closure' or op[0] not in ('c', 'm'):
        return None
    pl = op[1]
    if pl[0] == 1 and pl[1]:
        fs = [q for q in pl[1] if isinstance(q, list) and q[0] == 'f' and str(q[2]).startswith('closure:')]
        if fs:
            return fs[0][1]
    if any(q != '*' for q in pl[1]):
        return None
    ds = [d for d in f.defs.get(pl[0], []) if d[0] in ('=', 'call')]
    if len(ds) != 1:
        return None
    d = ds[0]
    if d[0] == '=':
        rv = d[4]
        if rv[0] in ('ref', 'rawptr'):
            return _upvar_of(f, ['c', rv[2]], depth + 1)
        if rv[0] in ('use',) and rv[1][0] in ('c', 'm'):
            return _upvar_of(f, rv[1], depth + 1)
        if rv[0] == 'cfd':
            return _upvar_of(f, ['c', rv[1]], depth + 1)
        return None
    c = d[2]
    if (c.defp or '').endswith(('Clone::clone', 'Deref::deref', 'Borrow::borrow')) and c.args:
        return _upvar_of(f, c.args[0], depth + 1)
    return None


def _base_amount_local(f, op, depth=0):
    """the user local an `&x` / `x.clone()` operand refers to"""
    if depth > 6 or op[0] not in ('c', 'm') or op[1][1]:
        return None
    l = op[1][0]
    named = {n[1][0] for n in f.names if not n[1][1]}
    if l in named:
        return l
    ds = [d for d in f.defs.get(l, []) if d[0] in ('=', 'call')]
    if len(ds) != 1:
        return None
    d = ds[0]
    if d[0] == '=':
        rv = d[4]
        if rv[0] in ('ref', 'rawptr') and not rv[2][1]:
            return _base_amount_local(f, ['c', [rv[2][0], []]], depth + 1)
        if rv[0] == 'use' and rv[1][0] in ('c', 'm') and not rv[1][1][1]:
            return _base_amount_local(f, ['c', [rv[1][1][0], []]], depth + 1)
        return None
    c = d[2]
    if (c.defp or '').endswith(('Clone::clone', 'Deref::deref', 'Borrow::borrow')) and c.args:
        return _base_amount_local(f, c.args[0], depth + 1)
    return None
