"""C16 - payment channel: vouchers redeem once and the payout is exact."""
from core import *
from rules import *
import sends as sendsmod

LEVEL = 'other'
LEVEL_TEXT = ('Every guard the property names is decided as a dominance fact over the MIR of update_channel_state / settle / collect: the write of the '
              'amount owed is reachable only past counter-party authentication (read-only, to the other party), channel match, both time locks, '
              'sign, secret, settled check, lane nonce and per-merge lane/nonce rejections, and the two balance comparisons; settling_at is only '
              'raised; collect pays payee then payer then deletes, behind the settle-delay comparison. The value of balance_delta is only checked '
              'for its operand provenance, not its arithmetic.')
TECHNIQUE = 'guard dominance by CFG edge deletion, per-iteration rejection checks, value provenance slices, single-writer sets over rustc MIR'
CR = 'fil_actor_paych'
TX = RUNTIME + 'transaction'
SV = 'SignedVoucher'


def run(prog, rep, tier, cfg):
    X = Ctx(prog, rep)
    rep.explanation = LEVEL_TEXT
    rep.not_decided = 'balance_delta arithmetic over histories of vouchers (only operand provenance is decided)'
    U = X.fn('Actor::update_channel_state', CR)
    T = [c.bb for c in U.calls if (c.defp or '') == TX]
    rep.need('K5', 'update:one-transaction', len(T) == 1, 'one state transaction expected in update_channel_state, found %d' % len(T), X.loc(U))
    # --- authentication by the other party
    auth = [c for c in U.calls if sendsmod.is_send(c) and has_atom(prog.narrow.operand(U, c.args[2]), 'K:AUTHENTICATE_MESSAGE_METHOD')]
    rep.need('K5', 'update:auth-send', len(auth) == 1, 'one AuthenticateMessage send expected, found %d' % len(auth), X.loc(U))
    for a in auth:
        X.arg_has('K10', 'update:auth:readonly', a, 6, ['K:READ_ONLY'], 'authentication is a read-only send')
        X.arg_has('K10', 'update:auth:zero-value', a, 4, ['C:zero'], 'authentication carries no value', forbid=['F:State.to_send', 'C:current_balance'])
        rep.need('K8', 'update:auth:propagated', result_fate(U, a) in ('try',), 'authentication send error must be propagated (fate=%s)' % result_fate(U, a), a.where)
        X.precedes('K6a', 'update:auth-dominates', U, [a.bb], T, 'AuthenticateMessage send precedes the state transaction')
        X.arg_has('K10', 'update:auth:signature', a, 3, ['F:%s.signature' % SV], 'the authenticated signature is the voucher signature', narrow=False)
        X.arg_has('K10', 'update:auth:bytes', a, 3, ['C:signing_bytes'], 'the authenticated message is the voucher signing bytes', narrow=False)
    # the authentication verdict is tested
    X.guard('K6b', 'update:auth-verdict', U, T, m_boolatoms(['C:Runtime::send', 'E:AuthenticateMessageParams', 'K:AUTHENTICATE_MESSAGE_METHOD'], True), 'authentication result is true')
    # signer = the other party
    sel = X.find_conds(U, m_rel('eq', ['C:MessageInfo::caller'], ['F:State.from'], True))
    ok = False
    if len(sel) == 1:
        c, arm = sel[0]
        def fields_assigned(bb):
            out = set()
            seen = set()
            st_ = [bb]
            while st_:
                b = st_.pop()
                if b in seen or len(seen) > 3:
                    continue
                seen.add(b)
                for s in U.blocks[b]['s']:
                    if s[0] == '=' and s[2][0] == 'use' and s[2][1][0] in ('c', 'm'):
                        for (adt, fld) in place_fields(s[2][1][1]):
                            out.add(fld)
                t = U.blocks[b]['t']
                if t[0] == 'goto':
                    pass
            return out
        ft = fields_assigned(c.arms[arm])
        ff = fields_assigned(c.arms[not arm])
        ok = ('to' in ft and 'from' not in ft) and ('from' in ff and 'to' not in ff)
    rep.need('K10', 'update:signer-is-other-party', ok, 'signer must be st.to when the caller is st.from and st.from otherwise', X.loc(U))
    for a in auth:
        X.arg_has('K10', 'update:auth:recipient', a, 1, ['F:State.from', 'F:State.to'], 'authentication is sent to the selected counter-party', narrow=False)
    # --- guards before the transaction
    EPOCH = ['C:Runtime::curr_epoch']
    X.guard('K6b', 'update:settled', U, T, m_rel('ge', EPOCH, ['F:State.settling_at'], False, pure=True), 'settling_at != 0 && curr_epoch >= settling_at => Err',
            assume=[m_rel('ne', ['F:State.settling_at'], ['V:0'], False)])
    X.guard('K6b', 'update:secret-size', U, T, m_rel('gt', ['F:UpdateChannelStateParams.secret'], ['K:MAX_SECRET_SIZE'], False), 'secret.len() > MAX_SECRET_SIZE => Err')
    X.guard('K6b', 'update:channel-match', U, T, m_rel('ne', ['C:MessageInfo::receiver'], ['F:%s.channel_addr' % SV], False), 'receiver != voucher channel => Err')
    X.guard('K6b', 'update:time_lock_min', U, T, m_rel('lt', EPOCH, ['F:%s.time_lock_min' % SV], False, pure=True), 'curr_epoch < time_lock_min => Err')
    X.guard('K6b', 'update:time_lock_max', U, T, m_rel('gt', EPOCH, ['F:%s.time_lock_max' % SV], False, pure=True), 'time_lock_max != 0 && curr_epoch > time_lock_max => Err',
            assume=[m_rel('ne', ['F:%s.time_lock_max' % SV], ['V:0'], False)])
    X.guard('K6b', 'update:amount-nonnegative', U, T, m_pred('is_negative', ['F:%s.amount' % SV], False), 'amount.is_negative() => Err')
    X.guard('K6b', 'update:secret', U, T, m_rel('ne', ['C:hash_blake2b', 'F:UpdateChannelStateParams.secret'], ['F:%s.secret_pre_image' % SV], False), 'hash(secret) != pre-image => Err',
            assume=[m_pred('is_empty', ['F:%s.secret_pre_image' % SV], True)])
    extra = [c for c in U.calls if sendsmod.is_send(c) and has_atom(prog.narrow.operand(U, c.args[1]), 'F:ModVerifyParams.actor')]
    rep.need('K5', 'update:extra-send', len(extra) == 1, 'one extra-verification send expected, found %d' % len(extra), X.loc(U))
    for e in extra:
        rep.need('K8', 'update:extra:propagated', result_fate(U, e) == 'try', 'extra verification error must be propagated', e.where)
        X.arg_has('K10', 'update:extra:zero-value', e, 4, ['C:zero'], 'verification send carries no value', forbid=['F:State.to_send', 'C:current_balance', 'F:%s.amount' % SV])
    # --- inside the transaction
    cls = [c for c in prog.closures_of(U.id, recursive=False) if X.write_blocks(c, 'State', 'to_send')]
    rep.need('K6', 'update:closure', len(cls) == 1, 'one closure writing State.to_send expected, found %d' % len(cls), X.loc(U))
    for C in cls:
        W = X.write_blocks(C, 'State', 'to_send')
        NONCE = ['F:LaneState.nonce']
        X.guard('K6b', 'update:lane-nonce', C, W, m_rel('ge', NONCE, ['F:%s.nonce' % SV], False, pure=True), 'lane.nonce >= voucher.nonce => Err',
                assume=[m_variant(['C:find_lane'], 0)])
        X.loop_reject('K6b', 'update:merge-own-lane', C, W, m_rel('eq', ['F:Merge.lane'], ['F:%s.lane' % SV], False), 'merge.lane == voucher.lane => Err')
        X.loop_reject('K6b', 'update:merge-nonce', C, W, m_rel('ge', NONCE, ['F:Merge.nonce'], False, pure=True), 'other.nonce >= merge.nonce => Err')
        X.guard('K6b', 'update:balance-nonnegative', C, W, m_rel('lt', ['F:State.to_send', 'F:%s.amount' % SV], ['C:zero'], False), 'new_send_balance < 0 => Err')
        X.guard('K6b', 'update:balance-covered', C, W, m_rel('gt', ['F:State.to_send', 'F:%s.amount' % SV], ['C:Runtime::current_balance'], False), 'new_send_balance > current_balance => Err')
        X.value_from('K10', 'update:to_send-value', C, X.stmt_rvalue_atoms(C, 'State', 'to_send', narrow=False),
                     ['F:%s.amount' % SV, 'F:LaneState.redeemed', 'F:State.to_send', 'C:::sub', 'C:::add'], 'to_send = amount - (redeemed on lane + merged lanes) + to_send')
        X.accumulates('K10', 'update:merged-redeemed-summed', C, ['F:LaneState.redeemed'], 'redeemed amounts of all merged lanes are summed')
        X.value_from('K10', 'update:lane.nonce', C, [x for x in X.stmt_rvalue_atoms(C, 'LaneState', 'nonce') if not has_atom(x[1], 'F:Merge.nonce')], ['F:%s.nonce' % SV], 'lane nonce := voucher nonce', copy=True)
        fam = [C] + list(prog.closures_of(C.id))
        mn = [(g, x) for g in fam for x in X.stmt_rvalue_atoms(g, 'LaneState', 'nonce') if has_atom(x[1], 'F:Merge.nonce')]
        X.value_from('K10', 'update:merged.nonce', mn[0][0] if mn else C, [x for (_g, x) in mn], ['F:Merge.nonce'], 'merged lane nonce := merge nonce', copy=True)
        X.value_from('K10', 'update:lane.redeemed', C, X.stmt_rvalue_atoms(C, 'LaneState', 'redeemed'), ['F:%s.amount' % SV], 'lane redeemed := voucher amount', copy=True, forbid=['F:LaneState.redeemed'])
        sets = [c.bb for g in fam for c in g.calls if (c.callee or '').endswith('Amt::<V, BS, VER>::set') or (c.callee or '').endswith('::set')]
        rep.floor('K7', 'lane_set_sites', len(sets), 2)
        X.followed_by('K7', 'update:lanes-stored', C, W, X.write_blocks(C, 'State', 'lane_states'), 'the updated lane table is flushed into the state')
        # settle height only raised
        ws = X.write_blocks(C, 'State', 'settling_at')
        X.raised_only('K6b', 'update:settling_at-only-raised', C, 'State', 'settling_at', ['F:%s.min_settle_height' % SV], 'a voucher can only push settling_at later (if settling_at < min_settle_height { = } or = max(..))')
        X.guard('K6b', 'update:settling_at-only-if-settling', C, ws, m_rel('ne', ['F:State.settling_at'], ['V:0'], True), 'settling_at != 0')
        wm = X.write_blocks(C, 'State', 'min_settle_height')
        X.raised_only('K6b', 'update:min_settle_height-only-raised', C, 'State', 'min_settle_height', ['F:%s.min_settle_height' % SV], 'a voucher can only raise the minimum settle height')
    # --- settle
    ST = X.fn('Actor::settle', CR)
    for C in prog.closures_of(ST.id, recursive=False):
        ws = X.write_blocks(C, 'State', 'settling_at')
        if not ws:
            continue
        X.guard('K6b', 'settle:once', C, ws, m_rel('ne', ['F:State.settling_at'], ['V:0'], False), 'settling_at != 0 => Err')
        vals = X.stmt_rvalue_atoms(C, 'State', 'settling_at', narrow=False)
        first = [v for v in vals if has_atom(v[1], 'K:SETTLE_DELAY')]
        X.value_from('K10', 'settle:delay', C, first, ['C:Runtime::curr_epoch', 'K:SETTLE_DELAY', 'OP:Add'], 'settling_at = curr_epoch + SETTLE_DELAY')
        # ... and never before the minimum settle height: either a second, guarded write or max(delay, min_settle_height) at once
        if any(has_atom(v[1], 'F:State.min_settle_height') and (has_atom(v[1], 'C:cmp::max') or has_atom(v[1], 'C:Ord::max')) for v in first):
            rep.ob('K6b', 'settle:only-raised', True, 'settling_at = max(curr_epoch + SETTLE_DELAY, min_settle_height)', X.loc(C))
        else:
            X.raised_only('K6b', 'settle:only-raised', C, 'State', 'settling_at', ['F:State.min_settle_height'], 'settling starts no earlier than the minimum settle height')
    X.const_is('K11', 'SETTLE_DELAY', 1440, CR)
    # --- collect
    CO = X.fn('Actor::collect', CR)
    snd = [c for c in CO.calls if sendsmod.is_send(c)]
    dele = [c.bb for c in CO.calls if (c.defp or '') == RUNTIME + 'delete_actor']
    nx = sendsmod.exit_code_rule(X, rep, sendsmod.all_sends(prog, crates=(CR,)), {})
    rep.floor('K8', 'paych_send_sites_exit_code', nx, 4)
    rep.need('K5', 'collect:sends', len(snd) == 2 and len(dele) == 1, 'collect must make two sends and delete the actor (found %d, %d)' % (len(snd), len(dele)), X.loc(CO))
    eff = [c.bb for c in snd] + dele
    X.guard('K6b', 'collect:settling', CO, eff, m_rel('eq', ['F:State.settling_at'], ['V:0'], False), 'settling_at == 0 => Err')
    X.guard('K6b', 'collect:delay-elapsed', CO, eff, m_rel('lt', ['C:Runtime::curr_epoch'], ['F:State.settling_at'], False, pure=True), 'curr_epoch < settling_at => Err')
    pay = [c for c in snd if has_atom(prog.narrow.operand(CO, c.args[4]), 'F:State.to_send')]
    ref = [c for c in snd if has_atom(prog.narrow.operand(CO, c.args[4]), 'C:Runtime::current_balance')]
    rep.need('K10', 'collect:payee-and-refund', len(pay) == 1 and len(ref) == 1, 'one send of to_send and one of the remaining balance expected', X.loc(CO))
    for c in pay:
        X.arg_has('K10', 'collect:payee', c, 1, ['F:State.to'], 'amount owed goes to the payee', forbid=['F:State.from'])
        rep.need('K8', 'collect:payee:propagated', result_fate(CO, c) == 'try', 'payee transfer failure must abort', c.where)
    for c in ref:
        X.arg_has('K10', 'collect:payer', c, 1, ['F:State.from'], 'remainder goes to the payer', forbid=['F:State.to'])
        rep.need('K8', 'collect:payer:propagated', result_fate(CO, c) == 'try', 'payer transfer failure must abort', c.where)
    if pay and ref:
        X.precedes('K7', 'collect:payee-before-payer', CO, [pay[0].bb], [ref[0].bb], 'the payee is paid before the remainder is returned')
        X.precedes('K7', 'collect:delete-last', CO, [ref[0].bb], dele, 'the actor is deleted only after both transfers')
    # --- single writers
    X.writers('K4', 'State', 'to_send', ['Actor::update_channel_state'], crate=CR)
    X.writers('K4', 'State', 'settling_at', ['Actor::update_channel_state', 'Actor::settle'], crate=CR)
    X.writers('K4', 'State', 'min_settle_height', ['Actor::update_channel_state'], crate=CR)
    X.writers('K4', 'State', 'lane_states', ['Actor::update_channel_state'], crate=CR)
    X.writers('K4', 'State', 'from', [], crate=CR)
    X.writers('K4', 'State', 'to', [], crate=CR)
    fl = X.fn('find_lane', CR)
    X.guard('K6b', 'find_lane:max', fl, [c.bb for c in fl.calls if (c.callee or '').endswith('::get')], m_rel('gt', ['P:2'], ['K:MAX_LANE'], False), 'lane id > MAX_LANE => Err')
    # ---- running totals (amounts, power, datacap) accumulated in loops keep their earlier contributions
    X.accumulator_integrity('K12', 'running-totals', ['fil_actor_paych'], 'running totals of amounts')
    X.no_dropped_results('K14', 'results-not-discarded', ['fil_actor_paych'], 'no Result of a call is discarded')
    X.tolerated_failures('K15', 'tolerated-failures', ['fil_actor_paych'], 'tolerated failures are the reviewed ones')
    X.write_sites_preserved('K16', 'updates-present', 'fil_actor_paych', ['State.to_send', 'State.settling_at', 'State.min_settle_height', 'State.lane_states', 'LaneState.redeemed', 'LaneState.nonce'], 'state updates do not disappear')

