"""C08 - deal lifecycle: unique publication, one timely activation by the provider."""
import re
from core import *
from rules import *
import sends as sendsmod

LEVEL = 'other'
LEVEL_TEXT = ('Structural necessary conditions over the market actor\'s MIR: a proposal reaches the accepted set only past the per-deal filters (client '
              'authentication verdict, same provider, resolvable client, both escrow-cover tests on running totals, duplicate tests against the pending '
              'set and within the message); deal ids come from one monotone counter; the publisher is a controlling address of a miner provider; both '
              'activation paths go through one pre-activation routine whose success lies behind provider equality, start-epoch, sector-expiry, '
              'not-yet-active and pending-set tests, and guard against repeats in a call; a proposal not activated by its start epoch is removed with '
              'full client refund and provider collateral slashed, and the slash is burnt. Uniqueness over histories is not decided beyond the counter.')
TECHNIQUE = 'per-iteration filter dominance, guard dominance by CFG edge deletion, single-writer / single-caller sets, argument provenance slices over rustc MIR'
CR = 'fil_actor_market'
TX = RUNTIME + 'transaction'
ST = 'state::State::'


def run(prog, rep, tier, cfg):
    X = Ctx(prog, rep)
    rep.explanation = LEVEL_TEXT
    rep.not_decided = 'uniqueness and timeliness over arbitrary histories; signature validity (delegated to the client account actor)'
    P = X.fn('Actor::publish_storage_deals', CR)
    publish_gates(prog, rep, X)
    push = [c.bb for c in P.calls if (c.callee or '').endswith('Vec::<T, A>::push') and has_atom(prog.narrow.operand(P, c.args[1]), 'E:ValidDeal')]
    rep.need('K5', 'publish:accept-site', len(push) == 1, 'one valid_deals.push(ValidDeal{..}) expected, found %d' % len(push), X.loc(P))
    # authentication verdict
    vd = [c for c in conds(P, prog.slicer) if c.kind == 'variant' and has_atom(c.A, 'C:validate_deal')]
    okv = False
    flag = None
    if len(vd) == 1:
        c = vd[0]
        err_arm = c.arms.get(1, c.arms.get('otherwise'))
        ok_arm = c.arms.get(0, c.arms.get('otherwise') if 1 in c.arms else None)
        def consts_assigned(bb):
            out = {}
            for st in P.blocks[bb]['s']:
                if st[0] == '=' and not st[1][1] and st[2][0] == 'use' and st[2][1][0] == 'k' and st[2][1][1].get('ty') == 'bool':
                    out[st[1][0]] = st[2][1][1]['val']
            return out
        heads = X.loop_heads(P)
        ea = {}
        for b in P.reach([err_arm], blocked=heads | ({ok_arm} if ok_arm is not None else set())):
            ea.update(consts_assigned(b))
        oa = {}
        for b in P.reach([ok_arm], blocked=heads | {err_arm}) if ok_arm is not None else []:
            for l, v in consts_assigned(b).items():
                oa.setdefault(l, v)
        for l in set(ea) & set(oa):
            if ea[l] == 0 and oa[l] == 1:
                flag = l
        if flag is not None:
            # the verdict is recorded and later consulted
            rec = [q for q in P.calls if (q.callee or '').endswith('Vec::<T, A>::push') and q.args[1][0] in ('m', 'c') and (q.args[1][1][0] == flag or flag in [d[4][1][1][0] for d in P.defs.get(q.args[1][1][0], []) if d[0] == '=' and d[4][0] == 'use' and d[4][1][0] in ('m', 'c')])]
            okv = len(rec) == 1
    rep.need('K6b', 'publish:validation-verdict-recorded', okv, 'a deal failing validate_deal (incl. client authentication) is recorded invalid (false on the Err arm, true on the Ok arm) in the validity index', X.loc(P))
    X.iter_guard('K6b', 'publish:validity-index-consulted', P, push, m_boolatoms(['C:get', 'K:USR_ASSERTION_FAILED'], True), 'validity_index[di] must be true')
    VD = X.fn('validate_deal', CR)
    X.call_guard('K6a', 'validate_deal:authentication', VD, VD.ret_blocks(), callee_is('deal_proposal_is_internally_valid'), 'deal_proposal_is_internally_valid(rt, deal)?')
    DV = X.fn('deal_proposal_is_internally_valid', CR)
    au = [c for c in DV.calls if sendsmod.is_send(c)]
    rep.need('K5', 'authenticate:send', len(au) == 1, 'one AuthenticateMessage send expected', X.loc(DV))
    sendsmod.exit_code_rule(X, rep, [sendsmod.SendSite(prog, c) for c in au], {})
    for c in au:
        X.arg_has('K10', 'authenticate:to-client', c, 1, ['F:DealProposal.client'], 'the signature is authenticated by the proposal\'s client', forbid=['F:DealProposal.provider'])
        X.arg_has('K10', 'authenticate:method', c, 2, ['K:AUTHENTICATE_MESSAGE_METHOD'], 'AuthenticateMessage')
        X.arg_has('K10', 'authenticate:readonly', c, 6, ['K:READ_ONLY'], 'read-only')
        X.arg_has('K10', 'authenticate:signature-and-bytes', c, 3, ['F:ClientDealProposal.client_signature', 'F:ClientDealProposal.proposal'], 'over the proposal bytes with the supplied signature', narrow=False)
        rep.need('K8', 'authenticate:propagated', result_fate(DV, c) == 'try', 'failure rejects the deal', c.where)
        X.guard('K6b', 'authenticate:verdict', DV, DV.ret_blocks(), m_boolatoms(['K:AUTHENTICATE_MESSAGE_METHOD', 'C:Runtime::send'], True), 'authentication returned true')
    # per-deal filters
    X.iter_guard('K6b', 'publish:client-resolves', P, push, m_variant(['C:Runtime::resolve_address', 'F:DealProposal.client'], 1), 'client address resolves')
    X.iter_guard('K6b', 'publish:client-funds', P, push, m_boolatoms(['C:State::balance_covered', 'C:DealProposal::client_balance_requirement'], True), 'client escrow covers running lock-up')
    X.iter_guard('K6b', 'publish:provider-funds', P, push, m_boolatoms(['C:State::balance_covered', 'F:DealProposal.provider_collateral'], True), 'provider escrow covers running lock-up',
                 )
    X.iter_guard('K6b', 'publish:not-pending', P, push, m_boolatoms(['C:State::has_pending_deal'], False), 'identical proposal already pending => skip')
    X.iter_guard('K6b', 'publish:not-in-message', P, push, m_boolatoms(['C:BTreeSet::<T, A>::contains'], False), 'identical proposal earlier in this message => skip')
    for c in P.calls:
        if callee_is(ST + 'has_pending_deal')(c):
            X.arg_has('K10', 'publish:pending-key-is-normalised-cid', c, 2, ['C:serialized_deal_cid'], 'duplicate test uses the cid of the normalised proposal', narrow=False)
        if (c.callee or '').endswith('BTreeSet::<T, A>::insert'):
            if has_atom(prog.narrow.operand(P, c.args[1]), 'C:serialized_deal_cid'):
                X.precedes('K7', 'publish:cid-remembered', P, [c.bb], push, 'the accepted cid is remembered for the in-message duplicate test') if False else None
    ins = [c for c in P.calls if (c.callee or '').endswith('BTreeSet::<T, A>::insert') and has_atom(prog.narrow.operand(P, c.args[1]), 'C:serialized_deal_cid')]
    rep.need('K7', 'publish:cid-remembered', len(ins) == 1 and push and (P.dominates(ins[0].bb, push[0]) or P.dominates(push[0], ins[0].bb)), 'every accepted cid is inserted into the in-message lookup', X.loc(P))
    cov = [c for c in P.calls if callee_is(ST + 'balance_covered')(c)]
    rep.need('K5', 'publish:cover-tests', len(cov) == 2, 'two escrow-cover tests expected', X.loc(P))
    for c in cov:
        at = prog.narrow.operand(P, c.args[3])
        if has_atom(at, 'C:DealProposal::client_balance_requirement'):
            X.arg_has('K10', 'publish:client-cover-party', c, 2, ['C:Runtime::resolve_address', 'F:DealProposal.client'], 'client cover is tested for the client', narrow=False)
            rep.need('K10', 'publish:client-cover-running-total', has_atom(at, 'C:BTreeMap::<K, V, A>::get') or has_atom(at, 'C:unwrap_or_default'), 'the client lock-up accumulates over the batch', c.where)
        else:
            X.arg_has('K10', 'publish:provider-cover-amount', c, 3, ['F:DealProposal.provider_collateral'], 'provider cover includes this deal\'s collateral', narrow=False)
    # the client's running lock-up is looked up and stored under one key - the resolved client id - so that several deals of one client add up
    CBR = 'C:DealProposal::client_balance_requirement'
    mg = [c for c in P.calls if (c.callee or '').endswith('BTreeMap::<K, V, A>::get') and has_atom(prog.narrow.operand(P, c.args[0]), CBR)]
    mi = [c for c in P.calls if (c.callee or '').endswith('BTreeMap::<K, V, A>::insert') and has_atom(prog.narrow.operand(P, c.args[2]), CBR)]
    rep.need('K5', 'publish:client-running-total-sites', len(mg) == 1 and len(mi) == 1, 'one look-up and one store of the per-client running lock-up (found %d, %d)' % (len(mg), len(mi)), X.loc(P))
    if mg and mi:
        X.index_agreement('K10', 'publish:client-running-total-key', P, [('get', c, 1) for c in mg] + [('insert', c, 1) for c in mi], 'the running lock-up is read and written under the same key')
        for c in mg + mi:
            X.arg_has('K10', 'publish:client-running-total-key-resolved:%s' % c.callee.split('::')[-1], c, 1, ['C:Runtime::resolve_address'], 'the key is the resolved client id (one entry per client whatever address form the proposal uses)',
                      forbid=['F:DealProposal.client', 'F:DealProposal.provider'])
    # commit closure
    cls = [g for g in prog.closures_of(P.id, recursive=False) if any(callee_is(ST + 'lock_client_and_provider_balances')(c) for c in g.calls)]
    rep.need('K6', 'publish:commit-closure', len(cls) == 1, 'one commit closure expected', X.loc(P))
    for g in cls:
        for name in ('put_pending_deals', 'put_deal_proposals', 'put_deals_by_epoch', 'put_pending_deal_allocation_ids'):
            cs = [c for c in g.calls if callee_is(ST + name)(c)]
            rep.need('K7', 'publish:commit:%s' % name, len(cs) == 1 and result_fate(g, cs[0]) == 'try' and not g.ok_returns_from([0], blocked={cs[0].bb}),
                     'every successful publication stores %s' % name, X.loc(g))
        lk = [c for c in g.calls if callee_is(ST + 'lock_client_and_provider_balances')(c)]
        gi = [c for c in g.calls if callee_is(ST + 'generate_storage_deal_id')(c)]
        rep.need('K7', 'publish:lock-and-id-per-deal', len(lk) == 1 and len(gi) == 1 and result_fate(g, lk[0]) == 'try' and g.dominates(lk[0].bb, gi[0].bb), 'each accepted deal is locked (or the message aborts) and then gets a fresh id', X.loc(g))
    # ids
    X.writers('K4', 'State', 'next_id', [ST + 'generate_storage_deal_id'], crate=CR, constructors=[ST + 'new'])
    G = X.fn(ST + 'generate_storage_deal_id', CR)
    X.value_from('K10', 'deal-id:increment', G, X.stmt_rvalue_atoms(G, 'State', 'next_id', narrow=False), ['F:State.next_id', 'OP:Add', 'V:1'], 'next_id := next_id + 1', forbid=['OP:Sub'])
    ret_ops = set()
    ret_ok = False
    for b in G.blocks:
        for st in b['s']:
            if st[0] == '=' and st[1][0] == 0 and not st[1][1] and st[2][0] == 'use':
                ret_ops |= {o for o in expr_ops(prog, G, st[2][1]) if o[0] == 'OP'}
                ret_ok = has_atom(prog.narrow.rvalue(G, st[2]), 'F:State.next_id')
    rep.need('K10', 'deal-id:returns-previous', ret_ok and not ret_ops, 'the allocated id is the counter value read before the increment (a plain copy)', X.loc(G))
    X.callers('K5', ST + 'generate_storage_deal_id', callee_is(ST + 'generate_storage_deal_id'), ['Actor::publish_storage_deals'], crates=[CR])
    X.writers('K4', 'State', 'pending_proposals', [ST + 'save_pending_deals'], crate=CR, constructors=[ST + 'new'])
    X.callers('K5', ST + 'put_pending_deals', callee_is(ST + 'put_pending_deals'), ['Actor::publish_storage_deals'], crates=[CR])
    X.callers('K5', ST + 'remove_pending_deal', callee_is(ST + 'remove_pending_deal'),
              [ST + 'get_active_deal_or_process_timeout', ST + 'process_deal_update', 'Actor::on_miner_sectors_terminate', 'Actor::cron_tick'], crates=[CR])
    # the pending set is keyed by proposal cid, and an identical proposal may be published again once the first copy has been
    # processed (its cid was taken out of the pending set then). So a deal that *has* been processed must never un-pend its cid
    # again - that entry may now belong to the newer copy: outside the activation-timeout path the removal is reachable only when
    # the deal was never processed (last_updated_epoch == EPOCH_UNDEFINED)
    NEVER = m_rel('eq', ['F:DealState.last_updated_epoch'], ['K:EPOCH_UNDEFINED'], True)
    n_rp = 0
    for hn in ('Actor::on_miner_sectors_terminate', 'Actor::cron_tick', ST + 'process_deal_update'):
        H = X.fn(hn, CR)
        for g in prog.family(H):
            for c in g.calls:
                if callee_is(ST + 'remove_pending_deal')(c):
                    n_rp += 1
                    X.guard('K6b', 'pending-removed-only-if-never-processed:%s' % hn.split('::')[-1], g, [c.bb], NEVER, 'last_updated_epoch == EPOCH_UNDEFINED', success_only=False)
    rep.floor('K6b', 'guarded_pending_removals', n_rp, 3)
    # ---- activation
    X.callers('K5', 'preactivate_deal', callee_is('preactivate_deal'), ['Actor::batch_activate_deals', 'Actor::sector_content_changed'], crates=[CR])
    PA = X.fn('preactivate_deal', CR)
    okok = []
    for bi, b in enumerate(PA.blocks):
        for st in b['s']:
            if st[0] == '=' and st[2][0] == 'agg' and st[2][1].get('variant') == 'Ok' and st[2][1].get('adt') == 'core::result::Result' and st[2][2]:
                if has_atom(prog.narrow.operand(PA, st[2][2][0]), 'C:get_proposal') and not st[1][0] == 0:
                    okok.append(bi)
    rep.need('K6b', 'preactivate:success-site', len(okok) >= 1, 'the Ok(Ok(proposal)) result site', X.loc(PA))
    vc = [c for c in conds(PA, prog.slicer) if c.kind == 'variant' and has_atom(c.A, 'C:validate_deal_can_activate') and not has_atom(c.A, 'C:find_deal_state')]
    X.guard('K6b', 'preactivate:can-activate', PA, okok, lambda c: (0 if (c.kind == 'variant' and has_atom(c.A, 'C:validate_deal_can_activate') and not c.place[1] and 0 in c.arms) else ('otherwise' if (c.kind == 'variant' and has_atom(c.A, 'C:validate_deal_can_activate') and not c.place[1] and 1 in c.arms) else None)),
            'validate_deal_can_activate is Ok')
    X.guard('K6b', 'preactivate:not-active-yet', PA, okok, m_pred('is_some', ['C:find_deal_state'], False), 'deal state exists => already activated')
    X.guard('K6b', 'preactivate:still-pending', PA, okok, m_boolatoms(['C:Set::<BS, K>::has', 'C:deal_cid'], True), 'proposal cid is in the pending set') if any((c.callee or '').endswith('Set::<BS, K>::has') for c in PA.calls) else \
        X.guard('K6b', 'preactivate:still-pending', PA, okok, m_boolatoms(['C:deal_cid'], True), 'proposal cid is in the pending set')
    for c in PA.calls:
        if callee_is('validate_deal_can_activate')(c):
            X.arg_has('K10', 'preactivate:provider-arg', c, 1, ['P:6'], 'the activating miner', narrow=False)
            X.arg_has('K10', 'preactivate:expiry-arg', c, 2, ['P:7'], 'the sector commitment epoch', narrow=False)
            X.arg_has('K10', 'preactivate:epoch-arg', c, 3, ['P:8'], 'the current epoch', narrow=False)
    VA = X.fn('validate_deal_can_activate', CR)
    vr = VA.ret_blocks()
    X.guard('K6b', 'can-activate:own-provider', VA, vr, m_rel('ne', ['F:DealProposal.provider'], ['P:2'], False), 'proposal.provider != miner => Err')
    X.guard('K6b', 'can-activate:not-after-start', VA, vr, m_rel('gt', ['P:4'], ['F:DealProposal.start_epoch'], False, pure=True), 'curr_epoch > start_epoch => Err')
    X.guard('K6b', 'can-activate:sector-outlives-deal', VA, vr, m_rel('gt', ['F:DealProposal.end_epoch'], ['P:3'], False, pure=True), 'end_epoch > sector_expiration => Err')
    for hn, expf in (('Actor::batch_activate_deals', 'F:SectorDeals.sector_expiry'), ('Actor::sector_content_changed', 'F:SectorChanges.minimum_commitment_epoch')):
        H = X.fn(hn, CR)
        key = hn.split('::')[-1]
        for g in prog.closures_of(H.id, recursive=False):
            pcs = [c for c in g.calls if callee_is('preactivate_deal')(c)]
            if not pcs:
                continue
            c = pcs[0]
            X.arg_has('K10', '%s:provider-is-caller' % key, c, 5, ['C:MessageInfo::caller'], 'deals are activated for the calling miner', narrow=False)
            X.arg_has('K10', '%s:sector-expiry' % key, c, 6, [expf], 'against the sector\'s commitment', narrow=False)
            X.arg_has('K10', '%s:current-epoch' % key, c, 7, ['C:Runtime::curr_epoch'], 'at the current epoch', narrow=False)
            rep.need('K8', '%s:preactivate-abort-propagated' % key, result_fate(g, c) == 'try', 'internal errors abort', c.where)
            pushes = [q.bb for q in g.calls if (q.callee or '').endswith('Vec::<T, A>::push') and has_atom(prog.narrow.operand(g, q.args[1]), 'E:DealState')]
            rep.need('K5', '%s:state-push' % key, len(pushes) == 1, 'one deal_states.push expected, found %d' % len(pushes), X.loc(g))
            X.iter_guard('K6b', '%s:no-repeat-in-call' % key, g, pushes, m_boolatoms(['C:HashSet::<T, S, A>::contains'], False), 'deal id already activated in this call => skip')
            X.iter_guard('K6b', '%s:preactivated' % key, g, pushes, lambda cc: (0 if (cc.kind == 'variant' and has_atom(cc.A, 'C:preactivate_deal') and 0 in cc.arms and cc.place[1] and any(isinstance(p, list) and p[0] == 'dc' and p[1] == 'Continue' for p in cc.place[1])) else None) if False else m_variant(['C:preactivate_deal'], 0)(cc) if (cc.kind == 'variant' and has_atom(cc.A, 'C:preactivate_deal')) else None,
                         'preactivate_deal returned Ok(Ok(_))')
            X.value_from('K10', '%s:sector_start_epoch' % key, g, X.agg_field_atoms(g, 'DealState', 'sector_start_epoch', narrow=False), ['C:Runtime::curr_epoch'], 'activation epoch is the current epoch')
            X.value_from('K10', '%s:never-updated' % key, g, X.agg_field_atoms(g, 'DealState', 'last_updated_epoch', narrow=False), ['K:EPOCH_UNDEFINED'], 'fresh deal state')
            X.value_from('K10', '%s:not-slashed' % key, g, X.agg_field_atoms(g, 'DealState', 'slash_epoch', narrow=False), ['K:EPOCH_UNDEFINED'], 'fresh deal state')
            pds = [q for q in g.calls if callee_is(ST + 'put_deal_states')(q)]
            rep.need('K7', '%s:states-stored' % key, len(pds) == 1 and result_fate(g, pds[0]) == 'try' and not g.ok_returns_from([0], blocked={pds[0].bb}), 'activated deal states are stored on success', X.loc(g))
            if key == 'batch_activate_deals':
                # within one sector a deal id may appear once: the adjacent-pairs test must run over a *sorted* copy of the ids
                # (the `activated_deals` set is only filled after the whole sector validated, so it cannot see in-sector repeats)
                win = [q for q in g.calls if (q.callee or '').endswith('[T]>::windows') or (q.callee or '').endswith('::windows')]
                srt = [q for q in g.calls if re.search(r'::sort(_unstable)?(_by(_key)?)?$', q.callee or '')]
                ok = False
                for w in win:
                    base = _base_local(g, w.args[0])
                    for q in srt:
                        if _base_local(g, q.args[0]) == base and base is not None and g.dominates(q.bb, w.bb):
                            ok = True
                # ... or be a set-insertion test: some `set.insert(id)` over the sector's ids whose bool result is used
                # (the `activated_deals.insert(..)` bookkeeping drops its result and does not count)
                def over_deal_ids(h, q):
                    if has_atom(prog.slicer.operand(h, q.args[1]), 'F:SectorDeals.deal_ids'):
                        return True
                    par = prog.fns.get(h.parent) if h.kind == 'closure' else None     # the id is the item of an iterator over the ids
                    return par is not None and any(h.id in c.cl and c.args and has_atom(prog.slicer.operand(prog.V(par), c.args[0]), 'F:SectorDeals.deal_ids') for c in prog.V(par).calls)
                alt = [q for h in prog.family(g) for q in h.calls if re.search(r'(HashSet|BTreeSet)::<[^>]*>::insert$', q.callee or '')
                       and result_fate(h, q) != 'dropped' and over_deal_ids(h, q)]
                rep.need('K6b', '%s:in-sector-duplicates-sorted' % key, ok or (not win and len(alt) >= 1),
                         'the in-sector duplicate test (adjacent pairs) must run over ids that were sorted first; windows sites %s, sort sites %s' % ([q.where for q in win], [q.where for q in srt]), X.loc(g))
            ai = [q for q in g.calls if (q.callee or '').endswith('HashSet::<T, S, A>::insert')]
            rep.need('K7', '%s:activated-remembered' % key, len(ai) == 1, 'activated ids are remembered for the repeat test', X.loc(g))
    # ---- timeouts
    X.callers('K5', ST + 'get_active_deal_or_process_timeout', callee_is(ST + 'get_active_deal_or_process_timeout'), ['Actor::cron_tick', 'Actor::settle_deal_payments'], crates=[CR])
    X.callers('K5', ST + 'process_deal_init_timed_out', callee_is(ST + 'process_deal_init_timed_out'), [ST + 'get_active_deal_or_process_timeout'], crates=[CR])
    GA = X.fn(ST + 'get_active_deal_or_process_timeout', CR)
    to = [c for c in GA.calls if callee_is(ST + 'process_deal_init_timed_out')(c)]
    rep.need('K5', 'timeout:site', len(to) == 1 and result_fate(GA, to[0]) == 'try', 'one process_deal_init_timed_out(..)? expected', X.loc(GA))
    if to:
        X.guard('K6b', 'timeout:not-before-start', GA, [to[0].bb], m_rel('lt', ['P:3'], ['F:DealProposal.start_epoch'], False, pure=True), 'curr_epoch < start_epoch => TooEarly')
        X.guard('K6b', 'timeout:only-unactivated', GA, [to[0].bb], m_variant(['C:State::find_deal_state'], 0), 'no deal state')
        for name in ('remove_proposal', 'remove_pending_deal', 'remove_pending_deal_allocation_id'):
            cs = [c for c in GA.calls if callee_is(ST + name)(c)]
            rep.need('K7', 'timeout:%s' % name, len(cs) == 1 and result_fate(GA, cs[0]) == 'try' and not GA.ok_returns_from([t for (t, _l) in GA.succ[to[0].bb]], blocked={cs[0].bb}),
                     'a timed-out proposal is cleaned up (%s)' % name, X.loc(GA))
    missed_activation_money(prog, rep, X)
    slash_burnt(prog, rep, X)
    # ---- running totals (amounts, power, datacap) accumulated in loops keep their earlier contributions
    X.accumulator_integrity('K12', 'running-totals', ['fil_actor_market'], 'running totals of amounts')
    X.no_dropped_results('K14', 'results-not-discarded', ['fil_actor_market'], 'no Result of a call is discarded')
    X.tolerated_failures('K15', 'tolerated-failures', ['fil_actor_market'], 'tolerated failures are the reviewed ones')
    X.write_sites_preserved('K16', 'updates-present', 'fil_actor_market', ['State.next_id', 'State.pending_proposals', 'State.proposals', 'State.states', 'State.pending_deal_allocation_ids', 'State.provider_sectors', 'State.deal_ops_by_epoch'], 'state updates do not disappear')



def missed_activation_money(prog, rep, X, prefix=''):
    """a proposal not activated in time: client fully refunded, provider collateral slashed in full, the rest of nothing kept
    (also evaluated under C07)"""
    TI = X.fn(ST + 'process_deal_init_timed_out', CR)
    un = [c for c in TI.calls if callee_is(ST + 'unlock_balance')(c)]
    sl = [c for c in TI.calls if callee_is(ST + 'slash_balance')(c)]
    rep.need('K5', prefix + 'timeout:money-sites', len(un) == 3 and len(sl) == 1 and all(result_fate(TI, c) == 'try' for c in un + sl), 'three unlocks and one slash, all propagated', X.loc(TI))
    want = [('F:DealProposal.client', 'C:DealProposal::total_storage_fee', 'E:Reason::ClientStorageFee'), ('F:DealProposal.client', 'F:DealProposal.client_collateral', 'E:Reason::ClientCollateral'),
            ('F:DealProposal.provider', 'C:DealProposal::provider_balance_requirement', 'E:Reason::ProviderCollateral')]
    for (party, amt, reason) in want:
        hit = [c for c in un if has_atom(prog.slicer.operand(TI, c.args[4]), reason) and has_atom(prog.narrow.operand(TI, c.args[2]), party) and has_atom(prog.narrow.operand(TI, c.args[3]), amt)]
        rep.need('K10', prefix + 'timeout:refund:%s' % reason.split('::')[-1], len(hit) == 1, 'unlock %s of %s under %s' % (amt, party, reason), X.loc(TI))
    for c in sl:
        X.arg_has('K10', prefix + 'timeout:slash-provider', c, 2, ['F:DealProposal.provider'], 'the provider is slashed')
        X.arg_has('K10', prefix + 'timeout:slash-amount', c, 3, ['C:collateral_penalty_for_deal_activation_missed', 'F:DealProposal.provider_collateral'], 'by the missed-activation penalty of its collateral', narrow=False)
    rep.need('K10', prefix + 'timeout:returns-slashed', has_atom(prog.narrow.local(TI, 0), 'C:collateral_penalty_for_deal_activation_missed'), 'returns the slashed amount to be burnt', X.loc(TI))
    CP = X.try_fn('K10', 'policy::collateral_penalty_for_deal_activation_missed', CR)
    if CP is not None:
        a = prog.slicer.local(CP, 0)
        rep.need('K10', prefix + 'timeout:penalty-is-full-collateral', has_atom(a, 'P:1') and not any(x[0] == 'OP' for x in a) and not has_atom(a, 'C:::div') and not has_atom(a, 'C:::mul'),
                 'the missed-activation penalty is the whole provider collateral', X.loc(CP))


def slash_burnt(prog, rep, X, prefix=''):
    """every amount slashed from escrow is summed and sent to the burnt-funds actor in the same call (also evaluated under C01)"""
    for hn in ('Actor::cron_tick', 'Actor::settle_deal_payments', 'Actor::on_miner_sectors_terminate'):
        H = X.fn(hn, CR)
        key = hn.split('::')[-1]
        burns = [c for c in H.calls if sendsmod.is_send(c) and has_atom(prog.narrow.operand(H, c.args[1]), 'K:BURNT_FUNDS_ACTOR_ADDR')]
        rep.need('K5', prefix + 'slash-burnt:%s:send' % key, len(burns) == 1 and result_fate(H, burns[0]) == 'try', 'one burn send with failure propagated', X.loc(H))
        src = ['C:State::process_slashed_deal'] if key == 'on_miner_sectors_terminate' else ['C:State::get_active_deal_or_process_timeout']
        for c in burns:
            X.arg_has('K10', prefix + 'slash-burnt:%s:amount' % key, c, 4, src, 'the burnt value is the sum of slashed amounts')
            gz = m_pred('is_zero', src, False) if key != 'on_miner_sectors_terminate' else m_pred('is_positive', src, True)
            X.guard('K6b', prefix + 'slash-burnt:%s:only-skip-zero' % key, H, [c.bb], gz, 'burn unless zero')
        okacc = False
        for g in prog.family(H):
            for c in g.calls:
                if (c.defp or '').endswith('AddAssign::add_assign') and has_all(prog.narrow.operand(g, c.args[1]), src):
                    okacc = True
        rep.need('K10', prefix + 'slash-burnt:%s:accumulated' % key, okacc, 'slashed amounts are summed with +=', X.loc(H))


def _base_local(g, op, depth=0):
    """the user local an operand borrows / derefs (follows `&mut v`, `&*v`, Deref::deref(&v), moves)"""
    if depth > 8 or op[0] not in ('c', 'm'):
        return None
    l = op[1][0]
    ds = [d for d in g.defs.get(l, []) if d[0] in ('=', 'call')]
    named = {n[1][0] for n in g.names if not n[1][1]} if hasattr(g, 'names') else set()
    if l in named or len(ds) != 1:
        return l
    d = ds[0]
    if d[0] == '=':
        rv = d[4]
        if rv[0] in ('ref', 'rawptr'):
            return _base_local(g, ['c', [rv[2][0], []]], depth + 1)
        if rv[0] == 'use' and rv[1][0] in ('c', 'm'):
            return _base_local(g, ['c', [rv[1][1][0], []]], depth + 1)
        if rv[0] == 'cast' and rv[2][0] in ('c', 'm'):
            return _base_local(g, ['c', [rv[2][1][0], []]], depth + 1)
        return l
    c = d[2]
    if (c.defp or '').startswith('core::ops::deref::Deref') or (c.callee or '').endswith('::as_slice') or (c.callee or '').endswith('::as_mut_slice') or (c.defp or '').endswith('::deref_mut'):
        return _base_local(g, c.args[0], depth + 1)
    return l


def publish_gates(prog, rep, X, prefix=''):
    """who may publish (accept-any method gated by hand; also evaluated under C11)"""
    P = X.fn('Actor::publish_storage_deals', CR)
    txs = [c.bb for c in P.calls if (c.defp or '') == TX]
    X.guard('K6b', prefix + 'publish:provider-is-miner', P, txs, m_rel('ne', ['C:Runtime::resolve_builtin_actor_type'], ['E:Type::Miner'], False), 'provider must be a miner actor')
    X.guard('K6b', prefix + 'publish:caller-controls-provider', P, txs, m_boolatoms(['F:IsControllingAddressReturn.is_controlling'], True), 'caller is a controlling address of the provider')
    q = [c for c in P.calls if sendsmod.is_send(c) and has_atom(prog.narrow.operand(P, c.args[2]), 'K:IS_CONTROLLING_ADDRESS_EXPORTED')]
    rep.need('K5', prefix + 'publish:control-query', len(q) == 1 and result_fate(P, q[0]) == 'try', 'one IsControllingAddress query, propagated', X.loc(P))
    for c in q:
        X.arg_has('K10', prefix + 'publish:control-query-of-caller', c, 3, ['C:MessageInfo::caller'], 'the queried address is the message caller', narrow=False)
        X.arg_has('K10', prefix + 'publish:control-query-to-provider', c, 1, ['F:DealProposal.provider', 'C:Runtime::resolve_address'], 'asked of the (first) deal\'s provider', narrow=False)
    # the miner's side of that query: "controlling" means owner, worker or a control address of the miner - and the queried address itself
    IC = X.fn('Actor::is_controlling_address', 'fil_actor_miner')
    vals = [(bb, a) for (bb, a) in X.agg_field_atoms(IC, 'IsControllingAddressReturn', 'is_controlling', narrow=False) if not (has_atom(a, 'V:0') and len([x for x in a if x[0] != 'V']) == 0)]
    X.value_from('K10', prefix + 'publish:miner-answers-from-control-set', IC, vals,
                 ['F:MinerInfo.owner', 'F:MinerInfo.worker', 'F:MinerInfo.control_addresses', 'F:IsControllingAddressParam.address', 'C:get_miner_info'],
                 'is_controlling compares the queried address with the miner info\'s owner, worker and control addresses', forbid=['F:MinerInfo.beneficiary', 'F:MinerInfo.pending_owner_address', 'C:MessageInfo::caller', 'C:MessageInfo::origin'])
    X.const_is('K11', 'IS_CONTROLLING_ADDRESS_EXPORTED', 348244887, CR)
    X.iter_guard('K6b', prefix + 'publish:same-provider', P, [c.bb for c in P.calls if (c.callee or '').endswith('Vec::<T, A>::push') and has_atom(prog.narrow.operand(P, c.args[1]), 'E:ValidDeal')],
                 m_rel('ne', ['F:DealProposal.provider'], ['C:Runtime::resolve_address'], False), 'deal of another provider => skip')
