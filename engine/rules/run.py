#!/usr/bin/env python3
"""Entry point of engine B: ./check <pid> <tier> -> extract facts for the current tree, evaluate the property's rules."""
import importlib, json, os, subprocess, sys, time

HERE = os.path.dirname(os.path.abspath(__file__))
sys.path.insert(0, HERE)
VERIF = os.path.dirname(os.path.dirname(HERE))

from core import Program, Slicer, AnchorMissing
from report import Report

QUICK_CRATES = None


def extract(cfg):
    p = subprocess.run([sys.executable, os.path.join(VERIF, 'engine', 'extract.py'), cfg], stdout=subprocess.PIPE, stderr=subprocess.STDOUT, text=True)
    lines = [l for l in p.stdout.strip().splitlines() if l.strip()]
    for l in lines[:-1]:
        print(l)
        if l.startswith('BA_EXTRACT_S='):
            os.environ['BA_EXTRACT_S'] = str(float(os.environ.get('BA_EXTRACT_S', '0')) + float(l.split('=')[1]))
    if p.returncode != 0:
        print(lines[-1] if lines else 'extract failed')
        sys.exit(2)
    return lines[-1]


def load(fdir, inline_depth=0):
    t = time.time()
    prog = Program(fdir)
    prog.inline_depth = inline_depth
    prog.slicer = Slicer(prog)
    prog.narrow = Slicer(prog, narrow=True)
    stats = {'crates': len(prog.crates), 'bodies': len(prog.fns),
             'functions': sum(1 for f in prog.fns.values() if f.kind in ('fn', 'assocfn')),
             'closures': sum(1 for f in prog.fns.values() if f.kind == 'closure'),
             'promoteds_and_consts': sum(1 for f in prog.fns.values() if f.kind in ('promoted', 'const')),
             'basic_blocks': sum(len(f.blocks) for f in prog.fns.values()),
             'call_sites': sum(len(f.calls) for f in prog.fns.values()),
             'load_s': round(time.time() - t, 1)}
    return prog, stats


def run_rules(mod, prog, rep, tier, cfg):
    try:
        mod.run(prog, rep, tier, cfg)
    except AnchorMissing as e:
        rep.anchor_missing('anchor', e)
    except Exception as e:      # a rule that cannot evaluate the tree fails closed, naming where it stopped
        import traceback
        tb = traceback.extract_tb(e.__traceback__)
        last = [fr for fr in tb if '/props/' in fr.filename] or list(tb)
        fr = last[-1]
        rep.ob('engine', 'rule-evaluation:%s' % os.path.basename(fr.filename), False,
               'the rules could not be evaluated on this tree (%s: %s at %s:%d `%s`); treated as a failure' % (type(e).__name__, e, os.path.basename(fr.filename), fr.lineno, (fr.line or '')[:120]))


def evaluate(pid, mod, fdir, rep, tier, cfg):
    """Evaluate the property's rules on the program, and re-evaluate the obligations that fail on the equivalent programs
    obtained by inlining workspace helpers (depth 1, 2): an obligation is violated only if it fails on every form."""
    prog, stats = load(fdir)
    for a, b in sorted(getattr(prog, 'renamed', {}).items()):
        rep.note('function %s has the body shape of the pinned tree\'s %s, which no longer exists: treated as that function renamed' % (a, b))
    n0 = len(rep.obligations)
    run_rules(mod, prog, rep, tier, cfg)
    mine = rep.obligations[n0:]
    from report import load_known
    known = load_known()
    def failing():
        return [o for o in mine if not o['ok'] and not (known.get((pid, o['rule'], o['key'].split('@')[0])) or {}).get('status') == 'known']
    if failing() and os.environ.get('BA_NO_INLINE') != '1':
        for depth in (1, 2):
            bad = failing()
            if not bad:
                break
            prog2, _ = load(fdir, inline_depth=depth)
            rep2 = Report(pid, tier, rep.level)
            rep2.config = cfg
            run_rules(mod, prog2, rep2, tier, cfg)
            by = {}
            for o in rep2.obligations:
                by.setdefault((o['rule'], o['key']), []).append(o)
            for o in bad:
                alt = by.get((o['rule'], o['key']))
                if alt and all(a['ok'] for a in alt):
                    o['ok'] = True
                    o['detail'] = '%s [fails on the source as written, holds on the equivalent program with workspace helpers inlined to depth %d: accepted]' % (o['detail'][:200], depth)
                    rep.note('%s %s: holds with helpers inlined (depth %d)' % (o['rule'], o['key'], depth))
    return prog, stats


def main():
    pid = sys.argv[1]
    tier = sys.argv[2] if len(sys.argv) > 2 else 'quick'
    if tier not in ('quick', 'thorough'):
        tier = 'quick'
    mod = importlib.import_module('props.' + pid.lower())
    level = getattr(mod, 'LEVEL', 'other')
    rep = Report(pid, tier, level)
    configs = ['quick'] if tier == 'quick' else getattr(mod, 'THOROUGH_CONFIGS', ['quick', 'nofilactor', 'testing'])
    all_stats = {}
    fdirs = []
    for cfg in configs:
        fdir = extract(cfg)
        fdirs.append(fdir)
        rep.config = cfg
        prog, stats = evaluate(pid, mod, fdir, rep, tier, cfg)
        all_stats[cfg] = stats
    if tier == 'thorough' and os.environ.get('BA_NO_AUDIT') != '1':
        import audit
        t = time.time()
        res = audit.run_audit(pid, mod, evaluate)
        res['wall_s'] = round(time.time() - t, 1)
        rep.extra['sensitivity_audit'] = res
        print('   sensitivity audit: %d break patches detected, %d missed, %d refactors silent, %d false alarms on refactors, %d stale (%.0fs)' % (
            res['detected'], res['missed'], res['silent_on_refactors'], res['false_alarms_on_refactors'], res['stale'], res['wall_s']))
        for e in res['patches']:
            print('     %-45s %s' % (e['id'], e['verdict']))
    if '--replay' in sys.argv:
        # re-evaluate only the recorded instance on the current tree (evidence files are left untouched)
        rp = json.load(open(sys.argv[sys.argv.index('--replay') + 1]))
        hits = [o for o in rep.obligations if o['rule'] == rp['rule'] and o['key'] == rp['key']]
        if not hits:
            print('replay: instance %s/%s no longer exists on the current tree' % (rp['rule'], rp['key']))
            sys.exit(0)
        bad = [o for o in hits if not o['ok']]
        for o in hits:
            print('replay: rule=%s instance=%s at %s: %s -> %s' % (o['rule'], o['key'], o.get('where'), o['detail'], 'HOLDS' if o['ok'] else 'VIOLATED'))
        if bad:
            print('VIOLATION property=%s replay=%s' % (pid, sys.argv[sys.argv.index('--replay') + 1]))
        sys.exit(1 if bad else 0)
    rc = rep.finish(all_stats, ','.join(fdirs))
    sys.exit(rc)


if __name__ == '__main__':
    main()
