"""Inlined views of function bodies.

A rule row is anchored on a function and looks for guards / effects / values inside that body.  Extracting part of the body
into a private helper (or inlining a helper) changes none of the behaviour but moves those constructs across a function
boundary.  `view(prog, f, depth)` returns a synthetic Fn whose CFG is f's CFG with the bodies of its workspace callees
spliced in (parameters bound by assignments, the callee's return place copied into the call's destination), so the same row
can be evaluated on an *equivalent* program in which the helper boundary does not exist.  run.py evaluates a property on the
plain program first; only obligations that fail there are re-evaluated on the inlined views (depth 1, then 2), and an
obligation is reported only if it fails on every equivalent form.  The original blocks keep their indices (callee blocks are
appended), so block ids computed on the plain body stay meaningful."""
import copy, json, os
from core import Fn, result_fate

# Inlining policy: only functions that did not exist on the pinned tree (tables/known_fns.json, frozen by
# tools/gen_known_fns.py) are spliced into their callers.  The rule rows were written and reviewed against the pinned tree's
# function inventory; a helper that a later change *extracts* is new, and inlining it restores the shape the rows describe.
# On the pinned tree nothing is new, so views equal the plain bodies.
_KNOWN = None


def known_fns():
    global _KNOWN
    if _KNOWN is None:
        p = os.path.join(os.path.dirname(os.path.dirname(os.path.dirname(os.path.abspath(__file__)))), 'tables', 'known_fns.json')
        try:
            _KNOWN = set(json.load(open(p))['fns'])
        except Exception:
            _KNOWN = None
    return _KNOWN

MAX_CALLEE_BLOCKS = 160
MAX_TOTAL_BLOCKS = 2500


def _is_place(n):
    return isinstance(n, list) and len(n) == 2 and isinstance(n[0], int) and not isinstance(n[0], bool) and isinstance(n[1], list)


def _shift(node, off):
    """deep copy of a statement / operand / place with every local index shifted by off"""
    if _is_place(node):
        proj = []
        for p in node[1]:
            if isinstance(p, list) and p and p[0] == 'i':
                proj.append(['i', p[1] + off] + list(p[2:]))
            else:
                proj.append(copy.deepcopy(p))
        return [node[0] + off, proj]
    if isinstance(node, list):
        return [_shift(x, off) for x in node]
    if isinstance(node, dict):
        return dict(node)
    return node


def _shift_term(t, off, boff):
    k = t[0]
    if k == 'goto':
        return ['goto', t[1] + boff]
    if k == 'switch':
        return ['switch', _shift(t[1], off), [[v, tb + boff] for (v, tb) in t[2]], t[3] + boff]
    if k == 'call':
        return ['call', dict(t[1]), _shift(t[2], off), _shift(t[3], off), (t[4] + boff) if t[4] is not None else None, None, t[6], t[7], list(t[8]), list(t[9])]
    if k == 'drop':
        return ['drop', _shift(t[1], off), t[2] + boff, None]
    if k == 'assert':
        return ['assert', _shift(t[1], off), t[2], t[3] + boff, None] + list(t[5:])
    return list(t)


def inlinable(prog, f, c):
    g = prog.fns.get(c.callee or '')
    if g is None or g.kind not in ('fn', 'assocfn') or g.id == f.id:
        return None
    K = known_fns()
    if K is None or g.id in K:
        return None       # a function of the pinned tree: the rows name it or look through it already
    if not (g.crate.startswith('fil_actor') or g.crate == 'fil_actors_runtime' or g.crate == 'fil_actors_evm_shared'):
        return None
    if len(g.blocks) > MAX_CALLEE_BLOCKS or not g.blocks:
        return None
    if g.impl_trait and (g.impl_trait.startswith('core::') or g.impl_trait.startswith('serde') or g.impl_trait.startswith('fvm_ipld_encoding')):
        return None       # derived / operator impls stay calls (operators are value plumbing for the slicer)
    if g.id.startswith('fil_actors_runtime::') and not g.id.startswith('fil_actors_runtime::builtin::'):
        return None       # runtime shim, dispatch, utilities: effects the rules name, not helpers
    return g


def view(prog, f, depth=1, _stack=()):
    """synthetic Fn: f with workspace callees inlined `depth` levels deep"""
    if f.kind not in ('fn', 'assocfn', 'closure') or depth <= 0:
        return f
    d = {'id': f.id, 'kind': f.kind, 'file': f.file, 'line': f.line, 'exp': f.exp, 'nargs': f.nargs,
         'locals': list(f.locals), 'names': [list(n) for n in f.names], 'blocks': [copy.deepcopy(b) for b in f.blocks],
         'parent': f.parent, 'promoted': f.promoted, 'impl_self': f.impl_self, 'impl_self_adt': f.impl_self_adt, 'impl_trait': f.impl_trait, 'pub': f.is_pub}
    extra_closures = []
    inlined = []
    extra_err = set(getattr(f, 'extra_err', ()))
    n_own = len(f.blocks)
    for c in list(f.calls):
        g = inlinable(prog, f, c)
        if g is None or g.id in _stack:
            continue
        gv = view(prog, g, depth - 1, _stack + (f.id,)) if depth > 1 else g
        if len(d['blocks']) + len(gv.blocks) > MAX_TOTAL_BLOCKS:
            continue
        off = len(d['locals'])
        boff = len(d['blocks'])
        # a helper whose Result is propagated with `?` (or returned as is): reaching one of its error exits means the caller
        # returns an error too - recorded, because the path-insensitive CFG loses that correlation at the spliced `?`
        if f.returns_result() and gv.returns_result() and result_fate(f, c) in ('try', 'returned'):
            extra_err |= {boff + e for e in gv.errblocks}
        d['locals'].extend(gv.locals)
        for n in gv.names:
            d['names'].append([n[0], _shift(n[1], off)])
        blk = d['blocks'][c.bb]
        t = blk['t']
        target = t[4]
        dst = t[3]
        # bind parameters
        for i, a in enumerate(t[2]):
            if i + 1 <= gv.nargs:
                blk['s'].append(['=', [off + i + 1, []], ['use', copy.deepcopy(a)], t[6]])
        blk['t'] = ['goto', boff]
        blk['inl_call'] = {'callee': g.id, 'line': t[6], 'args': copy.deepcopy(t[2]), 'dst': copy.deepcopy(dst)}
        for b in gv.blocks:
            nb = {'s': [_shift(s, off) for s in b['s']], 't': _shift_term(b['t'], off, boff), 'cleanup': b.get('cleanup', False), 'file': b.get('file', gv.file), 'from': b.get('from', g.id)}
            if nb['t'][0] == 'ret':
                nb['s'].append(['=', copy.deepcopy(dst), ['use', ['m', [off, []]]], t[6]])
                nb['t'] = ['goto', target] if target is not None else ['unreachable']
            elif nb['t'][0] == 'resume':
                nb['t'] = ['unreachable']
            d['blocks'].append(nb)
        inlined.append(g.id)
        extra_closures.extend(prog.closures_of(g.id))
        extra_closures.extend(getattr(gv, 'extra_closures', []))
    if not inlined:
        return f
    v = Fn(prog, f.crate, d)
    v.inlined = inlined
    v.plain = f
    v.n_own_blocks = n_own
    v.extra_closures = extra_closures
    v.extra_err = extra_err
    v._errblocks = None
    return v
