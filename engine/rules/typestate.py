"""K2: interprocedural typestate 'number of successful caller validations' along success paths."""
from core import *

VALIDATE = RUNTIME + 'validate_immediate_caller_'
TRANSACTION = RUNTIME + 'transaction'


def cap(n):
    return 2 if n >= 2 else n


class CallerTypestate:
    def __init__(self, prog):
        self.prog = prog
        self.memo = {}
        self.stack = set()
        self.problems = []   # (fn id, where, text)
        self.sites = {}      # fn id -> list of validation Calls directly inside

    def is_validate(self, c):
        return (c.defp or '').startswith(VALIDATE) or (c.callee or '').startswith(VALIDATE)

    def summary(self, fid):
        """(ok_counts, err_counts): possible numbers (capped at 2) of validation calls on paths from entry to a
        success return / an error return of function fid."""
        if fid in self.memo:
            return self.memo[fid]
        f = self.prog.fns.get(fid)
        if f is None or f.kind in ('promoted', 'const'):
            return (frozenset([0]), frozenset([0]))
        if fid in self.stack:
            return (frozenset([0]), frozenset([0]))
        self.stack.add(fid)
        try:
            r = self._analyse(f)
        finally:
            self.stack.discard(fid)
        self.memo[fid] = r
        return r

    def _call_effect(self, f, c):
        """list of (delta, forced_err) alternatives for executing call c"""
        if self.is_validate(c):
            self.sites.setdefault(f.id, []).append(c)
            fate = result_fate(f, c)
            if fate not in ('try', 'returned'):
                self.problems.append((f.id, c.where, 'result of %s is %s, not propagated' % (c.callee.split('::')[-1], fate)))
            return [(1, None)]
        targets = []
        if c.callee and c.callee in self.prog.fns:
            targets.append(('fn', c.callee))
        closures = list(c.cl)
        fnitems = list(c.fd)
        for a in c.args:
            if a[0] == 'k' and 'fn' in a[1]:
                x = a[1].get('res') or a[1]['fn']
                if x not in fnitems:
                    fnitems.append(x)
        alts = [(0, None)]
        fate = None
        if targets:
            ok, err = self.summary(targets[0][1])
            if ok != frozenset([0]) or err != frozenset([0]):
                fate = result_fate(f, c)
                callee = self.prog.fns[targets[0][1]]
                if not callee.returns_result():
                    alts = [(d, None) for d in ok | err]
                elif fate == 'try':
                    alts = [(d, None) for d in ok]
                elif fate == 'returned':
                    alts = [(d, False) for d in ok] + [(d, True) for d in err]
                else:
                    alts = [(d, None) for d in ok | err]
        # closures / fn items handed to the callee
        for x in closures + fnitems:
            if x not in self.prog.fns:
                continue
            ok, err = self.summary(x)
            if ok == frozenset([0]) and err == frozenset([0]):
                continue
            once = (c.defp == TRANSACTION or c.callee == TRANSACTION)
            if not once:
                self.problems.append((f.id, c.where, 'caller validation inside %s which is handed to %s (may run zero or many times)' % (x, c.callee)))
                once = True
            if fate is None:
                fate = result_fate(f, c)
            if fate == 'try':
                new = [(d, None) for d in ok]
            elif fate == 'returned':
                new = [(d, False) for d in ok] + [(d, True) for d in err]
            else:
                new = [(d, None) for d in ok | err]
            alts = [(cap(a + d), e2 if e2 is not None else e1) for (a, e1) in alts for (d, e2) in new]
        return alts

    def _analyse(self, f):
        ex = Explorer(f)
        is_res = f.returns_result()
        calls = {c.bb: c for c in f.calls}
        eff_cache = {}

        def step(bb, us):
            count, err = us
            if bb in f.errblocks:
                err = True
            c = calls.get(bb)
            if c is None:
                return [(count, err)]
            if bb not in eff_cache:
                eff_cache[bb] = self._call_effect(f, c)
            out = []
            for (d, fe) in eff_cache[bb]:
                e = err
                if fe is True:
                    e = True
                out.append((cap(count + d), e))
            return out
        rets, _ = ex.run((0, False), step)
        ok, er = set(), set()
        for bb, states in rets.items():
            for (count, err) in states:
                if err and is_res:
                    er.add(count)
                else:
                    ok.add(count)
        if not ok and not er:
            ok.add(0)
        return (frozenset(ok) if ok else frozenset(), frozenset(er) if er else frozenset([0]))

    def validation_sites(self, fid):
        """validation call sites in all functions reachable from fid"""
        out = []
        for x in self.prog.reachable_fns(fid):
            g = self.prog.fns.get(x)
            if g is None or g.kind in ('promoted', 'const'):
                continue
            for c in g.calls:
                if self.is_validate(c):
                    out.append(c)
        return out
