"""Rule primitives K3..K11 as reusable helpers. Each helper registers obligations on the Report and
returns the truth value; a missing anchor fails closed."""
import json, os, re
from core import *
from core import _SignRel as core_SignRel
from core import _place_has_field
import sends as sendsmod


ENTRY_TABLE = os.path.join(os.path.dirname(os.path.dirname(os.path.dirname(os.path.abspath(__file__)))), 'tables', 'entry_sets.json')
_ENTRY_ROWS = None
FREEZE = {}      # filled when BA_FREEZE_ENTRY_SETS=1 (tools/gen_entry_sets.py)


def entry_rows():
    global _ENTRY_ROWS
    if _ENTRY_ROWS is None:
        try:
            _ENTRY_ROWS = json.load(open(ENTRY_TABLE))['rows']
        except Exception:
            _ENTRY_ROWS = {}
    return _ENTRY_ROWS


class Ctx:
    def __init__(self, prog, rep):
        self.prog = prog
        self.rep = rep
        self.S = prog.slicer
        self.N = prog.narrow

    # ------------------------------------------------------------------ exported entry points reaching a function
    def entries_of(self, fid):
        """the exported methods ('miner.WithdrawBalance', ...) whose handler reaches function fid in the call graph"""
        E = getattr(self.prog, '_entry_sets', None)
        if E is None:
            import dispatch
            E = {}
            ents, _info = dispatch.extract(self.prog)
            for e in ents:
                if not e.handler:
                    continue
                k = e.key()
                for x in self.prog.reachable_fns(e.handler):
                    E.setdefault(x, set()).add(k)
            self.prog._entry_sets = E
        return E.get(fid, set())

    def _moved_ok(self, table_key, bad_fids, now_fids, n_sites):
        """refactor tolerance for writer / caller sets: an unexpected site is accepted when the frozen row shows it is a
        *moved* site (helper inlined / extracted / renamed): it is reachable only from exported methods that already
        reached such a site, and the number of sites did not grow.  Returns (tolerate_unexpected, tolerate_missing)."""
        ents_now = set()
        for fid in now_fids:
            ents_now |= self.entries_of(fid)
        if os.environ.get('BA_FREEZE_ENTRY_SETS') == '1':
            FREEZE[table_key] = {'entries': sorted(ents_now), 'sites': n_sites}
        row = entry_rows().get(table_key)
        if not row:
            return (False, False)
        frozen = set(row['entries'])
        tol_bad = bool(bad_fids) and n_sites <= row['sites'] and all(self.entries_of(fid) and self.entries_of(fid) <= frozen for fid in bad_fids)
        tol_missing = frozen <= ents_now and n_sites >= row['sites']
        return (tol_bad, tol_missing)

    # ------------------------------------------------------------------ lookup (fail closed)
    def fn(self, suffix, crate=None):
        return self.prog.one(suffix, crate)

    def try_fn(self, rule, suffix, crate=None):
        try:
            return self.prog.one(suffix, crate)
        except AnchorMissing as e:
            self.rep.ob(rule, 'anchor:%s' % suffix, False, 'anchor missing (fail closed): %s' % e)
            return None

    def fam(self, f):
        return self.prog.family(f)

    def loc(self, f, bb=None, line=None):
        file = f.file
        if line is None and bb is not None:
            t = f.blocks[bb]['t']
            if t[0] == 'call':
                line = t[6]
            elif f.blocks[bb]['s']:
                line = f.blocks[bb]['s'][-1][3]
            file = f.blocks[bb].get('file', file)      # a block spliced in from an inlined helper keeps its own file
        return '%s:%s' % (file, line if line is not None else f.line)

    # ------------------------------------------------------------------ K4 writers
    def writers(self, rule, adt, field, allowed, required=None, crate=None, kinds=('assign', 'mutref', 'calldst'), constructors=None):
        """functions (closures folded into their outermost enclosing fn unless listed) writing (adt, field) must be
        a subset of `allowed` (id suffixes) and a superset of `required`."""
        ws = self.prog.field_writes(adt, field)
        got = {}
        for (f, bb, line, kind) in ws:
            if crate and f.crate != crate:
                continue
            if NEUTRAL.search(f.id):
                continue   # derived (de)serialisation / clone / default: builds a fresh value, mutates no actor state
            if kind == 'construct':
                if constructors is not None:
                    got.setdefault(('construct', f.id), []).append('%s:%s' % (f.file, line))
                continue
            if kind not in kinds:
                continue
            got.setdefault(('write', f.id), []).append('%s:%s' % (f.file, line))
        key = '%s.%s' % (adt, field)
        bad = []
        for (k, fid), locs in sorted(got.items()):
            al = allowed if k == 'write' else constructors
            if not any(_match_fn(fid, a) for a in al):
                bad.append((k, fid, locs[0]))
        n_sites = sum(len(v) for (k, _), v in got.items() if k == 'write')
        tol_bad, tol_missing = self._moved_ok('writers:%s:%s' % (crate or '*', key), [b[1] for b in bad if b[0] == 'write'], [fid for (k, fid) in got if k == 'write'], n_sites)
        if bad and tol_bad and all(b[0] == 'write' for b in bad):
            self.rep.note('writers:%s: write site(s) moved to %s (same exported methods, same number of sites): accepted as a refactoring' % (key, [b[1] for b in bad]))
            bad = []
        self.rep.need(rule, 'writers:' + key, not bad,
                      'unexpected %s: %s (allowed: %s)' % ('writer(s)' if bad else '', [(b[1], b[2]) for b in bad], sorted(allowed)),
                      bad[0][2] if bad else None,
                      {'rule': rule, 'field': key, 'writers': sorted({fid for (k, fid) in got if k == 'write'})})
        req = required if required is not None else allowed
        missing = [a for a in req if not any(_match_fn(fid, a) for (k, fid) in got if k == 'write')]
        if missing and tol_missing:
            self.rep.note('writers-present:%s: %s no longer write(s) it, but every exported method that reached a write still does and no site was lost: accepted as a refactoring' % (key, missing))
            missing = []
        self.rep.need(rule, 'writers-present:' + key, not missing,
                      'confirmed writer(s) no longer write %s: %s (fail closed)' % (key, missing))
        self.rep.count('writes:' + key, sum(len(v) for (k, _), v in got.items() if k == 'write'))
        return not bad and not missing

    # ------------------------------------------------------------------ K5 callers
    def callers(self, rule, name, pred, allowed, required=None, crates=None):
        """functions containing a call site satisfying pred(Call) must be within `allowed` (id suffixes)"""
        sites = []
        for f in self.prog.bodies():
            if f.kind in ('promoted', 'const'):
                continue
            if crates and f.crate not in crates:
                continue
            for c in f.calls:
                if pred(c):
                    sites.append(c)
        bad = [c for c in sites if not any(_match_fn(c.fn.id, a) for a in allowed)]
        tol_bad, tol_missing = self._moved_ok('callers:%s:%s' % (','.join(crates) if crates else '*', name), [c.fn.id for c in bad], [c.fn.id for c in sites], len(sites))
        if bad and tol_bad:
            self.rep.note('callers:%s: call site(s) moved to %s (same exported methods, same number of sites): accepted as a refactoring' % (name, sorted({c.fn.id for c in bad})))
            bad = []
        self.rep.need(rule, 'callers:' + name, not bad,
                      'unexpected call site(s) of %s: %s (allowed: %s)' % (name, [(c.fn.id, c.where) for c in bad], sorted(allowed)),
                      bad[0].where if bad else None,
                      {'rule': rule, 'callee': name, 'call_sites': [(c.fn.id, c.where) for c in sites][:12]})
        req = required if required is not None else allowed
        missing = [a for a in req if not any(_match_fn(c.fn.id, a) for c in sites)]
        if missing and tol_missing:
            self.rep.note('callers-present:%s: %s no longer call(s) it, but every exported method that reached a call still does and no site was lost: accepted as a refactoring' % (name, missing))
            missing = []
        self.rep.need(rule, 'callers-present:' + name, not missing, 'confirmed caller(s) of %s vanished: %s (fail closed)' % (name, missing))
        self.rep.count('calls:' + name, len(sites))
        return sites

    # ------------------------------------------------------------------ K3 reach
    def must_reach(self, rule, key, f, pred_call, what, want=True):
        got = self.prog.reaches(f.id, pred_call=pred_call)
        self.rep.need(rule, key, got == want,
                      '%s %s reach %s in the call graph' % (f.id, 'must' if want else 'must NOT', what), self.loc(f),
                      {'rule': rule, 'from': f.id, 'effect': what, 'reaches': got, 'required': want})
        return got == want

    # ------------------------------------------------------------------ effect sites
    def sites(self, f, pred_call, direct_only=False):
        return [c for (c, _d) in self.prog.sites_reaching(f, pred_call, direct_only)]

    def write_blocks(self, f, adt, field, kinds=('assign', 'mutref', 'calldst')):
        return sorted({bb for (g, bb, line, kind) in self.prog.field_writes(adt, field, fns=[f]) if kind in kinds})

    def effect_blocks(self, f, adt, field, kinds=('assign', 'mutref', 'calldst')):
        """blocks of f that write (adt, field) directly or call a function that (transitively) does - the same set whether a
        one-line mutator helper exists or was inlined into f"""
        out = set(self.write_blocks(f, adt, field, kinds))
        wfns = {g.id for (g, bb, line, kind) in self.prog.field_writes(adt, field) if kind in kinds and not NEUTRAL.search(g.id)}
        for c in f.calls:
            tg = set([c.callee] if c.callee else []) | set(c.cl)
            for t in tg:
                if t in self.prog.fns and t != f.id and (t in wfns or (self.prog.reachable_fns(t) & wfns)):
                    out.add(c.bb)
        return sorted(out)

    def expand_params(self, f, atoms, depth=2):
        """atoms with every parameter atom ('P', n) of f replaced by the (wide) atoms of the n-th argument at each call site of
        f in the workspace - what a helper's parameter stands for in its callers"""
        out = set(a for a in atoms if a[0] != 'P')
        ps = [a for a in atoms if a[0] == 'P']
        if not ps or depth == 0:
            return out | set(ps)
        sites = [c for g in self.prog.bodies() if g.kind not in ('promoted', 'const') for c in g.calls if c.callee == f.id]
        if not sites:
            return out | set(ps)
        for a in ps:
            for c in sites:
                if a[1] - 1 < len(c.args):
                    out |= self.expand_params(c.fn, self.S.operand(c.fn, c.args[a[1] - 1]), depth - 1)
        return out

    def ledger_updates(self, adt, field, crate):
        """[(Fn, dir, bb, line, atoms)] every update of (adt, field) in the crate outside constructors / derives; atoms are the wide
        slice of the value with helper parameters expanded through the helper's call sites"""
        out = []
        fns = {g.id: g for (g, bb, line, kind) in self.prog.field_writes(adt, field) if g.crate == crate and not NEUTRAL.search(g.id) and kind != 'construct'}
        for g in fns.values():
            for (fld, dirn, bb, line, atoms) in field_ops(self, g, adt, [field], slicer=self.S):
                out.append((g, dirn, bb, line, self.expand_params(g, atoms)))
        return out

    # ------------------------------------------------------------------ K14 error discipline
    def no_dropped_results(self, rule, key, crates, what):
        """No `Result` produced by a call in actor code is discarded: it is propagated (`?`), returned, inspected (match / if let /
        unwrap family) or handed to another call.  `let _ = fallible();` and `fallible().ok();` lose an error of the storage, ledger
        or messaging layer and let the method succeed on top of it.  The pinned tree has no such site among ~2900 Result-producing
        calls, so every report is a change."""
        bad = []
        n = 0
        for f in self.prog.bodies():
            if f.crate not in crates or f.kind not in ('fn', 'assocfn', 'closure') or f.exp or NEUTRAL.search(f.id):
                continue
            for c in f.calls:
                if c.exp:
                    continue
                dl = c.dst[0]
                ty = f.locals[dl][0] if dl < len(f.locals) else ''
                if not (ty.startswith('core::result::Result<') or ty.startswith('std::result::Result<')) or c.dst[1]:
                    continue
                n += 1
                if _discarded(f, c):
                    bad.append(c)
        for c in bad:
            self.rep.ob(rule, '%s:%s@%s' % (key, c.fn.id.split('::', 1)[-1], (c.callee or c.defp or '?').split('::')[-1]), False,
                        '%s: the Result of %s is discarded (neither propagated, returned, inspected nor passed on)' % (what, c.callee or c.defp), c.where)
        if not bad:
            self.rep.ob(rule, key, True, '%s: %d Result-producing calls, none discarded' % (what, n))
        self.rep.count('result_producing_calls:' + key, n)
        return not bad

    # ------------------------------------------------------------------ K16 state updates do not disappear
    def write_sites_preserved(self, rule, key, crate, fields, what):
        """For each listed state field (Adt.field) the number of places in the crate that update it (assignment, `+=`-style call
        through `&mut`, call result stored into it; constructors and derives excluded) is at least the number frozen on the
        reviewed tree (tables/write_sites.json).  A dropped update - `self.locked_funds -= x` rewritten as a mere test of
        `locked_funds - x`, a forgotten `flags.set(..)` - lowers the count and is reported with the field; moving an update
        between functions of the crate, or inlining a helper, does not.  Evaluated on the inlined views when it fails on the
        source as written, so two identical updates merged into one new helper are still counted once per call site."""
        # two classes of update site: in-place mutations through `&mut field` (`+=`, `-=`, `|=`, `.set(..)`, `.insert(..)` ...: each
        # is a distinct delta and must stay) and plain assignments `x.f = v` (two of which may legitimately be merged into one
        # expression, e.g. `f = a; if f < b { f = b }` into `f = max(a, b)`: only "still assigned somewhere" is required)
        now = {}
        for fld in fields:
            adt, _, f_ = fld.rpartition('.')
            n_mut, n_asg = 0, 0
            for (g, bb, line, kind) in self.prog.field_writes(adt, f_):
                if g.crate != crate or kind == 'construct' or NEUTRAL.search(g.id):
                    continue
                if kind == 'mutref' or _self_dependent_write(self.prog, g, bb, adt, f_):
                    n_mut += 1         # `x.f += v` and its re-spelling `x.f = &x.f + v` are the same in-place update
                else:
                    n_asg += 1
            now[fld] = [n_mut, n_asg]
        if os.environ.get('BA_FREEZE_ENTRY_SETS') == '1':
            FREEZE_WS.setdefault(crate, {}).update(now)
        try:
            frozen = json.load(open(os.path.join(os.path.dirname(ENTRY_TABLE), 'write_sites.json')))['crates'].get(crate, {})
        except Exception:
            frozen = None
        if frozen is None:
            self.rep.ob(rule, key, False, 'tables/write_sites.json missing (fail closed)')
            return False
        ok = True
        for fld, n in sorted(now.items()):
            want = frozen.get(fld)
            if want is None or not isinstance(want, list):
                self.rep.ob(rule, '%s:%s' % (key, fld), False, '%s: field %s has no frozen count (fail closed: regenerate tables/write_sites.json deliberately)' % (what, fld))
                ok = False
            else:
                good = n[0] >= want[0] and (n[1] >= 1 or want[1] == 0 or n[0] > want[0])
                ok = ok and good
                self.rep.ob(rule, '%s:%s:%s' % (key, crate.replace('fil_actor_', ''), fld), good,
                            '%s: %s has %d in-place update site(s) and %d assignment(s) in %s, the reviewed tree has %d and %d%s' % (
                                what, fld, n[0], n[1], crate, want[0], want[1], '' if good else ': an update of this field disappeared'))
        return ok

    # ------------------------------------------------------------------ K15 tolerated failures
    def tolerated_failures(self, rule, key, crates, what):
        """The places where a failing call is *tolerated* - the caller can still return success after the callee returned Err: an
        `Err` arm that reaches an Ok return, `unwrap_or*`, `.ok()`, `.is_ok()/.is_err()` - are exactly the frozen inventory
        (tables/tolerated_failures.json, 51 sites on the pinned tree, each reviewed: cron / reward / reporter-reward sends, EVM
        CALL semantics, per-deal batch results ...).  A `?` turned into `if let Err(e) = .. { log }` adds a site and is reported.
        Sites are compared per (crate, callee) by count, so moving code between functions of a crate changes nothing."""
        rows = tolerated_sites(self.prog, crates)
        if os.environ.get('BA_FREEZE_ENTRY_SETS') == '1':
            fresh = {}
            for (f, c, how) in rows:
                fresh.setdefault(f.crate, {}).setdefault(_callee_key(c), []).append('%s (%s)' % (f.id.split('::', 1)[-1], how))
            for cr, d in fresh.items():
                FREEZE_TOL[cr] = d
        try:
            frozen = json.load(open(os.path.join(os.path.dirname(ENTRY_TABLE), 'tolerated_failures.json')))['crates']
        except Exception:
            frozen = None
        if frozen is None:
            self.rep.ob(rule, key, False, 'tables/tolerated_failures.json missing (fail closed)')
            return False
        now = {}
        for (f, c, how) in rows:
            now.setdefault((f.crate, _callee_key(c)), []).append((f, c, how))
        ok = True
        for (crate, ck), sites in sorted(now.items()):
            allowed = frozen.get(crate, {}).get(ck, [])
            if len(sites) > len(allowed):
                ok = False
                known_fns_ = {a.split(' (')[0] for a in allowed}
                new = [x for x in sites if x[0].id.split('::', 1)[-1] not in known_fns_] or sites
                f, c, how = new[0]
                self.rep.ob(rule, '%s:%s@%s' % (key, f.id.split('::', 1)[-1], ck.split('::')[-1]), False,
                            '%s: a failure of %s is now tolerated here (%s) - the caller can succeed after it; the reviewed inventory has %d such site(s) for this callee in %s, the code has %d' % (
                                what, ck, how, len(allowed), crate, len(sites)), c.where)
        if ok:
            self.rep.ob(rule, key, True, '%s: %d tolerated-failure sites, all in the reviewed inventory' % (what, len(rows)))
        self.rep.count('tolerated_failure_sites:' + key, len(rows))
        return ok

    # ------------------------------------------------------------------ K12 accumulators
    AMOUNT_TYPES = ('fvm_shared::econ::TokenAmount', 'num_bigint::bigint::BigInt', 'partition_state::PowerPair', 'fil_actor_miner::partition_state::PowerPair')

    def accumulator_integrity(self, rule, key, crates, what):
        """A running total must keep running: a local of an amount type (TokenAmount, BigInt = DataCap / StoragePower, PowerPair)
        that starts at zero outside a loop and is re-defined inside the loop must be defined there from its own previous value
        (`t += x`, `t = t + x`, `t = f(t.clone(), x)`); a plain overwrite (`t = x`) makes the last iteration win and loses every
        earlier contribution.  Covers locals and variables captured by a closure that loops.  No instance exists on the pinned
        tree (the repo always accumulates with `+=`), so every report is a change; the rule is independent of the variable's name,
        the loop's form (for / while / iterator closure body) and of where the total is used afterwards."""
        bad = []
        n_checked = 0
        for f in self.prog.bodies():
            if f.crate not in crates or f.kind not in ('fn', 'assocfn', 'closure'):
                continue
            lb = None
            # (A) locals of f
            for l, dsl in list(f.defs.items()):
                if l <= f.nargs or l >= len(f.locals) or f.locals[l][0] not in self.AMOUNT_TYPES:
                    continue
                ds = [d for d in dsl if (d[0] == '=' and not d[3][1]) or d[0] == 'call']
                if len(ds) < 2:
                    continue
                if lb is None:
                    lb = loop_blocks(f)
                if not lb:
                    break
                zeros = [d for d in ds if _is_zero_def(self.prog, f, d)]
                others = [d for d in ds if d not in zeros and d[1] in lb]
                if not zeros or not others:
                    continue
                n_checked += 1
                for d in others:
                    # inside a loop that does not re-run the zero initialisation (the total spans that loop's iterations)
                    if not any(_on_cycle_avoiding(f, d[1], z[1]) for z in zeros):
                        continue
                    ops = [d[4]] if d[0] == '=' else list(d[2].args)
                    if not _reaches_local(f, ops, ('l', l), rv=(d[0] == '=')):
                        line = f.blocks[d[1]]['s'][d[2]][3] if d[0] == '=' else d[2].line
                        bad.append((f, d[1], line, f.name_of(l)))
            # (B) variables captured by mutable reference, re-assigned inside a loop of the closure
            if f.kind == 'closure':
                par = self.prog.fns.get(f.parent)
                ups = {}
                for d in f.defs.get(1, []):
                    if d[0] == '=' and d[3][1]:
                        fs = [p for p in d[3][1] if isinstance(p, list) and p[0] == 'f']
                        if len(fs) == 1 and fs[0][2].startswith('closure:') and all(p == '*' or p is fs[0] for p in d[3][1]):
                            ups.setdefault(fs[0][1], []).append(d)
                if ups and par is not None:
                    if lb is None:
                        lb = loop_blocks(f)
                    for idx, dsl in ups.items():
                        pl = _captured_local(par, f.id, idx)
                        if pl is None or pl >= len(par.locals) or par.locals[pl][0] not in self.AMOUNT_TYPES:
                            continue
                        pds = [d for d in par.defs.get(pl, []) if (d[0] == '=' and not d[3][1]) or d[0] == 'call']
                        if not any(_is_zero_def(self.prog, par, d) for d in pds):
                            continue
                        n_checked += 1
                        for d in dsl:
                            if d[1] in lb and not _reaches_local(f, [d[4]], ('u', idx), rv=True):
                                bad.append((f, d[1], f.blocks[d[1]]['s'][d[2]][3] if d[2] < len(f.blocks[d[1]]['s']) else f.line, par.name_of(pl)))
        for (f, bb, line, name) in bad:
            self.rep.ob(rule, '%s:%s:%s' % (key, f.id.split('::', 1)[-1], name), False,
                        '%s: `%s` starts at zero and is overwritten inside a loop by a value that does not include its previous value (last iteration wins)' % (what, name), '%s:%s' % (f.blocks[bb].get('file', f.file), line))
        if not bad:
            self.rep.ob(rule, key, True, '%s: %d zero-initialised running totals re-defined in loops, each from its own previous value' % (what, n_checked))
        self.rep.count('running_totals_in_loops:' + key, n_checked)
        return not bad

    # ------------------------------------------------------------------ K6 guards
    @staticmethod
    def edge(c, arm):
        """the CFG edge of condition c taken on `arm`; label-exact for enum switches (several values may share a target)"""
        if c.kind == 'variant':
            return (c.bb, c.arms[arm], arm)
        return (c.bb, c.arms[arm])

    def find_conds(self, f, matcher):
        out = []
        for c in conds(f, self.S):
            r = matcher(c)
            if r is not None:
                out.append((c, r))
        return out

    def guard(self, rule, key, f, targets, matcher, what, success_only=True, min_targets=1, start=None, assume=()):
        """every block in `targets` (effect sites in f) must be reachable from entry only through the pass arm of a
        condition accepted by `matcher` (which returns the arm label that must be taken, or None).
        The condition may sit (a) in f itself, (b) in a helper that f calls with its error propagated (`check_x(..)?`) or whose
        boolean result f branches on - the helper's parameters are substituted by the call's arguments -, or (c) when f is a
        closure, in the enclosing function before the call that runs the closure. (b) and (c) keep the verdict stable under
        extract-function / hoisting refactors."""
        blocked = f.errblocks if success_only else ()
        base = f.reach([0], blocked=blocked)
        live = [t for t in targets if t in base]
        if len(live) < min_targets:
            self.rep.ob(rule, key, False, 'effect site(s) for "%s" not found / not reachable in %s (fail closed)' % (what, f.id), self.loc(f))
            return False
        ok, used, ncands, how = self._guard_search(f, live, matcher, success_only, assume, depth=0)
        detail = ('guard "%s" must dominate %d effect site(s) in %s; %d candidate condition(s) matched, %s' % (
            what, len(live), f.id, ncands, ('holds (%s)' % how) if ok else 'none cuts every path to the effect'))
        self.rep.need(rule, key, ok, detail, self.loc(f, live[0]),
                      {'rule': rule, 'guard': what, 'fn': f.id, 'effect_blocks': live[:6], 'candidates': ncands,
                       'guard_block': used.bb if used is not None and hasattr(used, 'bb') else None, 'found': how if ok else None})
        return ok

    def _guard_search(self, f, live, matcher, success_only, assume, depth):
        blocked = f.errblocks if success_only else ()
        cands = self.find_conds(f, matcher)
        # assumptions: arms excluded by hypothesis (e.g. "the flag is false"); matcher returns the arm that is deleted
        assumed = []
        for am in assume:
            for (c, arm) in self.find_conds(f, am):
                if arm in c.arms:
                    assumed.append(self.edge(c, arm))
        for (c, arm) in cands:
            if arm not in c.arms:
                continue
            tb = c.arms[arm]
            others = [t2 for a2, t2 in c.arms.items() if a2 != arm]
            if all(t2 == tb for t2 in others) and c.kind != 'variant':
                continue
            r = f.reach([0], removed=[self.edge(c, arm)] + assumed, blocked=blocked)
            if not (set(live) & r):
                return True, c, len(cands), 'condition in %s' % f.id.split('::')[-1]
        n = len(cands)
        if depth >= 2:
            return False, None, n, ''
        # (b) a helper called by f establishes the guard
        for call in f.calls:
            h = self.prog.fns.get(call.callee or '')
            if h is None or h.kind not in ('fn', 'assocfn') or h.id == f.id or h.crate != f.crate and not h.crate.startswith('fil_actor'):
                continue
            if not h.returns_result() and h.locals[0][0] != 'bool':
                continue
            if len(h.blocks) > 400:
                continue
            lifted = self._lift_matcher(matcher, f, call, h)
            hc = self.find_conds(h, lifted)
            if not hc:
                continue
            n += len(hc)
            h_assumed = []
            for am in assume:
                for (c, arm) in self.find_conds(h, self._lift_matcher(am, f, call, h)):
                    if arm in c.arms:
                        h_assumed.append(self.edge(c, arm))
            if h.returns_result():
                if result_fate(f, call) not in ('try', 'returned'):
                    continue
                # in h: every Ok return lies behind the pass arm
                hrets = h.ret_blocks()
                good = False
                for (c, arm) in hc:
                    if arm in c.arms and not (set(hrets) & h.reach([0], removed=[self.edge(c, arm)] + h_assumed, blocked=h.errblocks)):
                        good = True
                if not good:
                    continue
                # in f: the call dominates the effect
                r = f.reach([0], blocked=set(blocked) | {call.bb}, removed=assumed)
                if not (set(live) & r):
                    return True, call, n, 'helper %s(..)? called at %s' % (h.id.split('::')[-1], call.where)
            else:
                # bool helper: f must branch on its result; with polarity p (the value of the helper for which f proceeds to the
                # effect), inside h every block returning p must lie behind the pass arm of the condition
                for pol in (True, False):
                    pb = _bool_result_blocks(h, pol)
                    if not pb:
                        continue
                    good = False
                    for (c, arm) in hc:
                        if arm in c.arms and not (set(pb) & h.reach([0], removed=[self.edge(c, arm)] + h_assumed)):
                            good = True
                    if not good:
                        continue
                    for cc in conds(f, self.S):
                        if cc.kind == 'pred' and cc.pred == h.id and pol in cc.arms:
                            r = f.reach([0], removed=[self.edge(cc, pol)] + assumed, blocked=blocked)
                            if not (set(live) & r):
                                return True, call, n, 'boolean helper %s tested at %s' % (h.id.split('::')[-1], call.where)
        # (c) f is a closure: the guard may sit in the enclosing function before the call that runs it
        if f.kind == 'closure' and f.parent in self.prog.fns:
            par = self.prog.fns[f.parent]
            sites = [c.bb for c in par.calls if f.id in c.cl]
            if sites:
                okp, used, n2, how = self._guard_search(par, [b for b in sites if b in par.reach([0], blocked=par.errblocks if success_only else ())], matcher, success_only, assume, depth + 1)
                n += n2
                if okp:
                    return True, used, n, how + ' (enclosing function)'
        return False, None, n, ''

    def _lift_matcher(self, matcher, f, call, h):
        """matcher for conditions inside helper h as seen from call site `call` in f: parameter atoms P:k of h are replaced
        by the atoms of the k-th argument at the call"""
        S = self.S
        argatoms = {}

        def subst(atoms):
            out = set()
            for a in atoms:
                if a[0] == 'P' and isinstance(a[1], int) and 1 <= a[1] <= len(call.args):
                    if a[1] not in argatoms:
                        argatoms[a[1]] = S.operand(f, call.args[a[1] - 1])
                    out |= argatoms[a[1]]
                else:
                    out.add(a)
            return out

        class _L(object):
            pass

        def m(c):
            lc = _L()
            lc.__dict__.update(c.__dict__)
            lc.A = subst(c.A)
            lc.B = subst(c.B)
            return matcher(lc)
        return m

    def guard_any(self, rule, key, f, targets, matchers, what, success_only=True, assume=()):
        """disjunctive guard: the effect is reachable only if at least one of the conditions takes its pass arm
        (deleting the pass arm of one candidate per matcher simultaneously cuts every path)."""
        blocked = f.errblocks if success_only else ()
        base = f.reach([0], blocked=blocked)
        live = [t for t in targets if t in base]
        if not live:
            self.rep.ob(rule, key, False, 'effect site(s) for "%s" not found / not reachable in %s (fail closed)' % (what, f.id), self.loc(f))
            return False
        removed = []
        for am in assume:
            for (c, arm) in self.find_conds(f, am):
                if arm in c.arms:
                    removed.append(self.edge(c, arm))
        nc = []
        for m in matchers:
            cs = self.find_conds(f, m)
            nc.append(len(cs))
            for (c, arm) in cs:
                if arm in c.arms:
                    removed.append(self.edge(c, arm))
        r = f.reach([0], removed=removed, blocked=blocked)
        ok = all(n > 0 for n in nc) and not (set(live) & r)
        self.rep.need(rule, key, ok, 'disjunctive guard "%s" must dominate %d effect site(s) in %s; candidates per disjunct: %s' % (what, len(live), f.id, nc),
                      self.loc(f, live[0]), {'rule': rule, 'guard': what, 'fn': f.id, 'effect_blocks': live[:6], 'candidates': nc})
        return ok

    def loop_reject(self, rule, key, f, targets, matcher, what):
        """a per-iteration rejection inside a loop: the condition exists, is reachable, its reject arm reaches neither the
        effect nor a success return, and its pass arm lies on a path to the effect. (Edge deletion cannot express this
        because the loop may run zero times.)  matcher returns the PASS arm."""
        base = f.reach([0], blocked=f.errblocks)
        live = [t for t in targets if t in base]
        cands = self.find_conds(f, matcher)
        ok = False
        for (c, arm) in cands:
            if arm not in c.arms or c.bb not in base:
                continue
            rej = [tb for a2, tb in c.arms.items() if a2 != arm and tb != c.arms[arm]]
            if not rej:
                continue
            r = f.reach(rej)
            if set(live) & r:
                continue
            if f.ok_returns_from(rej):
                continue
            if not (set(live) & f.reach([c.arms[arm]], blocked=f.errblocks)):
                continue
            ok = True
            break
        if not ok and live:
            # the loop written as a fallible iterator adaptor (`try_for_each` / `try_fold` closure whose Err short-circuits and is
            # propagated): the closure body is one iteration, and the rejection must cut every Ok return of that body
            for g in self.prog.closures_of(f.id, recursive=False):
                if not g.returns_result():
                    continue
                gc = self.find_conds(g, matcher)
                for (c, arm) in gc:
                    if arm not in c.arms:
                        continue
                    if not g.ok_returns_from([0], removed=[self.edge(c, arm)]) and g.ok_returns_from([0]):
                        ok = True
                        cands = cands + [(c, arm)]
                        break
                if ok:
                    break
        self.rep.need(rule, key, ok and bool(live), 'per-iteration rejection "%s" must exist before %d effect site(s) in %s (%d candidate condition(s))' % (what, len(live), f.id, len(cands)),
                      self.loc(f, live[0]) if live else self.loc(f), {'rule': rule, 'guard': what, 'fn': f.id, 'candidates': len(cands)})
        return ok

    def loop_heads(self, f):
        return {c.bb for c in f.calls if (c.defp or '').endswith('Iterator::next')}

    def iter_guard(self, rule, key, f, targets, matcher, what, assume=()):
        """a per-iteration filter (`if bad { continue }` / `{ return Err }`) in a loop body: within one iteration (loop heads
        blocked) the reject arm of the condition cannot reach the effect, while its pass arm can. matcher returns the PASS arm."""
        heads = self.loop_heads(f)
        base = f.reach([0])
        live = [t for t in targets if t in base]
        cands = self.find_conds(f, matcher)
        removed = []
        for am in assume:
            for (c, arm) in self.find_conds(f, am):
                if arm in c.arms:
                    removed.append(self.edge(c, arm))
        ok = False
        for (c, arm) in cands:
            if arm not in c.arms or c.bb not in base:
                continue
            rej = [tb for a2, tb in c.arms.items() if a2 != arm and tb != c.arms[arm]]
            if not rej:
                continue
            # the rejected item must not reach the effect within the same iteration of some enclosing loop: try all loop
            # heads blocked first, then each single head (two-phase loop bodies cross inner loop heads on the pass path)
            for hs in [heads] + [{h} for h in sorted(heads)]:
                if set(live) & f.reach(rej, blocked=hs, removed=removed):
                    continue
                if not (set(live) & f.reach([c.arms[arm]], blocked=hs)):
                    continue
                ok = True
                break
            if ok:
                break
        self.rep.need(rule, key, ok and bool(live), 'per-iteration filter "%s" must stand between the loop head and %d effect site(s) in %s (%d candidate condition(s))' % (what, len(live), f.id, len(cands)),
                      self.loc(f, live[0]) if live else self.loc(f), {'rule': rule, 'guard': what, 'fn': f.id, 'candidates': len(cands)})
        return ok

    def call_guard(self, rule, key, f, targets, pred_call, what, min_targets=1):
        """K6a: a call satisfying pred_call, with its error propagated (`?` / returned), dominates every target block"""
        base = f.reach([0], blocked=f.errblocks)
        live = [t for t in targets if t in base]
        if len(live) < min_targets:
            self.rep.ob(rule, key, False, 'effect site(s) for "%s" not found / not reachable in %s (fail closed)' % (what, f.id), self.loc(f))
            return False
        gs = [c for c in f.calls if pred_call(c)]
        ok = False
        for g in gs:
            if result_fate(f, g) not in ('try', 'returned'):
                continue
            # removing the call's continuation must cut all targets (dominance incl. the same block case excluded)
            r = f.reach([0], blocked=set(f.errblocks) | {g.bb})
            if not (set(live) & r):
                ok = True
                break
        self.rep.need(rule, key, ok, 'call "%s" with its error propagated must dominate %d effect site(s) in %s (%d candidate call(s))' % (
            what, len(live), f.id, len(gs)), self.loc(f, live[0]), {'rule': rule, 'guard_call': what, 'fn': f.id, 'effect_blocks': live[:6]})
        return ok

    # ------------------------------------------------------------------ K7 followed-by
    def followed_by(self, rule, key, f, a_blocks, b_blocks, what, assume=()):
        """no path from any A block to a success return avoids all B blocks (assume: matchers whose returned arm is
        excluded by hypothesis)"""
        removed = []
        for am in assume:
            for (c, arm) in self.find_conds(f, am):
                if arm in c.arms:
                    removed.append(self.edge(c, arm))
        if not a_blocks:
            self.rep.ob(rule, key, False, 'site A for "%s" not found in %s (fail closed)' % (what, f.id), self.loc(f))
            return False
        bad = []
        for a in a_blocks:
            succs = [t for (t, _l) in f.succ[a]]
            starts = succs if a not in b_blocks else []
            if f.ok_returns_from(starts, blocked=set(b_blocks), removed=removed):
                bad.append(a)
        self.rep.need(rule, key, not bad, '%s in %s: a success return is reachable from block(s) %s without passing the required follow-up' % (what, f.id, bad),
                      self.loc(f, (bad or a_blocks)[0]), {'rule': rule, 'fn': f.id, 'A_blocks': a_blocks[:6], 'B_blocks': sorted(b_blocks)[:6], 'what': what})
        return not bad

    def precedes(self, rule, key, f, a_blocks, b_blocks, what):
        """every B block is reachable only through some A block (A dominates B as a set)"""
        if not b_blocks or not a_blocks:
            self.rep.ob(rule, key, False, 'sites for "%s" not found in %s (fail closed)' % (what, f.id), self.loc(f))
            return False
        r = f.reach([0], blocked=set(a_blocks) | f.errblocks)
        bad = [b for b in b_blocks if b in r and b not in a_blocks]
        self.rep.need(rule, key, not bad, '%s in %s: block(s) %s reachable without passing the required predecessor' % (what, f.id, bad),
                      self.loc(f, (bad or b_blocks)[0]), {'rule': rule, 'fn': f.id, 'A_blocks': a_blocks[:6], 'B_blocks': b_blocks[:6], 'what': what})
        return not bad

    def stmt_rvalue_atoms(self, f, adt, field, narrow=True):
        """[(bb, atoms)] for every direct assignment to (adt, field) in f: atoms of the assigned value (plus ('XOP', op)
        atoms for the operators of the value's expression tree, so that `x := y` can be told from `x := y - z`)"""
        out = []
        sl = self.N if narrow else self.S
        prog = self.prog

        def xops(rv):
            ops = set()
            if rv[0] == 'use':
                ops = expr_ops(prog, f, rv[1])
            elif rv[0] == 'bin':
                ops = {('OP', norm_op(rv[1]))} | expr_ops(prog, f, rv[2]) | expr_ops(prog, f, rv[3])
            return {('XOP', o[1]) for o in ops if o[0] == 'OP'}
        for bi, b in enumerate(f.blocks):
            if b.get('cleanup'):
                continue
            for st in b['s']:
                if st[0] == '=' and st[1][1]:
                    last = [p for p in st[1][1] if isinstance(p, list) and p[0] == 'f']
                    if last and last[-1][3] == field and (last[-1][2] == adt or last[-1][2].endswith('::' + adt)):
                        out.append((bi, sl.rvalue(f, st[2]) | xops(st[2])))
        return out

    def agg_field_atoms(self, f, adt, field, narrow=True):
        """[(bb, atoms)] for every aggregate construction of `adt` in f: atoms of the operand initialising `field`"""
        out = []
        sl = self.N if narrow else self.S
        for bi, b in enumerate(f.blocks):
            if b.get('cleanup'):
                continue
            for st in b['s']:
                if st[0] == '=' and st[2][0] == 'agg' and st[2][1].get('k') == 'adt' and (st[2][1]['adt'] == adt or st[2][1]['adt'].endswith('::' + adt)):
                    fields = st[2][1].get('fields', [])
                    if field in fields:
                        out.append((bi, sl.operand(f, st[2][2][fields.index(field)])))
        return out

    def value_from(self, rule, key, f, atoms_list, pats, what, forbid=(), copy=False):
        """copy=True: the value is a plain copy (its expression tree contains no arithmetic)"""
        if copy:
            forbid = tuple(forbid) + ('XOP:',)
        if not atoms_list:
            self.rep.ob(rule, key, False, 'no site found for "%s" in %s (fail closed)' % (what, f.id), self.loc(f))
            return False
        ok = True
        for (bb, atoms) in atoms_list:
            good = has_all(atoms, pats) and not any(has_atom(atoms, p) for p in forbid)
            ok = ok and good
            if not good:
                self.rep.ob(rule, key, False, '%s: value must derive from %s%s; derives from %s' % (what, pats, (' and not from %s' % list(forbid)) if forbid else '', sendsmod.pretty(atoms)), self.loc(f, bb))
        if ok:
            self.rep.ob(rule, key, True, '%s derives from %s' % (what, pats), self.loc(f, atoms_list[0][0]),
                        {'rule': rule, 'fn': f.id, 'what': what, 'required_atoms': pats, 'atoms': sendsmod.pretty(atoms_list[0][1])})
        return ok

    def raised_only(self, rule, key, f, adt, field, src_pats, what, field_pat=None):
        """a field that may only grow towards a source value: every write of (adt, field) in f deriving from `src_pats` is either
        (guard form) a plain copy of the source on the true arm of `field < source`, or (max form) `max(field, source)`.
        Returns the blocks of the writes it judged."""
        fp = field_pat or 'F:%s.%s' % (adt, field)
        ok = True
        judged = []
        for (bb, atoms) in self.stmt_rvalue_atoms(f, adt, field, narrow=False):
            if not has_all(atoms, src_pats):
                continue
            judged.append(bb)
            is_max = has_atom(atoms, 'C:cmp::max') or has_atom(atoms, 'C:Ord::max')
            if is_max:
                good = has_atom(atoms, fp)
                why = 'max(%s, source) must take the field itself as one operand' % fp
            else:
                plain = not any(a[0] == 'XOP' for a in atoms)
                g = self._guard_search(f, [bb], m_rel('lt', [fp], list(src_pats), True, pure=True), True, (), 0)
                good = plain and bool(g[0])
                why = 'a plain copy of the source is allowed only on the true arm of `%s < source`' % fp
            if not good:
                ok = False
                self.rep.ob(rule, key, False, '%s: %s' % (what, why), self.loc(f, bb))
        if not judged:
            self.rep.ob(rule, key, False, 'no write of %s.%s deriving from %s found in %s (fail closed)' % (adt, field, list(src_pats), f.id), self.loc(f))
            return []
        if ok:
            self.rep.ob(rule, key, True, '%s: %d write(s), each only ever raises the field' % (what, len(judged)), self.loc(f, judged[0]))
        return judged

    def accumulates(self, rule, key, f, value_pats, what, init_pats=('C:zero',), min_sites=1):
        """an accumulator: some local is updated by `+=` (AddAssign::add_assign) with a value deriving from value_pats, and every
        plain assignment to that local is its zero initialisation (so `acc = x` in place of `acc += x` is reported)."""
        sites = []
        for c in f.calls:
            if (c.defp or '').endswith('AddAssign::add_assign') and len(c.args) == 2:
                if has_all(self.N.operand(f, c.args[1]), value_pats):
                    sites.append(c)
        if len(sites) < min_sites:
            # the same total written as a fold: a closure whose result is its accumulator parameter plus the value
            for g in self.prog.closures_of(f.id, recursive=False):
                lf = linear_form(self.prog, g, ['c', [0, []]])
                accs = [k for k, v in lf.items() if k.startswith('P:') and v == {1}]
                vals = [k for k, v in lf.items() if v == {1} and any(k == p or k.endswith(p.split(':', 1)[1]) and k[0] == p[0] for p in value_pats)]
                if accs and vals and not any(-1 in v for v in lf.values()):
                    self.rep.ob(rule, key, True, '%s: accumulated by a fold (closure result = accumulator + value)' % what, self.loc(g),
                                {'rule': rule, 'fn': g.id, 'what': what, 'form': {k: sorted(v) for k, v in lf.items()}})
                    return True
            self.rep.ob(rule, key, False, '%s: no `+=` accumulation of a value deriving from %s found in %s' % (what, list(value_pats), f.id), self.loc(f))
            return False
        ok = True
        for c in sites:
            a0 = c.args[0]
            acc = None
            accff = None
            if a0[0] in ('m', 'c') and not a0[1][1]:
                mr = getattr(f, '_mutref', {}).get(a0[1][0])
                if mr:
                    acc, accff = mr
            if acc is None or accff is not None:
                continue     # accumulating into a field of a larger value: its other definitions are not re-initialisations
            for d in f.defs.get(acc, []):
                if d[0] == '=' and not d[3][1]:
                    at = self.N.rvalue(f, d[4])
                    if not any(has_atom(at, p) for p in init_pats) or has_all(at, value_pats):
                        ok = False
                        self.rep.ob(rule, key, False, '%s: the accumulator is overwritten by a plain assignment deriving from %s' % (what, sendsmod.pretty(at)), self.loc(f, d[1]))
                elif d[0] == 'call' and not (d[2].defp or '').endswith('::zero') and not (d[2].callee or '').endswith('::zero') and not (d[2].callee or '').endswith('::default'):
                    at = self.N.call(f, d[2])
                    if has_all(at, value_pats):
                        ok = False
                        self.rep.ob(rule, key, False, '%s: the accumulator is overwritten by the result of %s' % (what, d[2].callee), d[2].where)
        if ok:
            self.rep.ob(rule, key, True, '%s: accumulated with += at %d site(s)' % (what, len(sites)), sites[0].where,
                        {'rule': rule, 'fn': f.id, 'what': what, 'sites': [c.where for c in sites]})
        return ok

    def has_bin(self, f, op, a_pats, b_pats):
        """a comparison `A op B` computed as a value (closure predicate returning the bool) in f or its closures"""
        for g in self.prog.family(f):
            for b in g.blocks:
                for st in b['s']:
                    if st[0] == '=' and st[2][0] == 'bin' and norm_op(st[2][1]) == op:
                        if has_all(self.S.operand(g, st[2][2]), a_pats) and has_all(self.S.operand(g, st[2][3]), b_pats):
                            alla = {p.split(':')[1] for p in a_pats if p.startswith('OP:')}
                            allb = {p.split(':')[1] for p in b_pats if p.startswith('OP:')}
                            if not {o[1] for o in expr_ops(self.prog, g, st[2][2]) if o[0] == 'OP'} - alla and not {o[1] for o in expr_ops(self.prog, g, st[2][3]) if o[0] == 'OP'} - allb:
                                return True
            for c in conds(g, self.S):
                t = match_rel(c, op.lower(), a_pats, b_pats)
                if t is not None and c.rel == op.lower() and not getattr(c, 'opsA', None) and not getattr(c, 'opsB', None):
                    return True
        return False

    def mut_target(self, call, idx=0):
        """[(adt, field)] of the place whose `&mut` is passed as argument idx (the thing a `+=` / `-=` / mutator updates)"""
        f = call.fn
        a = call.args[idx]
        if a[0] not in ('m', 'c') or a[1][1]:
            return []
        l = a[1][0]
        for _ in range(4):
            ds = [d for d in f.defs.get(l, []) if d[0] == '=']
            if len(ds) != 1:
                return []
            rv = ds[0][4]
            if rv[0] in ('ref', 'rawptr'):
                pf = place_fields(rv[2])
                if not pf and rv[2][1] == ['*']:
                    l = rv[2][0]       # reborrow `&mut *p`: follow p
                    continue
                return pf
            if rv[0] == 'use' and rv[1][0] in ('m', 'c') and not rv[1][1][1]:
                l = rv[1][1][0]
                continue
            return []
        return []

    def updates_field(self, call, adt, field, idx=0):
        t = self.mut_target(call, idx)
        return bool(t) and t[-1][1] == field and (t[-1][0] == adt or t[-1][0].endswith('::' + adt))

    # ------------------------------------------------------------------ K10 argument atoms
    def arg_has(self, rule, key, call, idx, pats, what, narrow=True, forbid=(), copy=False):
        """copy=True: the argument is passed as is (its expression tree contains no arithmetic)"""
        sl = self.N if narrow else self.S
        atoms = sl.operand(call.fn, call.args[idx])
        if copy:
            atoms = atoms | {('XOP', o[1]) for o in expr_ops(self.prog, call.fn, call.args[idx]) if o[0] == 'OP'}
            forbid = tuple(forbid) + ('XOP:',)
        ok = has_all(atoms, pats) and not any(has_atom(atoms, p) for p in forbid)
        self.rep.need(rule, key, ok, '%s: argument %d of %s must derive from %s%s; derives from %s' % (
            what, idx, (call.callee or '?').split('::')[-1], pats, (' and not from %s' % list(forbid)) if forbid else '', sendsmod.pretty(atoms)),
            call.where, {'rule': rule, 'call': call.callee, 'arg': idx, 'required_atoms': pats, 'atoms': sendsmod.pretty(atoms)})
        return ok

    # ------------------------------------------------------------------ K10 index agreement
    def index_atoms(self, f, call, idx):
        """provenance of an index argument (narrow slice, field / param / callee / literal / operator atoms)"""
        at = self.prog.narrow.operand(f, call.args[idx])
        return frozenset(a for a in at if a[0] in ('F', 'P', 'C', 'K', 'V', 'T', 'E', 'OP', 'XOP'))

    def index_agreement(self, rule, key, f, sites, what):
        """`sites`: [(label, call, arg index)] in one function. All the index arguments must have the same provenance:
        a container entry that is loaded under one index must be stored back - and flagged in sibling tables - under the same one."""
        ats = [(lab, self.index_atoms(f, c, i), c) for (lab, c, i) in sites]
        ok = len(ats) >= 2 and all(a == ats[0][1] and a for (_l, a, _c) in ats)
        import sends as _s
        self.rep.need(rule, key, ok, '%s: %s' % (what, '; '.join('%s <- %s' % (l, _s.pretty(a, keep=('F', 'K', 'E', 'C', 'V', 'P', 'T')) ) for (l, a, _c) in ats)),
                      ats[0][2].where if ats else self.loc(f), {'rule': rule, 'fn': f.id, 'sites': [(l, sorted(map(str, a))) for (l, a, _c) in ats]})
        return ok

    # ------------------------------------------------------------------ K11 constants
    def const_is(self, rule, name, value, crate_prefix=None):
        cs = [c for k, c in self.prog.consts.items() if k.endswith('::' + name) and (not crate_prefix or k.startswith(crate_prefix))]
        ok = len(cs) >= 1 and all(c.get('val') == value for c in cs)
        self.rep.need(rule, 'const:' + name, ok, 'constant %s must be %s, found %s' % (name, value, [(c['id'], c.get('val')) for c in cs]))
        return ok


NEUTRAL = re.compile(r" as (serde_core|serde)::(de|ser)::|__Visitor|as core::clone::Clone>::clone|as core::default::Default>::default|::testing::|::test_utils::")


def _match_fn(fid, pat):
    """pat matches fid if fid == pat, or fid ends with '::'+pat, or fid is a closure inside such a function"""
    base = fid
    while True:
        if base == pat or base.endswith('::' + pat):
            return True
        i = base.rfind('::{closure#')
        if i < 0:
            return False
        base = base[:i]


# ---------------------------------------------------------------------- matchers

def m_rel(rel, a_pats, b_pats, holds, a_forbid=(), b_forbid=(), pure=False):
    """condition `A rel B`; the guarded effect requires the relation to be `holds` (True: proceed only if A rel B;
    False: `A rel B => Err`). a_forbid/b_forbid: atoms that must NOT occur on that side; pure: neither side may
    involve arithmetic (OP atoms) beyond what a_pats/b_pats name - pins the shape `x rel y` against `x+1 rel y`."""
    def m(c):
        if c.kind == 'pred' and isinstance(c.pred, str) and c.pred.endswith(('::is_negative', '::is_positive', '::is_zero')):
            c = core_SignRel(c)
        t = match_rel(c, rel, a_pats, b_pats)
        if t is None:
            return None
        # which cond side plays A? re-derive by checking pats
        sides = [(c.A, c.B, getattr(c, 'opsA', set()), getattr(c, 'opsB', set())), (c.B, c.A, getattr(c, 'opsB', set()), getattr(c, 'opsA', set()))]
        okside = False
        for (sa, sb, oa, ob) in sides:
            if has_all(sa, a_pats) and has_all(sb, b_pats):
                bad = any(has_atom(sa, p) for p in a_forbid) or any(has_atom(sb, p) for p in b_forbid)
                if pure:
                    # the expression tree of each operand may use only the operators / literals the pattern names
                    alla = {p.split(':')[1] for p in a_pats if p.startswith('OP:') or p.startswith('V:')}
                    allb = {p.split(':')[1] for p in b_pats if p.startswith('OP:') or p.startswith('V:')}
                    opa = {str(a[1]) for a in oa} - alla
                    opb = {str(a[1]) for a in ob} - allb
                    bad = bad or bool(opa) or bool(opb)
                if not bad:
                    okside = True
        if not okside:
            return None
        return t if holds else (not t)
    return m


def m_pred(callee_suffix, arg_pats, holds, direct=None):
    """boolean predicate call `callee(args)`; direct='Adt.field': the predicate's receiver must be exactly that field"""
    def m(c):
        if c.kind == 'rel' and direct is None and callee_suffix in ('is_negative', 'is_positive', 'is_zero'):
            # `x < 0`, `0 < x`, `x == 0` spelled as comparisons with the zero constant
            za, zb = is_zero_side(c.A), is_zero_side(c.B)
            if za == zb:
                return None
            other = c.B if za else c.A
            if not has_all(other, arg_pats):
                return None
            r = c.rel          # canonical rels: lt, le, eq, ne (A rel B)
            if callee_suffix == 'is_zero':
                return (True if holds else False) if r == 'eq' else ((False if holds else True) if r == 'ne' else None)
            neg_true = (r == 'lt' and zb)            # x < 0
            neg_false = (r == 'le' and za)           # 0 <= x   == !(x < 0)
            pos_true = (r == 'lt' and za)            # 0 < x
            pos_false = (r == 'le' and zb)           # x <= 0   == !(0 < x)
            if callee_suffix == 'is_negative':
                t = True if neg_true else (False if neg_false else None)
            else:
                t = True if pos_true else (False if pos_false else None)
            if t is None:
                return None
            return t if holds else (not t)
        if c.kind != 'pred' or not isinstance(c.pred, str):
            return None
        if not (c.pred.endswith(callee_suffix)):
            return None
        if not has_all(c.A, arg_pats):
            return None
        if direct is not None:
            adt, _, fld = direct.rpartition('.')
            df = getattr(c, 'direct', [])
            if not df or df[-1][1] != fld or not (df[-1][0] == adt or df[-1][0].endswith('::' + adt)):
                return None
        return True if holds else False
    return m


def m_boolatoms(pats, holds):
    """any two-way boolean condition whose operands derive from all `pats` (used for flags / fields)"""
    def m(c):
        if c.kind not in ('pred', 'rel'):
            return None
        at = c.A | c.B
        if c.kind == 'pred' and isinstance(c.pred, str) and '::' in c.pred:
            at = at | {('C', c.pred)}
        if not has_all(at, pats):
            return None
        return True if holds else False
    return m


def m_variant(pats, value):
    def m(c):
        if c.kind != 'variant' or not has_all(c.A, pats):
            return None
        if value in c.arms:
            return value
        return 'otherwise'
    return m


def m_any(*ms):
    def m(c):
        for x in ms:
            r = x(c)
            if r is not None:
                return r
        return None
    return m


def callee_is(*suffixes):
    def p(c):
        cal = c.callee or ''
        d = c.defp or ''
        return any(cal == s or cal.endswith('::' + s) or d == s or d.endswith('::' + s) for s in suffixes)
    return p


def send_to(prog, to_pats=(), method_pats=(), nonzero=None):
    def p(c):
        if not sendsmod.is_send(c):
            return False
        s = sendsmod.SendSite(prog, c)
        if to_pats and not has_all(s.to, to_pats):
            return False
        if method_pats and not has_all(s.method, method_pats):
            return False
        if nonzero is True and s.zero_value():
            return False
        if nonzero is False and not s.zero_value():
            return False
        return True
    return p


def _bool_result_blocks(h, value):
    """blocks of a bool-returning helper in which the result is given `value` (a constant) or a non-constant (either value)"""
    out = []
    for bi, b in enumerate(h.blocks):
        if b.get('cleanup'):
            continue
        for st in b['s']:
            if st[0] == '=' and st[1][0] == 0 and not st[1][1]:
                rv = st[2]
                if rv[0] == 'use' and rv[1][0] == 'k' and 'val' in rv[1][1]:
                    if bool(rv[1][1]['val']) == value:
                        out.append(bi)
                else:
                    out.append(bi)
        t = b['t']
        if t[0] == 'call' and t[3][0] == 0 and not t[3][1]:
            out.append(bi)
    return out


def _self_dependent_write(prog, g, bb, adt, field):
    """the value written to (adt, field) in block bb is computed from the field's own previous value"""
    pat = 'F:%s.%s' % (adt, field)
    b = g.blocks[bb]
    for st in b['s']:
        if st[0] == '=' and _place_has_field(st[1], adt, field, last_only=False):
            if has_atom(prog.narrow.rvalue(g, st[2]), pat):
                return True
    t = b['t']
    if t[0] == 'call' and _place_has_field(t[3], adt, field, last_only=False):
        c = g.call_at(bb)
        if c is not None and any(has_atom(prog.narrow.operand(g, a), pat) for a in c.args):
            return True
    return False


FREEZE_TOL = {}
FREEZE_WS = {}


def _callee_key(c):
    n = c.callee or c.defp or '?'
    n = re.sub(r'<[^<>]*>', '', n)
    n = re.sub(r'<[^<>]*>', '', n)
    return '::'.join(n.split('::')[-2:])


def tolerated_sites(prog, crates):
    """[(Fn, Call, how)] Result-producing calls whose Err the caller survives"""
    out = []
    for f in prog.bodies():
        if f.crate not in crates or f.kind not in ('fn', 'assocfn', 'closure') or f.exp or NEUTRAL.search(f.id):
            continue
        for c in f.calls:
            if c.exp or c.dst[1]:
                continue
            dl = c.dst[0]
            ty = f.locals[dl][0] if dl < len(f.locals) else ''
            if not ty.startswith('core::result::Result<'):
                continue
            dp = c.defp or ''
            if dp in ADAPTERS or dp.endswith('::map_err') or dp.endswith('Result::<T, E>::map') or dp.startswith('core::result::Result'):
                continue        # the adaptor chain is attributed to the call that produced the Result
            how = _tolerated(f, c)
            if how:
                out.append((f, c, how))
    return out


def _tolerated(f, c):
    seen = set()
    work = [c.dst[0]]
    while work:
        x = work.pop()
        if x in seen:
            continue
        seen.add(x)
        for bi, b in enumerate(f.blocks):
            if b.get('cleanup'):
                continue
            for st in b['s']:
                if st[0] != '=':
                    continue
                rv = st[2]
                if rv[0] == 'use' and rv[1][0] in ('m', 'c') and rv[1][1][0] == x and not rv[1][1][1] and not st[1][1]:
                    work.append(st[1][0])
                elif rv[0] == 'ref' and rv[2][0] == x and not rv[2][1]:
                    work.append(st[1][0])
                elif rv[0] == 'discr' and rv[1][0] == x and not rv[1][1]:
                    dl = st[1][0]
                    for b2 in f.blocks:
                        t = b2['t']
                        if t[0] == 'switch' and t[1][0] in ('m', 'c') and t[1][1][0] == dl:
                            arms = {v: tb for v, tb in t[2]}
                            err_t = arms.get(1, t[3] if 0 in arms else None)
                            if err_t is None:
                                continue
                            if not f.returns_result():
                                return 'Err arm of a match in a function that cannot fail'
                            if f.ok_returns_from([err_t]):
                                return 'the Err arm reaches an Ok return'
            t = b['t']
            if t[0] == 'call' and any(_mentions(a, x) for a in t[2]):
                name = (t[1].get('res') or t[1].get('def') or '')
                if name.startswith('core::result::Result') and name.endswith(('::unwrap_or', '::unwrap_or_default', '::unwrap_or_else', '::ok', '::is_ok', '::is_err', '::err')):
                    return '.' + name.split('::')[-1] + '()'
                if name in ADAPTERS or name.endswith('::map_err') or name.endswith('Result::<T, E>::map') or name.endswith('Result::<T, E>::and_then'):
                    work.append(t[3][0])
    return None


def _uses_of(f, l):
    """(kind, payload) uses of local l in f: ('stmt', dst local), ('call', Call-terminator block), ('switch', bb), ('ret',)"""
    out = []
    for bi, b in enumerate(f.blocks):
        if b.get('cleanup'):
            continue
        for st in b['s']:
            if st[0] != '=':
                continue
            if _mentions(st[2], l):
                out.append(('stmt', st[1][0]))
        t = b['t']
        if t[0] == 'call' and any(_mentions(a, l) for a in t[2]):
            out.append(('call', bi))
        elif t[0] == 'switch' and _mentions(t[1], l):
            out.append(('switch', bi))
    return out


def _mentions(node, l):
    if isinstance(node, list):
        if len(node) == 2 and isinstance(node[0], int) and not isinstance(node[0], bool) and isinstance(node[1], list):
            if node[0] == l:
                return True
            return any(isinstance(p, list) and p and p[0] == 'i' and p[1] == l for p in node[1])
        return any(_mentions(x, l) for x in node)
    return False


_SWALLOW = ('::ok', '::err', '::is_ok', '::is_err', '::unwrap_or_default')


def _discarded(f, c, depth=0):
    """the value produced by call c is never looked at: no use at all, or only handed to `.ok()` / `.is_ok()`-style adaptors whose
    own result is never looked at, or moved into `_0`-less temporaries that are never used"""
    l = c.dst[0]
    if l == 0:
        return False
    seen = set()
    work = [l]
    while work:
        x = work.pop()
        if x in seen:
            continue
        seen.add(x)
        if x == 0:
            return False
        us = _uses_of(f, x)
        for (k, p) in us:
            if k == 'switch':
                return False
            if k == 'stmt':
                work.append(p)
            elif k == 'call':
                t = f.blocks[p]['t']
                name = (t[1].get('res') or t[1].get('def') or '')
                if name.startswith('core::result::Result') and name.endswith(_SWALLOW) or name.startswith('core::option::Option') and name.endswith(('::is_some', '::is_none')):
                    work.append(t[3][0])      # the adaptor's own result must be used for the error to count as seen
                elif name.endswith('mem::drop') or name.endswith('::drop'):
                    continue
                else:
                    return False
    return True


# ---------------------------------------------------------------------- running totals
def loop_blocks(f):
    """blocks of f that lie on a CFG cycle (normal edges)"""
    if getattr(f, '_loopblocks', None) is not None:
        return f._loopblocks
    n = len(f.blocks)
    succ = [[t for (t, _l) in f.succ[i]] for i in range(n)]
    idx, low, st, on, out = {}, {}, [], set(), set()
    counter = [0]
    for root in range(n):
        if root in idx or f.blocks[root].get('cleanup'):
            continue
        work = [(root, 0)]
        while work:
            v, i = work.pop()
            if i == 0:
                idx[v] = low[v] = counter[0]
                counter[0] += 1
                st.append(v)
                on.add(v)
            recurse = False
            while i < len(succ[v]):
                w = succ[v][i]
                i += 1
                if w not in idx:
                    work.append((v, i))
                    work.append((w, 0))
                    recurse = True
                    break
                elif w in on:
                    low[v] = min(low[v], idx[w])
            if recurse:
                continue
            if low[v] == idx[v]:
                comp = []
                while True:
                    w = st.pop()
                    on.discard(w)
                    comp.append(w)
                    if w == v:
                        break
                if len(comp) > 1 or v in succ[v]:
                    out.update(comp)
            if work:
                u = work[-1][0]
                low[u] = min(low[u], low[v])
    f._loopblocks = out
    return out


def _on_cycle_avoiding(f, b, avoid):
    """block b lies on a CFG cycle that does not pass through block `avoid`"""
    if b == avoid:
        return False
    r = f.reach([t for (t, _l) in f.succ[b]], blocked={avoid}, use_flags=False)
    return b in r


def _is_zero_def(prog, f, d):
    if d[0] == 'call':
        c = d[2]
        n = (c.callee or c.defp or '')
        return bool(re.search(r'::(zero|default|new)$', n)) and not c.args
    rv = d[4]
    if rv[0] == 'use' and rv[1][0] == 'k':
        k = rv[1][1]
        return str(k.get('val')) == '0' or str(k.get('def', '')).endswith('::ZERO')
    if rv[0] == 'agg' and rv[1].get('k') == 'adt':
        # PowerPair { raw: zero, qa: zero } style literals
        return all(o[0] in ('m', 'c') and any(_is_zero_def(prog, f, dd) for dd in f.defs.get(o[1][0], []) if dd[0] in ('=', 'call')) for o in rv[2]) and bool(rv[2])
    return False


def _captured_local(par, closure_id, idx):
    """the local of the enclosing function that closure `closure_id` captures by mutable reference as upvar idx"""
    for b in par.blocks:
        for st in b['s']:
            if st[0] == '=' and st[2][0] == 'agg' and st[2][1].get('k') == 'closure' and st[2][1]['def'] == closure_id and idx < len(st[2][2]):
                o = st[2][2][idx]
                if o[0] in ('m', 'c') and not o[1][1]:
                    for d in par.defs.get(o[1][0], []):
                        if d[0] == '=' and d[4][0] == 'ref' and d[4][1] == 'mut' and not d[4][2][1]:
                            return d[4][2][0]
    return None


_VALUE_TY = re.compile(r'TokenAmount|BigInt|PowerPair|DataCap|StoragePower|^&?(mut )?[iu](8|16|32|64|128|size)$|^bool$|^\(\)$')


def _reaches_local(f, ops, target, rv=False, limit=4000):
    """does the value computed from `ops` depend (through the def-use chains of f) on the current value of `target`
    (('l', local) or ('u', upvar index of a closure))"""
    seen = set()
    work = []

    def push_operand(o):
        if isinstance(o, list) and o and o[0] in ('c', 'm'):
            push_place(o[1])

    def push_place(pl):
        if target[0] == 'u' and pl[0] == 1:
            fs = [p for p in pl[1] if isinstance(p, list) and p[0] == 'f']
            if fs and fs[0][2].startswith('closure:') and fs[0][1] == target[1]:
                work.append('HIT')
                return
        work.append(pl[0])
        for p in pl[1]:
            if isinstance(p, list) and p[0] == 'i':
                work.append(p[1])

    def push_rvalue(r):
        k = r[0]
        if k == 'use':
            push_operand(r[1])
        elif k in ('ref', 'rawptr'):
            push_place(r[2])
        elif k in ('cfd', 'discr'):
            push_place(r[1])
        elif k == 'cast':
            push_operand(r[2])
        elif k == 'bin':
            push_operand(r[2]); push_operand(r[3])
        elif k == 'un':
            push_operand(r[2])
        elif k == 'agg':
            for o in r[2]:
                push_operand(o)
        elif k == 'repeat':
            push_operand(r[1])
    for o in ops:
        if rv:
            push_rvalue(o)
        else:
            push_operand(o)
    steps = 0
    while work and steps < limit:
        steps += 1
        x = work.pop()
        if x == 'HIT':
            return True
        if target[0] == 'l' and x == target[1]:
            return True
        if x in seen:
            continue
        seen.add(x)
        # dependence is followed through amount-like values only (amounts, big integers, power pairs, machine integers and
        # wrappers of them); a state object, store or runtime handle that *also* saw the total is not a carrier of its value
        if x < len(f.locals) and not _VALUE_TY.search(f.locals[x][0] or ''):
            continue
        for d in f.defs.get(x, []):
            if d[0] == '=':
                push_rvalue(d[4])
            elif d[0] in ('call', 'mutcall'):
                for a in d[2].args:
                    push_operand(a)
    return False


# ---------------------------------------------------------------------- memo operations
PLUS_TRAITS = ('BitOrAssign::bitor_assign', 'AddAssign::add_assign')
MINUS_TRAITS = ('SubAssign::sub_assign', 'BitAndAssign::bitand_assign')
RESET_CALLEES = ('::new', '::zero', '::default', 'mem::take')


def field_ops(X, f, adt, fields=None, slicer=None):
    """[(field, dir, bb, line, atoms)] for every update of a field of `adt` in body f:
       '+'   `x.f |= v` / `x.f += v` (BitOrAssign / AddAssign through &mut x.f), or the primitive `x.f = x.f + v`
       '-'   `x.f -= v` / `x.f &= v`, or the primitive `x.f = x.f - v`
       '0'   reset: `x.f = T::new()/zero()/default()`, `mem::take(&mut x.f)`
       '='   any other plain assignment `x.f = v`
    atoms: narrow slice of the value operand v (empty for resets)."""
    out = []
    prog = X.prog
    SL = slicer or prog.narrow
    for c in f.calls:
        d = c.defp or ''
        cal = c.callee or ''
        dirn = '+' if d.endswith(PLUS_TRAITS) else '-' if d.endswith(MINUS_TRAITS) else None
        if dirn and len(c.args) == 2:
            t = X.mut_target(c, 0)
            if t and _sfx_adt(t[-1][0], adt):
                out.append((t[-1][1], dirn, c.bb, c.line, SL.operand(f, c.args[1])))
        elif (cal.endswith('BitField::set') or cal.endswith('BitField::unset')) and len(c.args) == 2:
            t = X.mut_target(c, 0)
            if t and _sfx_adt(t[-1][0], adt):
                out.append((t[-1][1], '+' if cal.endswith('::set') else '-', c.bb, c.line, SL.operand(f, c.args[1])))
        elif (d.endswith('mem::take') or cal.endswith('mem::take')) and c.args:
            t = X.mut_target(c, 0)
            if t and _sfx_adt(t[-1][0], adt):
                out.append((t[-1][1], '0', c.bb, c.line, set()))
        # call destination is the field: x.f = callee(..)
        dst = f.blocks[c.bb]['t'][3]
        pf = place_fields(dst)
        if pf and _sfx_adt(pf[-1][0], adt):
            reset = any((cal or d).endswith(s) for s in RESET_CALLEES) and not c.args
            dirn2 = '0' if reset else '='
            m_ = re.search(r'core::ops::(?:arith|bit)::(Add|Sub|BitOr|BitAnd)>?::', d) or re.search(r'core::ops::(?:arith|bit)::(Add|Sub|BitOr|BitAnd)(?:<[^>]*>+)?>?::', cal)
            if m_ and len(c.args) == 2 and has_atom(prog.narrow.operand(f, c.args[0]), 'F:%s.%s' % (adt, pf[-1][1])):
                # x.f = &x.f + v   (same as x.f += v)
                dirn2 = '+' if m_.group(1) in ('Add', 'BitOr') else '-'
                out.append((pf[-1][1], dirn2, c.bb, c.line, SL.operand(f, c.args[1])))
                continue
            out.append((pf[-1][1], dirn2, c.bb, c.line, set() if reset else SL.call(f, c)))
    for bi, b in enumerate(f.blocks):
        if b.get('cleanup'):
            continue
        for st in b['s']:
            if st[0] != '=':
                continue
            pf = place_fields(st[1])
            if not pf or not _sfx_adt(pf[-1][0], adt):
                continue
            fld = pf[-1][1]
            rv = st[2]
            at = SL.rvalue(f, rv)
            atn = prog.narrow.rvalue(f, rv)
            dirn = '='
            if rv[0] == 'bin' and norm_op(rv[1]) in ('Add', 'Sub', 'BitOr'):
                # primitive memo: x.f = x.f + v (the overflow-checked form assigns a tuple temp first; handled via slice below)
                dirn = '+' if norm_op(rv[1]) in ('Add', 'BitOr') else '-'
            elif rv[0] == 'use':
                ops = {o[1] for o in expr_ops(prog, f, rv[1]) if o[0] == 'OP'}
                selfread = has_atom(prog.narrow.operand(f, rv[1]), 'F:%s.%s' % (adt, fld))
                if selfread and ops & {'Add'} and not ops & {'Sub'}:
                    dirn = '+'
                elif selfread and ops & {'Sub'} and not ops & {'Add'}:
                    dirn = '-'
                elif not ops and any(has_atom(atn, 'C:' + s) for s in ('::new', '::zero', '::default')) and not any(a[0] in ('F', 'P') for a in atn):
                    dirn = '0'
            out.append((fld, dirn, bi, st[3], at))
    if fields is not None:
        out = [o for o in out if o[0] in fields]
    return out


def _sfx_adt(path, adt):
    return path == adt or path.endswith('::' + adt)
