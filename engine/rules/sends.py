"""Send-site inventory: every call of Runtime::send / send_simple with the atoms of its recipient, method and value."""
from core import *

SEND_FNS = (RUNTIME + 'send', RUNTIME + 'send_simple')


def is_send(c):
    return (c.defp in SEND_FNS) or (c.callee in SEND_FNS)


def pretty(atoms, keep=('F', 'K', 'E', 'C', 'V', 'P', 'T')):
    out = set()
    for a in atoms:
        if a[0] not in keep:
            continue
        if a[0] in ('F', 'E') and (a[1].startswith('core::') or a[1].startswith('alloc::') or a[1] == 'tuple'):
            continue
        if a[0] == 'F':
            out.add('F:%s.%s' % (a[1].split('::')[-1] if not a[1].startswith('closure:') else 'closure', a[2]))
        elif a[0] == 'E':
            out.add('E:%s::%s' % (a[1].split('::')[-1], a[2]))
        elif a[0] == 'K':
            out.add('K:%s' % a[1].split('::')[-1])
        elif a[0] == 'C':
            c = a[1]
            if c.startswith('core::') or c.startswith('<') or c.startswith('alloc::') or c.startswith('std::'):
                continue
            out.add('C:%s' % '::'.join(c.split('::')[-2:]))
        elif a[0] == 'V':
            out.add('V:%s' % a[1])
        elif a[0] == 'T':
            out.add('T:%s.%s' % ('::'.join((a[1] or '?').split('::')[-2:]), a[2]))
        elif a[0] == 'P':
            out.add('P:%s' % a[1])
    return sorted(out)


class SendSite:
    def __init__(self, prog, c):
        self.c = c
        S = prog.narrow
        f = c.fn
        self.to = S.operand(f, c.args[1])
        self.method = S.operand(f, c.args[2])
        self.value = S.operand(f, c.args[4])
        self.flags = S.operand(f, c.args[6]) if len(c.args) > 6 else set()
        self.fate = result_fate(f, c)

    def zero_value(self):
        """value operand is syntactically the zero constant (TokenAmount::zero() / Zero::zero())"""
        names = {a[1] for a in self.value if a[0] == 'C'}
        zero = any(n.endswith('Zero>::zero') or n.endswith('::zero') for n in names)
        nonzero = any(a[0] in ('F', 'P') for a in self.value) or any(
            a[0] == 'C' and not (a[1].endswith('::zero') or a[1].endswith('Zero>::zero') or a[1].startswith('core::') or a[1].startswith('<')) for a in self.value)
        return zero and not nonzero

    def desc(self):
        return {'fn': self.c.fn.id, 'where': self.c.where, 'to': pretty(self.to), 'method': pretty(self.method), 'value': pretty(self.value),
                'zero_value': self.zero_value(), 'fate': self.fate, 'flags': pretty(self.flags)}


def all_sends(prog, crates=None):
    out = []
    for f in prog.bodies():
        if f.kind in ('promoted', 'const'):
            continue
        if crates and f.crate not in crates:
            continue
        for c in f.calls:
            if is_send(c):
                out.append(SendSite(prog, c))
    return out


def exit_code_inspected(X, s):
    """A send returns Ok(Response) even when the callee aborted: the abort is visible only in Response.exit_code.
    True when the Result of this send is handed to extract_send_result (turns a non-zero exit code into Err), or
    when every success return of the sender after the send lies behind the true arm of `exit_code.is_success()` taken on this
    send's response."""
    f = s.c.fn
    fate, via = result_via(f, s.c)
    if any(v.endswith('::extract_send_result') for v in via):
        return 'extract_send_result'
    from rules import m_pred
    cands = X.find_conds(f, m_pred('ExitCode::is_success', [], True))
    for (c, arm) in cands:
        if arm not in c.arms:
            continue
        if s.c.target is None or c.bb not in f.reach([s.c.target]):
            continue
        if not f.ok_returns_from([s.c.target], removed=[X.edge(c, arm)]):
            return 'is_success'
    return None


def exit_code_rule(X, rep, sends, tolerated, rule='K8'):
    """one obligation per send site in `sends`: the callee's exit code is inspected (see exit_code_inspected);
    `tolerated`: {(fn id, method atom or None): reason} - frozen sites that interpret the raw response themselves"""
    n = 0
    for s in sends:
        f = s.c.fn
        why = None
        for (fid, meth), w in tolerated.items():
            if f.id == fid and (meth is None or has_atom(s.method, meth)):
                why = w
        key = '%s@%s' % (f.id.split('::', 1)[1] if '::' in f.id else f.id, ','.join(x for x in pretty(s.method) if x.startswith('K:')) or 'dynamic')
        n += 1
        if why is not None:
            rep.need(rule, 'send-exit-code-raw:' + key, True, 'frozen site that interprets the raw response itself (%s)' % why, s.c.where)
            continue
        how = exit_code_inspected(X, s)
        rep.need(rule, 'send-exit-code-inspected:' + key, how is not None,
                 'a send returns Ok(Response) when the callee aborts; the response must go through extract_send_result or an is_success() check before the sender can succeed (%s)' % (how or 'neither found'),
                 s.c.where, {'rule': rule, 'fn': f.id, 'method': pretty(s.method), 'how': how})
    return n
