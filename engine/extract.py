#!/usr/bin/env python3
"""Run engine A (ba-facts) over /repo's current working tree and return the fact directory.

usage: extract.py <config>      config in {quick, nofilactor, testing, full}
prints the fact directory on the last stdout line.

Fact sets are content-addressed by a hash of every *.rs / Cargo.toml / Cargo.lock under /repo (outside target/),
so all checks of one tree share one extraction, and any source edit forces a new one. Cargo replays cached output and
skips the wrapper on a warm target dir, so the workspace members' fingerprints are deleted before every extraction;
afterwards every expected crate must have written a fact file carrying this run's nonce.
"""
import hashlib, json, os, subprocess, sys, time, fcntl, shutil, glob

REPO = os.environ.get('BA_REPO', '/repo')
VERIF = os.path.dirname(os.path.dirname(os.path.abspath(__file__)))
CACHE = os.environ.get('VERIF_CACHE_DIR', os.path.join(VERIF, '.cache'))
DRIVER = os.path.join(VERIF, 'engine', 'ba-facts', 'target', 'release', 'ba-facts')

ACTOR_CRATES = ['fil_actor_account', 'fil_actor_cron', 'fil_actor_datacap', 'fil_actor_eam', 'fil_actor_ethaccount',
                'fil_actor_evm', 'fil_actor_init', 'fil_actor_market', 'fil_actor_miner', 'fil_actor_multisig',
                'fil_actor_paych', 'fil_actor_placeholder', 'fil_actor_power', 'fil_actor_reward', 'fil_actor_system',
                'fil_actor_verifreg', 'fil_actors_evm_shared', 'fil_actors_runtime']
AUX_CRATES = ['fil_builtin_actors_state', 'vm_api', 'test_vm', 'fil_actors_integration_tests']

CONFIGS = {
    # host target, fil-actor on (fvm.rs trampoline in scope), default policy features
    'quick': {'features': ['fil_actors_runtime/fil-actor'], 'exclude': ['fil_builtin_actors_bundle'] + AUX_CRATES,
              'expect': ACTOR_CRATES},
    'nofilactor': {'features': [], 'exclude': ['fil_builtin_actors_bundle'] + AUX_CRATES, 'expect': ACTOR_CRATES},
    'testing': {'features': ['fil_actors_runtime/fil-actor', 'fil_actors_runtime/sector-2k', 'fil_actors_runtime/small-deals',
                             'fil_actors_runtime/short-precommit', 'fil_actors_runtime/min-power-2k'],
                'exclude': ['fil_builtin_actors_bundle'] + AUX_CRATES, 'expect': ACTOR_CRATES},
    'full': {'features': ['fil_actors_runtime/fil-actor'], 'exclude': ['fil_builtin_actors_bundle'],
             'expect': ACTOR_CRATES + AUX_CRATES},
}


def tree_hash():
    h = hashlib.sha256()
    files = []
    for root, dirs, fs in os.walk(REPO):
        dirs[:] = [d for d in dirs if d not in ('target', '.git', 'output', 'node_modules')]
        for f in fs:
            if f.endswith('.rs') or f in ('Cargo.toml', 'Cargo.lock', 'rust-toolchain.toml') or f.endswith('.toml') and root.endswith('.cargo'):
                files.append(os.path.join(root, f))
    files.sort()
    for p in files:
        h.update(os.path.relpath(p, REPO).encode())
        h.update(b'\0')
        with open(p, 'rb') as fh:
            h.update(fh.read())
        h.update(b'\0')
    # the extractor itself is part of the key
    try:
        with open(os.path.join(VERIF, 'engine', 'ba-facts', 'src', 'main.rs'), 'rb') as fh:
            h.update(fh.read())
    except OSError:
        pass
    return h.hexdigest()[:16], len(files)


def sysroot():
    return subprocess.check_output(['rustc', '+nightly', '--print', 'sysroot'], cwd=VERIF, text=True).strip()


def complete(fdir, expect):
    marker = os.path.join(fdir, '.complete')
    if not os.path.exists(marker):
        return False
    return all(os.path.exists(os.path.join(fdir, c + '.json')) for c in expect)


def sha_file(p):
    try:
        with open(p, 'rb') as fh:
            return hashlib.sha256(fh.read()).hexdigest()
    except OSError:
        return None


def head_info(fp):
    """(crate, nonce, srcs) from the head of a fact file without parsing all of it"""
    with open(fp) as fh:
        head = fh.read(1 << 16)
    i = head.find('"fns":')
    if i < 0:
        with open(fp) as fh:
            d = json.load(fh)
        return d['crate'], d['nonce'], d.get('srcs', [])
    d = json.loads(head[:i].rstrip().rstrip(',') + '}')
    return d['crate'], d['nonce'], d.get('srcs', [])


def member_fingerprints(target, only=None):
    out = []
    for fp in glob.glob(os.path.join(target, 'debug', '.fingerprint', '*')):
        base = os.path.basename(fp)
        name = base.rsplit('-', 1)[0].replace('-', '_')
        if name.startswith('fil_actor') or name in ('fil_builtin_actors_state', 'vm_api', 'test_vm', 'export_macro',
                                                    'fil_actors_integration_tests', 'fil_builtin_actors_bundle'):
            if only is None or name in only:
                out.append(fp)
    return out


def run_cargo(cfg, target, latest, nonce):
    env = dict(os.environ)
    env.update({
        'LD_LIBRARY_PATH': sysroot() + '/lib' + (':' + env['LD_LIBRARY_PATH'] if env.get('LD_LIBRARY_PATH') else ''),
        'RUSTFLAGS': '-Zmir-opt-level=0 -Awarnings',
        'RUSTC_WORKSPACE_WRAPPER': DRIVER,
        'BA_FACTS_DIR': latest,
        'BA_FACTS_NONCE': nonce,
        'CARGO_TARGET_DIR': target,
        'CARGO_NET_OFFLINE': 'true',
    })
    env.pop('RUSTC_WRAPPER', None)
    cmd = ['cargo', '+nightly', 'check', '--offline', '--workspace', '--lib', '-q']
    for x in cfg['exclude']:
        cmd += ['--exclude', x]
    if cfg['features']:
        cmd += ['--features', ','.join(cfg['features'])]
    return subprocess.run(cmd, cwd=REPO, env=env, stdout=subprocess.PIPE, stderr=subprocess.STDOUT, text=True)


def main():
    cfgname = sys.argv[1] if len(sys.argv) > 1 else 'quick'
    cfg = CONFIGS[cfgname]
    t0 = time.time()
    th, nfiles = tree_hash()
    os.makedirs(os.path.join(CACHE, 'facts'), exist_ok=True)
    fdir = os.path.join(CACHE, 'facts', '%s-%s' % (th, cfgname))
    lock = open(os.path.join(CACHE, 'extract-%s.lock' % cfgname), 'w')
    fcntl.flock(lock, fcntl.LOCK_EX)
    try:
        if complete(fdir, cfg['expect']) and os.environ.get('BA_FORCE_EXTRACT') != '1':
            print('extract: reuse %s (tree %s, %d source files)' % (fdir, th, nfiles))
            print('BA_EXTRACT_S=0')
            print(fdir)
            return 0
        if not os.path.exists(DRIVER):
            print('extract: driver not built (%s); run setup_cmd' % DRIVER)
            return 2
        target = os.path.join(CACHE, 'target-%s' % cfgname)
        latest = os.path.join(target, 'ba-latest')
        os.makedirs(latest, exist_ok=True)
        # Cargo skips the wrapper for crates it considers fresh. That is sound only while the fact file of such a crate
        # was produced by *this* driver from *these* sources; both are verified here, independently of cargo's mtimes.
        drv = sha_file(DRIVER)
        stamp = os.path.join(latest, '.driver')
        old = open(stamp).read() if os.path.exists(stamp) else ''
        if old != drv or os.environ.get('BA_FORCE_EXTRACT') == '1':
            for fp in member_fingerprints(target):
                shutil.rmtree(fp, ignore_errors=True)
            for f in glob.glob(os.path.join(latest, '*')):
                os.remove(f)
            with open(stamp, 'w') as fh:
                fh.write(drv)
        nonce = '%s-%d' % (th, int(time.time() * 1000))
        ran = []
        for attempt in (1, 2):
            p = run_cargo(cfg, target, latest, nonce)
            if p.returncode != 0:
                print(p.stdout[-6000:])
                print('extract: cargo check failed (exit %d): the current tree does not compile in configuration %s' % (p.returncode, cfgname))
                return 2
            stale = []
            for c in cfg['expect']:
                fp = os.path.join(latest, c + '.json')
                side = os.path.join(latest, c + '.srcs')
                if not os.path.exists(fp):
                    stale.append(c)
                    continue
                _cr, n, srcs = head_info(fp)
                cur = {sp: sha_file(os.path.join(REPO, sp) if not os.path.isabs(sp) else sp) for sp in srcs}
                if n == nonce:
                    with open(side, 'w') as fh:
                        json.dump(cur, fh)
                    if c not in ran:
                        ran.append(c)
                else:
                    try:
                        rec = json.load(open(side))
                    except Exception:
                        rec = None
                    if rec != cur or not srcs:
                        stale.append(c)
            if not stale:
                break
            if attempt == 2:
                print('extract: no fresh fact file for crates: %s' % stale)
                return 2
            for fp in member_fingerprints(target, only=set(stale)):
                shutil.rmtree(fp, ignore_errors=True)
        shutil.rmtree(fdir, ignore_errors=True)
        os.makedirs(fdir)
        for f in glob.glob(os.path.join(latest, '*.json')):
            try:
                os.link(f, os.path.join(fdir, os.path.basename(f)))
            except OSError:
                shutil.copy(f, os.path.join(fdir, os.path.basename(f)))
        # the driver writes via rename, so a later extraction never modifies a hard-linked older fact file
        with open(os.path.join(fdir, '.complete'), 'w') as fh:
            fh.write(nonce)
        ds = sorted(glob.glob(os.path.join(CACHE, 'facts', '*-*')), key=os.path.getmtime)
        for d in ds[:-8]:
            shutil.rmtree(d, ignore_errors=True)
        dt = time.time() - t0
        print('extract: %s config=%s tree=%s files=%d in %.1fs (re-analysed %d crate(s): %s)' % (fdir, cfgname, th, nfiles, dt, len(ran), ','.join(x.replace('fil_actor_', '') for x in ran)))
        print('BA_EXTRACT_S=%.1f' % dt)
        print(fdir)
        return 0
    finally:
        fcntl.flock(lock, fcntl.LOCK_UN)


if __name__ == '__main__':
    sys.exit(main())
