// ba-facts: rustc_private driver that dumps, for every body of a workspace crate, the MIR facts
// the rule engine (engine/rules) needs. It judges nothing.
//
// Usage: RUSTC_WORKSPACE_WRAPPER=<this> BA_FACTS_DIR=<dir> BA_FACTS_NONCE=<n> cargo +nightly check ...
#![feature(rustc_private)]
#![allow(clippy::all)]

extern crate rustc_abi;
extern crate rustc_data_structures;
extern crate rustc_driver;
extern crate rustc_hir;
extern crate rustc_interface;
extern crate rustc_middle;
extern crate rustc_session;
extern crate rustc_span;

use rustc_hir::def::DefKind;
use rustc_hir::def_id::{DefId, LOCAL_CRATE};
use rustc_middle::mir::{
    self, AggregateKind, BasicBlock, Body, BorrowKind, Const, Operand, Place, PlaceElem, Rvalue,
    StatementKind, TerminatorKind, UnwindAction,
};
use rustc_middle::ty::print::{with_no_trimmed_paths, with_no_visible_paths};
use rustc_middle::ty::{self, GenericArgKind, GenericArgsRef, Instance, Ty, TyCtxt, TypingEnv};
use rustc_span::Span;
use std::fmt::Write as _;

// ---------------------------------------------------------------- tiny JSON
enum J {
    Null,
    B(bool),
    I(i128),
    U(u128),
    S(String),
    A(Vec<J>),
    O(Vec<(&'static str, J)>),
}
fn s<T: Into<String>>(x: T) -> J {
    J::S(x.into())
}
fn esc(out: &mut String, x: &str) {
    out.push('"');
    for c in x.chars() {
        match c {
            '"' => out.push_str("\\\""),
            '\\' => out.push_str("\\\\"),
            '\n' => out.push_str("\\n"),
            '\r' => out.push_str("\\r"),
            '\t' => out.push_str("\\t"),
            c if (c as u32) < 0x20 => {
                let _ = write!(out, "\\u{:04x}", c as u32);
            }
            c => out.push(c),
        }
    }
    out.push('"');
}
impl J {
    fn write(&self, out: &mut String) {
        match self {
            J::Null => out.push_str("null"),
            J::B(b) => out.push_str(if *b { "true" } else { "false" }),
            J::I(i) => {
                let _ = write!(out, "{}", i);
            }
            J::U(i) => {
                let _ = write!(out, "{}", i);
            }
            J::S(x) => esc(out, x),
            J::A(v) => {
                out.push('[');
                for (i, x) in v.iter().enumerate() {
                    if i > 0 {
                        out.push(',');
                    }
                    x.write(out);
                }
                out.push(']');
            }
            J::O(v) => {
                out.push('{');
                for (i, (k, x)) in v.iter().enumerate() {
                    if i > 0 {
                        out.push(',');
                    }
                    esc(out, k);
                    out.push(':');
                    x.write(out);
                }
                out.push('}');
            }
        }
    }
}

// ---------------------------------------------------------------- helpers
struct Cx<'tcx> {
    tcx: TyCtxt<'tcx>,
    krate: String,
}

impl<'tcx> Cx<'tcx> {
    fn path(&self, did: DefId) -> String {
        let p = with_no_visible_paths!(with_no_trimmed_paths!(self.tcx.def_path_str(did)));
        if did.is_local() { format!("{}::{}", self.krate, p) } else { p }
    }
    fn ty_str(&self, ty: Ty<'tcx>) -> String {
        with_no_visible_paths!(with_no_trimmed_paths!(ty.to_string()))
    }
    fn loc(&self, span: Span) -> (String, usize, bool) {
        let exp = span.from_expansion();
        let sp = span.source_callsite();
        let sm = self.tcx.sess.source_map();
        let pos = sm.lookup_char_pos(sp.lo());
        let name = match &pos.file.name {
            rustc_span::FileName::Real(r) => match r.local_path() {
                Some(p) => p.to_string_lossy().to_string(),
                None => format!("{:?}", r),
            },
            other => format!("{:?}", other),
        };
        (name, pos.line, exp)
    }
    fn line(&self, span: Span) -> J {
        let sp = span.source_callsite();
        let sm = self.tcx.sess.source_map();
        J::I(sm.lookup_char_pos(sp.lo()).line as i128)
    }

    // ADT path of a type after peeling references / boxes
    fn adt_of(&self, ty: Ty<'tcx>) -> J {
        let mut t = ty;
        loop {
            match t.kind() {
                ty::Ref(_, inner, _) => t = *inner,
                ty::RawPtr(inner, _) => t = *inner,
                ty::Adt(def, _) => return s(self.path(def.did())),
                ty::Closure(did, _) => return s(format!("closure:{}", self.path(*did))),
                ty::Param(p) => return s(format!("param:{}", p.name)),
                _ => return J::Null,
            }
        }
    }

    // all closure / fndef types mentioned inside a type
    fn walk_ty(&self, ty: Ty<'tcx>, cl: &mut Vec<String>, fd: &mut Vec<String>) {
        for a in ty.walk() {
            if let GenericArgKind::Type(t) = a.kind() {
                match t.kind() {
                    ty::Closure(did, _) => {
                        let p = self.path(*did);
                        if !cl.contains(&p) {
                            cl.push(p)
                        }
                    }
                    ty::FnDef(did, _) => {
                        let p = self.path(*did);
                        if !fd.contains(&p) {
                            fd.push(p)
                        }
                    }
                    _ => {}
                }
            }
        }
    }

    fn gargs(
        &self,
        args: GenericArgsRef<'tcx>,
        env: TypingEnv<'tcx>,
        cl: &mut Vec<String>,
        fd: &mut Vec<String>,
    ) -> J {
        let mut v = vec![];
        for a in args.iter() {
            match a.kind() {
                GenericArgKind::Lifetime(_) => {}
                GenericArgKind::Type(t) => {
                    self.walk_ty(t, cl, fd);
                    v.push(J::O(vec![("t", s(self.ty_str(t))), ("adt", self.adt_of(t))]));
                }
                GenericArgKind::Const(c) => {
                    let val = match c.try_to_leaf() {
                        Some(si) => J::U(si.to_bits_unchecked()),
                        None => J::Null,
                    };
                    let _ = env;
                    v.push(J::O(vec![("c", val), ("s", s(format!("{:?}", c)))]));
                }
            }
        }
        J::A(v)
    }

    fn place(&self, body: &Body<'tcx>, p: Place<'tcx>) -> J {
        let mut proj = vec![];
        let mut pty = mir::PlaceTy::from_ty(body.local_decls[p.local].ty);
        for elem in p.projection.iter() {
            let j = match elem {
                PlaceElem::Deref => s("*"),
                PlaceElem::Field(fidx, _fty) => {
                    let (owner, name) = match pty.ty.kind() {
                        ty::Adt(def, _) => {
                            let vidx = pty.variant_index.unwrap_or(rustc_abi::FIRST_VARIANT);
                            let var = def.variant(vidx);
                            let fname = var.fields[fidx].name.to_string();
                            let owner = if def.is_enum() {
                                format!("{}::{}", self.path(def.did()), var.name)
                            } else {
                                self.path(def.did())
                            };
                            (owner, fname)
                        }
                        ty::Closure(did, _) => {
                            (format!("closure:{}", self.path(*did)), format!("{}", fidx.as_usize()))
                        }
                        ty::Tuple(_) => ("tuple".to_string(), format!("{}", fidx.as_usize())),
                        _ => ("?".to_string(), format!("{}", fidx.as_usize())),
                    };
                    J::A(vec![s("f"), J::I(fidx.as_usize() as i128), s(owner), s(name)])
                }
                PlaceElem::Index(l) => J::A(vec![s("i"), J::I(l.as_usize() as i128)]),
                PlaceElem::ConstantIndex { offset, from_end, .. } => {
                    J::A(vec![s("ci"), J::I(offset as i128), J::B(from_end)])
                }
                PlaceElem::Subslice { .. } => J::A(vec![s("sub")]),
                PlaceElem::Downcast(name, vidx) => J::A(vec![
                    s("dc"),
                    match name {
                        Some(n) => s(n.to_string()),
                        None => J::Null,
                    },
                    J::I(vidx.as_usize() as i128),
                ]),
                PlaceElem::OpaqueCast(_) => J::A(vec![s("oc")]),
                PlaceElem::UnwrapUnsafeBinder(_) => J::A(vec![s("ub")]),
            };
            proj.push(j);
            pty = pty.projection_ty(self.tcx, elem);
        }
        J::A(vec![J::I(p.local.as_usize() as i128), J::A(proj)])
    }

    fn konst(&self, body_env: TypingEnv<'tcx>, c: &mir::ConstOperand<'tcx>) -> J {
        let ty = c.const_.ty();
        let mut o: Vec<(&'static str, J)> = vec![("ty", s(self.ty_str(ty)))];
        match ty.kind() {
            ty::FnDef(did, args) => {
                o.push(("fn", s(self.path(*did))));
                let mut cl = vec![];
                let mut fd = vec![];
                o.push(("ga", self.gargs(args, body_env, &mut cl, &mut fd)));
                if let Ok(Some(inst)) = Instance::try_resolve(self.tcx, body_env, *did, args) {
                    o.push(("res", s(self.path(inst.def_id()))));
                }
            }
            ty::Closure(did, _) => {
                o.push(("closure", s(self.path(*did))));
            }
            _ => {}
        }
        match c.const_ {
            Const::Unevaluated(uv, _) => {
                o.push(("def", s(self.path(uv.def))));
                if let Some(p) = uv.promoted {
                    o.push(("promoted", J::I(p.as_usize() as i128)));
                }
            }
            Const::Val(..) | Const::Ty(..) => {}
        }
        let is_scalar = ty.is_integral() || ty.is_bool() || ty.is_char();
        if is_scalar {
            let has_params = {
                use rustc_middle::ty::TypeVisitableExt;
                c.const_.has_param()
            };
            if !has_params {
                if let Some(si) = c.const_.try_eval_scalar_int(self.tcx, body_env) {
                    if ty.is_signed() {
                        let size = si.size();
                        o.push(("val", J::I(si.to_int(size))));
                    } else {
                        o.push(("val", J::U(si.to_bits_unchecked())));
                    }
                }
            }
        } else if let Const::Val(mir::ConstValue::Slice { .. }, _) = c.const_ {
            if ty.peel_refs().is_str() {
                let mut d = format!("{}", c.const_);
                d.truncate(120);
                o.push(("str", s(d)));
            }
        }
        J::A(vec![s("k"), J::O(o)])
    }

    fn operand(&self, body: &Body<'tcx>, env: TypingEnv<'tcx>, op: &Operand<'tcx>) -> J {
        match op {
            Operand::Copy(p) => J::A(vec![s("c"), self.place(body, *p)]),
            Operand::Move(p) => J::A(vec![s("m"), self.place(body, *p)]),
            Operand::Constant(c) => self.konst(env, c),
            Operand::RuntimeChecks(_) => J::A(vec![s("k"), J::O(vec![("ty", s("bool")), ("rtc", J::B(true))])]),
        }
    }

    fn rvalue(&self, body: &Body<'tcx>, env: TypingEnv<'tcx>, rv: &Rvalue<'tcx>) -> J {
        match rv {
            Rvalue::Use(op, _) => J::A(vec![s("use"), self.operand(body, env, op)]),
            Rvalue::Repeat(op, n) => {
                J::A(vec![s("repeat"), self.operand(body, env, op), s(format!("{:?}", n))])
            }
            Rvalue::Ref(_, bk, p) => {
                let k = match bk {
                    BorrowKind::Shared => "shared",
                    BorrowKind::Fake(_) => "fake",
                    BorrowKind::Mut { .. } => "mut",
                };
                J::A(vec![s("ref"), s(k), self.place(body, *p)])
            }
            Rvalue::ThreadLocalRef(d) => J::A(vec![s("tls"), s(self.path(*d))]),
            Rvalue::RawPtr(k, p) => {
                J::A(vec![s("rawptr"), s(format!("{:?}", k)), self.place(body, *p)])
            }
            Rvalue::Cast(k, op, ty) => J::A(vec![
                s("cast"),
                s(format!("{:?}", k)),
                self.operand(body, env, op),
                s(self.ty_str(*ty)),
            ]),
            Rvalue::BinaryOp(op, ab) => J::A(vec![
                s("bin"),
                s(format!("{:?}", op)),
                self.operand(body, env, &ab.0),
                self.operand(body, env, &ab.1),
            ]),
            Rvalue::UnaryOp(op, a) => {
                J::A(vec![s("un"), s(format!("{:?}", op)), self.operand(body, env, a)])
            }
            Rvalue::Discriminant(p) => J::A(vec![s("discr"), self.place(body, *p)]),
            Rvalue::Aggregate(k, ops) => {
                let kj = match &**k {
                    AggregateKind::Array(_) => J::O(vec![("k", s("array"))]),
                    AggregateKind::Tuple => J::O(vec![("k", s("tuple"))]),
                    AggregateKind::Adt(did, vidx, _, _, _) => {
                        let def = self.tcx.adt_def(*did);
                        let var = def.variant(*vidx);
                        let fields: Vec<J> =
                            var.fields.iter().map(|f| s(f.name.to_string())).collect();
                        J::O(vec![
                            ("k", s("adt")),
                            ("adt", s(self.path(*did))),
                            ("variant", s(var.name.to_string())),
                            ("vidx", J::I(vidx.as_usize() as i128)),
                            ("fields", J::A(fields)),
                        ])
                    }
                    AggregateKind::Closure(did, _) => {
                        J::O(vec![("k", s("closure")), ("def", s(self.path(*did)))])
                    }
                    AggregateKind::Coroutine(did, _) | AggregateKind::CoroutineClosure(did, _) => {
                        J::O(vec![("k", s("coroutine")), ("def", s(self.path(*did)))])
                    }
                    AggregateKind::RawPtr(..) => J::O(vec![("k", s("rawptr"))]),
                };
                let opsj: Vec<J> = ops.iter().map(|o| self.operand(body, env, o)).collect();
                J::A(vec![s("agg"), kj, J::A(opsj)])
            }
            Rvalue::CopyForDeref(p) => J::A(vec![s("cfd"), self.place(body, *p)]),
            Rvalue::WrapUnsafeBinder(op, _) => J::A(vec![s("use"), self.operand(body, env, op)]),
        }
    }

    fn bb(&self, b: BasicBlock) -> J {
        J::I(b.as_usize() as i128)
    }
    fn unwind(&self, u: &UnwindAction) -> J {
        match u {
            UnwindAction::Cleanup(b) => self.bb(*b),
            _ => J::Null,
        }
    }

    fn body(
        &self,
        id: String,
        kind: &str,
        parent: Option<String>,
        promoted: Option<usize>,
        owner: DefId,
        body: &Body<'tcx>,
    ) -> J {
        let env = TypingEnv::post_analysis(self.tcx, owner);
        let (file, line, exp) = self.loc(body.span);
        let mut locals = vec![];
        for d in body.local_decls.iter() {
            locals.push(J::A(vec![s(self.ty_str(d.ty)), self.adt_of(d.ty)]));
        }
        let mut names = vec![];
        for vdi in body.var_debug_info.iter() {
            if let mir::VarDebugInfoContents::Place(p) = vdi.value {
                names.push(J::A(vec![s(vdi.name.to_string()), self.place(body, p)]));
            }
        }
        let mut blocks = vec![];
        for (_bb, data) in body.basic_blocks.iter_enumerated() {
            let mut stmts = vec![];
            for st in data.statements.iter() {
                match &st.kind {
                    StatementKind::Assign(b) => {
                        let (p, rv) = &**b;
                        stmts.push(J::A(vec![
                            s("="),
                            self.place(body, *p),
                            self.rvalue(body, env, rv),
                            self.line(st.source_info.span),
                        ]));
                    }
                    StatementKind::SetDiscriminant { place, variant_index } => {
                        stmts.push(J::A(vec![
                            s("sd"),
                            self.place(body, **place),
                            J::I(variant_index.as_usize() as i128),
                            self.line(st.source_info.span),
                        ]));
                    }
                    _ => {}
                }
            }
            let term = data.terminator();
            let tj = match &term.kind {
                TerminatorKind::Goto { target } => J::A(vec![s("goto"), self.bb(*target)]),
                TerminatorKind::SwitchInt { discr, targets } => {
                    let mut tv = vec![];
                    for (v, b) in targets.iter() {
                        tv.push(J::A(vec![J::U(v), self.bb(b)]));
                    }
                    J::A(vec![
                        s("switch"),
                        self.operand(body, env, discr),
                        J::A(tv),
                        self.bb(targets.otherwise()),
                    ])
                }
                TerminatorKind::UnwindResume => J::A(vec![s("resume")]),
                TerminatorKind::UnwindTerminate(_) => J::A(vec![s("abort")]),
                TerminatorKind::Return => J::A(vec![s("ret")]),
                TerminatorKind::Unreachable => J::A(vec![s("unreachable")]),
                TerminatorKind::Drop { place, target, unwind, .. } => J::A(vec![
                    s("drop"),
                    self.place(body, *place),
                    self.bb(*target),
                    self.unwind(unwind),
                ]),
                TerminatorKind::Call { func, args, destination, target, unwind, fn_span, .. } => {
                    let mut cl = vec![];
                    let mut fd = vec![];
                    let fj = match func.const_fn_def() {
                        Some((did, gargs)) => {
                            let mut o = vec![("def", s(self.path(did)))];
                            o.push(("ga", self.gargs(gargs, env, &mut cl, &mut fd)));
                            match Instance::try_resolve(self.tcx, env, did, gargs) {
                                Ok(Some(inst)) => {
                                    let rd = inst.def_id();
                                    if rd != did {
                                        o.push(("res", s(self.path(rd))));
                                    }
                                    if let ty::InstanceKind::Virtual(..) = inst.def {
                                        o.push(("virt", J::B(true)));
                                    }
                                }
                                _ => {
                                    o.push(("unres", J::B(true)));
                                }
                            }
                            if let Some(tr) = self.tcx.trait_of_assoc(did) {
                                o.push(("trait", s(self.path(tr))));
                            }
                            J::O(o)
                        }
                        None => J::O(vec![("ind", self.operand(body, env, func))]),
                    };
                    // closure / fn-item types among the argument operand types
                    for a in args.iter() {
                        let t = a.node.ty(&body.local_decls, self.tcx);
                        self.walk_ty(t, &mut cl, &mut fd);
                    }
                    let aj: Vec<J> =
                        args.iter().map(|a| self.operand(body, env, &a.node)).collect();
                    let (_f, l, e) = self.loc(*fn_span);
                    J::A(vec![
                        s("call"),
                        fj,
                        J::A(aj),
                        self.place(body, *destination),
                        match target {
                            Some(t) => self.bb(*t),
                            None => J::Null,
                        },
                        self.unwind(unwind),
                        J::I(l as i128),
                        J::B(e),
                        J::A(cl.into_iter().map(s).collect()),
                        J::A(fd.into_iter().map(s).collect()),
                    ])
                }
                TerminatorKind::TailCall { .. } => J::A(vec![s("tailcall")]),
                TerminatorKind::Assert { cond, expected, target, unwind, msg } => {
                    let mk = format!("{:?}", std::mem::discriminant(&**msg));
                    let _ = mk;
                    let kind = match &**msg {
                        mir::AssertKind::BoundsCheck { .. } => "bounds",
                        mir::AssertKind::Overflow(..) => "overflow",
                        mir::AssertKind::OverflowNeg(..) => "overflow_neg",
                        mir::AssertKind::DivisionByZero(..) => "div0",
                        mir::AssertKind::RemainderByZero(..) => "rem0",
                        _ => "other",
                    };
                    J::A(vec![
                        s("assert"),
                        self.operand(body, env, cond),
                        J::B(*expected),
                        self.bb(*target),
                        self.unwind(unwind),
                        s(kind),
                        self.line(term.source_info.span),
                    ])
                }
                TerminatorKind::Yield { .. } => J::A(vec![s("yield")]),
                TerminatorKind::CoroutineDrop => J::A(vec![s("cordrop")]),
                TerminatorKind::FalseEdge { real_target, .. } => {
                    J::A(vec![s("goto"), self.bb(*real_target)])
                }
                TerminatorKind::FalseUnwind { real_target, .. } => {
                    J::A(vec![s("goto"), self.bb(*real_target)])
                }
                TerminatorKind::InlineAsm { .. } => J::A(vec![s("asm")]),
            };
            blocks.push(J::O(vec![
                ("s", J::A(stmts)),
                ("t", tj),
                ("cleanup", J::B(data.is_cleanup)),
            ]));
        }
        let mut o = vec![
            ("id", s(id)),
            ("kind", s(kind)),
            ("file", s(file)),
            ("line", J::I(line as i128)),
            ("exp", J::B(exp)),
            ("nargs", J::I(body.arg_count as i128)),
            ("locals", J::A(locals)),
            ("names", J::A(names)),
            ("blocks", J::A(blocks)),
        ];
        if let Some(p) = parent {
            o.push(("parent", s(p)));
        }
        if let Some(p) = promoted {
            o.push(("promoted", J::I(p as i128)));
        }
        J::O(o)
    }
}

struct Cb;

impl rustc_driver::Callbacks for Cb {
    fn after_analysis<'tcx>(
        &mut self,
        _c: &rustc_interface::interface::Compiler,
        tcx: TyCtxt<'tcx>,
    ) -> rustc_driver::Compilation {
        let dir = match std::env::var("BA_FACTS_DIR") {
            Ok(d) => d,
            Err(_) => return rustc_driver::Compilation::Continue,
        };
        let krate = tcx.crate_name(LOCAL_CRATE).to_string();
        if krate.starts_with("build_script") {
            return rustc_driver::Compilation::Continue;
        }
        let nonce = std::env::var("BA_FACTS_NONCE").unwrap_or_default();
        let cx = Cx { tcx, krate: krate.clone() };
        let mut fns = vec![];
        let mut consts = vec![];
        for ldid in tcx.hir_body_owners() {
            let did = ldid.to_def_id();
            let kind = tcx.def_kind(did);
            match kind {
                DefKind::Fn | DefKind::AssocFn | DefKind::Closure => {
                    if tcx.is_constructor(did) {
                        continue;
                    }
                    // skip coroutines (none expected in actors)
                    if tcx.is_coroutine(did) {
                        continue;
                    }
                    let body = tcx.optimized_mir(did);
                    let id = cx.path(did);
                    let k = match kind {
                        DefKind::Fn => "fn",
                        DefKind::AssocFn => "assocfn",
                        _ => "closure",
                    };
                    let parent = if kind == DefKind::Closure {
                        Some(cx.path(tcx.parent(did)))
                    } else {
                        None
                    };
                    let mut bj = cx.body(id.clone(), k, parent, None, did, body);
                    // extra: impl self type / trait for assoc fns
                    if kind == DefKind::AssocFn {
                        if let J::O(ref mut o) = bj {
                            let p = tcx.parent(did);
                            if let DefKind::Impl { of_trait } = tcx.def_kind(p) {
                                let self_ty = tcx.type_of(p).instantiate_identity().skip_norm_wip();
                                o.push(("impl_self", s(cx.ty_str(self_ty))));
                                o.push(("impl_self_adt", cx.adt_of(self_ty)));
                                if of_trait {
                                    let tr = tcx.impl_trait_ref(p).instantiate_identity().skip_norm_wip();
                                    o.push(("impl_trait", s(cx.path(tr.def_id))));
                                }
                            }
                            let vis = tcx.visibility(did);
                            o.push(("pub", J::B(vis.is_public())));
                        }
                    }
                    fns.push(bj);
                    let proms = tcx.promoted_mir(did);
                    for (pi, pb) in proms.iter_enumerated() {
                        fns.push(cx.body(
                            format!("{}::promoted[{}]", id, pi.as_usize()),
                            "promoted",
                            Some(id.clone()),
                            Some(pi.as_usize()),
                            did,
                            pb,
                        ));
                    }
                }
                DefKind::Const { .. } | DefKind::AssocConst { .. } | DefKind::Static { .. } => {
                    let generics = tcx.generics_of(did);
                    if generics.count() != 0 || generics.parent.is_some() && tcx.generics_of(generics.parent.unwrap()).count() != 0 {
                        continue;
                    }
                    let ty = tcx.type_of(did).instantiate_identity().skip_norm_wip();
                    let id = cx.path(did);
                    let mut o = vec![("id", s(id.clone())), ("ty", s(cx.ty_str(ty)))];
                    if ty.is_integral() || ty.is_bool() {
                        if let Ok(cv) = tcx.const_eval_poly(did) {
                            if let Some(si) = cv.try_to_scalar_int() {
                                if ty.is_signed() {
                                    o.push(("val", J::I(si.to_int(si.size()))));
                                } else {
                                    o.push(("val", J::U(si.to_bits_unchecked())));
                                }
                            }
                        }
                    }
                    consts.push(J::O(o));
                    // the initializer body, so that struct-valued constants can be inspected
                    let body = tcx.mir_for_ctfe(did);
                    fns.push(cx.body(id.clone(), "const", None, None, did, body));
                    let proms = tcx.promoted_mir(did);
                    for (pi, pb) in proms.iter_enumerated() {
                        fns.push(cx.body(
                            format!("{}::promoted[{}]", id, pi.as_usize()),
                            "promoted",
                            Some(id.clone()),
                            Some(pi.as_usize()),
                            did,
                            pb,
                        ));
                    }
                }
                _ => {}
            }
        }
        // ADTs
        let mut adts = vec![];
        for id in tcx.hir_free_items() {
            let did = id.owner_id.to_def_id();
            match tcx.def_kind(did) {
                DefKind::Struct | DefKind::Enum | DefKind::Union => {
                    let def = tcx.adt_def(did);
                    let mut vars = vec![];
                    let discrs: Vec<(rustc_abi::VariantIdx, u128)> = if def.is_enum() {
                        def.discriminants(tcx).map(|(i, d)| (i, d.val)).collect()
                    } else {
                        vec![]
                    };
                    for (vi, var) in def.variants().iter_enumerated() {
                        let mut fields = vec![];
                        for f in var.fields.iter() {
                            let fty = tcx.type_of(f.did).instantiate_identity().skip_norm_wip();
                            fields.push(J::A(vec![s(f.name.to_string()), s(cx.ty_str(fty))]));
                        }
                        let d = discrs.iter().find(|(i, _)| *i == vi).map(|(_, v)| *v);
                        vars.push(J::O(vec![
                            ("name", s(var.name.to_string())),
                            ("discr", match d { Some(v) => J::U(v), None => J::Null }),
                            ("fields", J::A(fields)),
                        ]));
                    }
                    adts.push(J::O(vec![
                        ("id", s(cx.path(did))),
                        ("kind", s(if def.is_enum() { "enum" } else { "struct" })),
                        ("variants", J::A(vars)),
                    ]));
                }
                _ => {}
            }
        }
        // source files of this crate as compiled (for the extractor's own freshness check)
        let mut srcs = vec![];
        for sf in tcx.sess.source_map().files().iter() {
            if let rustc_span::FileName::Real(r) = &sf.name {
                if let Some(p) = r.local_path() {
                    let ps = p.to_string_lossy().to_string();
                    if !ps.contains("/.cargo/") && !ps.contains("/rustlib/") && !ps.contains("/.rustup/") && sf.cnum == LOCAL_CRATE {
                        srcs.push(s(ps));
                    }
                }
            }
        }
        let root = J::O(vec![
            ("crate", s(krate.clone())),
            ("nonce", s(nonce)),
            ("srcs", J::A(srcs)),
            ("fns", J::A(fns)),
            ("consts", J::A(consts)),
            ("adts", J::A(adts)),
        ]);
        let mut out = String::with_capacity(1 << 24);
        root.write(&mut out);
        let tmp = format!("{}/.{}.{}.tmp", dir, krate, std::process::id());
        let fin = format!("{}/{}.json", dir, krate);
        std::fs::write(&tmp, out).expect("write facts");
        std::fs::rename(&tmp, &fin).expect("rename facts");
        rustc_driver::Compilation::Continue
    }
}

fn main() {
    let mut args: Vec<String> = std::env::args().collect();
    // RUSTC_WORKSPACE_WRAPPER: argv = [driver, rustc, args...]
    if args.len() > 1 && (args[1].ends_with("rustc") || args[1].contains("/rustc")) {
        args.remove(1);
    }
    rustc_driver::run_compiler(&args, &mut Cb);
}
