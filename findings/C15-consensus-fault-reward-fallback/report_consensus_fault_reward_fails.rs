// Demonstration for the C15 finding (not part of /repo): when the transfer of the reporter's reward fails, the
// whole penalty taken off the miner must still be burnt. Place under actors/miner/tests/ and run
//   cargo test -p fil_actor_miner --test report_consensus_fault_reward_fails --offline
// Fails on the pinned commit (burns penalty - reward, the reward stays with the miner); passes with the `fix:` commit.
use fil_actor_miner::{
    Actor, Method, ReportConsensusFaultParams, consensus_fault_penalty, reward_for_consensus_slash_report,
};
use fil_actors_runtime::reward::ThisEpochRewardReturn;
use fil_actors_runtime::test_utils::{ACCOUNT_ACTOR_CODE_ID, MockRuntime};
use fil_actors_runtime::{BURNT_FUNDS_ACTOR_ADDR, REWARD_ACTOR_ADDR};
use fvm_ipld_encoding::ipld_block::IpldBlock;
use fvm_shared::METHOD_SEND;
use fvm_shared::address::Address;
use fvm_shared::clock::ChainEpoch;
use fvm_shared::consensus::{ConsensusFault, ConsensusFaultType};
use fvm_shared::econ::TokenAmount;
use fvm_shared::error::ExitCode;
use num_traits::Zero;

mod util;
use util::*;

const PERIOD_OFFSET: ChainEpoch = 100;

#[test]
fn undeliverable_reporter_reward_is_burnt() {
    let h = ActorHarness::new(PERIOD_OFFSET);
    let rt: MockRuntime = h.new_runtime();
    rt.set_balance(BIG_BALANCE.clone());
    h.construct_and_verify(&rt);
    rt.set_epoch(10);
    let epoch = *rt.epoch.borrow();
    let reporter = Address::new_id(1234);

    rt.expect_validate_caller_any();
    rt.set_caller(*ACCOUNT_ACTOR_CODE_ID, reporter);
    let params = ReportConsensusFaultParams { header1: vec![], header2: vec![], header_extra: vec![] };
    rt.expect_verify_consensus_fault(
        params.header1.clone(),
        params.header2.clone(),
        params.header_extra.clone(),
        Some(ConsensusFault { target: rt.receiver, epoch: epoch - 1, fault_type: ConsensusFaultType::DoubleForkMining }),
        ExitCode::OK,
    );
    let current_reward = ThisEpochRewardReturn {
        this_epoch_baseline_power: h.baseline_power.clone(),
        this_epoch_reward_smoothed: h.epoch_reward_smooth.clone(),
    };
    rt.expect_send_simple(
        REWARD_ACTOR_ADDR,
        fil_actor_reward::Method::ThisEpochReward as u64,
        None,
        TokenAmount::zero(),
        IpldBlock::serialize_cbor(&current_reward).unwrap(),
        ExitCode::OK,
    );
    let this_epoch_reward = TokenAmount::from_atto(h.epoch_reward_smooth.estimate());
    let penalty_total = consensus_fault_penalty(this_epoch_reward.clone());
    let reward_total = reward_for_consensus_slash_report(&this_epoch_reward);
    assert!(reward_total.is_positive());
    // the transfer to the reporter FAILS (e.g. call-depth limit); the message must still succeed ...
    rt.expect_send_simple(reporter, METHOD_SEND, None, reward_total.clone(), None, ExitCode::USR_FORBIDDEN);
    // ... and everything that was taken from the miner must be burnt, nothing may stay with the miner
    rt.expect_send_simple(BURNT_FUNDS_ACTOR_ADDR, METHOD_SEND, None, penalty_total.clone(), None, ExitCode::OK);

    rt.call::<Actor>(Method::ReportConsensusFault as u64, IpldBlock::serialize_cbor(&params).unwrap()).unwrap();
    rt.verify();
}
