// C10 finding: the claims a sector declaration lists are validated against the new expiration of *that* declaration, but the
// resulting table is keyed by sector for the whole message. A second declaration of the same message naming the sector in
// its plain `sectors` bitfield with a later expiration was therefore applied without any comparison with the claims'
// maximum terms. A sector may be named by one declaration only.

use fil_actor_market::ActivatedDeal;
use fil_actor_miner::ext::verifreg::Claim as FILPlusClaim;
use fil_actor_miner::{
    ExpirationExtension2, ExtendSectorExpiration2Params, SectorClaim, SectorOnChainInfo, State,
};
use fil_actors_runtime::DealWeight;
use fil_actors_runtime::{
    EPOCHS_IN_DAY,
    runtime::{Runtime, RuntimePolicy},
    test_utils::{MockRuntime, expect_abort_contains_message, make_piece_cid},
};
use fvm_ipld_bitfield::BitField;
use fvm_shared::deal::DealID;
use fvm_shared::{
    ActorID,
    address::Address,
    clock::ChainEpoch,
    error::ExitCode,
    sector::{RegisteredSealProof, SectorNumber},
};
use std::collections::HashMap;

mod util;
use util::*;

const DEFAULT_SECTOR_EXPIRATION: ChainEpoch = 220;

fn setup() -> (ActorHarness, MockRuntime) {
    let period_offset = 100;
    let precommit_epoch = 1;

    let mut h = ActorHarness::new(period_offset);
    h.set_proof_type(RegisteredSealProof::StackedDRG512MiBV1);
    let rt = h.new_runtime();
    rt.balance.replace(BIG_BALANCE.clone());
    rt.set_epoch(precommit_epoch);

    (h, rt)
}

fn commit_sector_verified_deals(
    verified_deals: &[ActivatedDeal],
    h: &mut ActorHarness,
    rt: &MockRuntime,
) -> SectorOnChainInfo {
    h.construct_and_verify(rt);
    let mut pcc = ProveCommitConfig::empty();
    pcc.add_activated_deals(h.next_sector_no, verified_deals.to_owned());
    let deal_ids: Vec<DealID> = (0..verified_deals.len() as u64).collect();
    h.commit_and_prove_sectors_with_cfgs(
        rt,
        1,
        DEFAULT_SECTOR_EXPIRATION as u64,
        vec![deal_ids],
        true,
        pcc,
    )[0]
    .clone()
}

fn make_claim(
    claim_id: u64,
    sector: &SectorOnChainInfo,
    client: ActorID,
    provider: ActorID,
    max_expiration: ChainEpoch,
    deal: &ActivatedDeal,
    term_min: ChainEpoch,
) -> FILPlusClaim {
    FILPlusClaim {
        provider,
        client,
        data: make_piece_cid(format!("piece for claim {}", claim_id).as_bytes()),
        size: deal.size,
        term_min,
        term_max: max_expiration - sector.activation,
        term_start: sector.activation,
        sector: sector.sector_number,
    }
}

fn verified_space(h: &ActorHarness, rt: &MockRuntime, sector_number: SectorNumber) -> DealWeight {
    let s = h.get_sector(rt, sector_number);
    s.verified_deal_weight / (s.expiration - s.power_base_epoch)
}

fn extension(
    deadline: u64,
    partition: u64,
    sector_number: SectorNumber,
    new_expiration: ChainEpoch,
    maintain_claims: Vec<u64>,
    drop_claims: Vec<u64>,
) -> ExtendSectorExpiration2Params {
    ExtendSectorExpiration2Params {
        extensions: vec![ExpirationExtension2 {
            deadline,
            partition,
            sectors: BitField::new(),
            new_expiration,
            sectors_with_claims: vec![SectorClaim { sector_number, maintain_claims, drop_claims }],
        }],
    }
}


#[test]
fn second_declaration_cannot_move_a_sector_past_its_claims_terms() {
    let (mut h, rt) = setup();
    let half = h.sector_size as u64 / 2;
    let verified_deals = vec![test_activated_deal(half, 1), test_activated_deal(half, 2)];
    let old_sector = commit_sector_verified_deals(&verified_deals, &mut h, &rt);
    h.advance_and_submit_posts(&rt, std::slice::from_ref(&old_sector));
    let state: State = rt.get_state();
    let (dl, part) = state.find_sector(rt.store(), old_sector.sector_number).unwrap();
    let e1 = old_sector.expiration + 10 * rt.policy().wpost_proving_period;
    let e2 = old_sector.expiration + 42 * rt.policy().wpost_proving_period;
    let provider = h.receiver.id().unwrap();
    let client = Address::new_id(3000).id().unwrap();
    let term_min = rt.policy().minimum_verified_allocation_term;
    // both claims allow an extension to e1 only
    let claim0 = make_claim(400, &old_sector, client, provider, e1, &verified_deals[0], term_min);
    let claim1 = make_claim(500, &old_sector, client, provider, e1, &verified_deals[1], term_min);
    let mut claims = HashMap::new();
    claims.insert(400, Ok(claim0));
    claims.insert(500, Ok(claim1));
    let mut bf = BitField::new();
    bf.set(old_sector.sector_number);
    let params = ExtendSectorExpiration2Params {
        extensions: vec![
            ExpirationExtension2 {
                deadline: dl,
                partition: part,
                sectors: BitField::new(),
                new_expiration: e1,
                sectors_with_claims: vec![SectorClaim {
                    sector_number: old_sector.sector_number,
                    maintain_claims: vec![400, 500],
                    drop_claims: vec![],
                }],
            },
            // the same sector again, without claims, to an expiration beyond both claims' maximum terms
            ExpirationExtension2 {
                deadline: dl,
                partition: part,
                sectors: bf,
                new_expiration: e2,
                sectors_with_claims: vec![],
            },
        ],
    };
    let res = h.extend_sectors2(&rt, params, claims);
    expect_abort_contains_message(ExitCode::USR_ILLEGAL_ARGUMENT, "more than one extension declaration", res);
    rt.reset();
    let s = h.get_sector(&rt, old_sector.sector_number);
    assert_eq!(old_sector.expiration, s.expiration);
}
