#!/usr/bin/env python3
"""import_seed.py <seed dir> <id> <property> <expect regex> <detected initially: yes|no> "<needs>" : copy a confirmed seeded change into /verif/seeded/<id>/"""
import json, os, shutil, sys
sd, sid, prop, expect, initially, needs = sys.argv[1:7]
extra_checks = sys.argv[7:]
dst = os.path.join('/verif/seeded', sid)
os.makedirs(dst, exist_ok=True)
conf = json.load(open(os.path.join(sd, 'confirm.json')))
assert conf['ok'], 'seed not confirmed: %s' % conf
for f in ('patch.diff', 'demo.diff'):
    shutil.copy(os.path.join(sd, f), os.path.join(dst, f))
if os.path.exists(os.path.join(sd, 'README.md')):
    shutil.copy(os.path.join(sd, 'README.md'), os.path.join(dst, 'AUTHOR_NOTES.md'))
meta = {
    'id': sid, 'property': prop,
    'origin': 'independent sub-agent given only the property text and a scratch worktree (nothing from /verif)',
    'needs_to_manifest': needs,
    'what_i_ran': ['tools/confirm_seed.sh <scratch worktree> <seed dir>: (1) patch applied, `cargo test --workspace --offline --no-fail-fast`: %d ok result lines, %d failed, %d tests passed; '
                   '(2) demo test with patch: exit %d (fails); (3) demo test without patch: exit %d (passes)' % (conf['suite_ok_lines'], conf['suite_failed_lines'], conf['tests_passed'], conf['demo_with_patch_rc'], conf['demo_without_patch_rc']),
                   'tools/seedcheck.py patch.diff %s: ./check quick on /repo with the patch applied, then `git -C /repo checkout -- .`' % ' '.join([prop] + extra_checks)],
    'confirmation': conf,
    'detected_by_checks': [prop] + extra_checks,
    'detected_before_strengthening': initially == 'yes',
    'expect_regex': expect,
}
json.dump(meta, open(os.path.join(dst, 'meta.json'), 'w'), indent=1)
print('imported', dst)
