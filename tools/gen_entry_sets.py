#!/usr/bin/env python3
"""Freeze, for every writer-set (K4) and caller-set (K5) row, the exported methods that reach a site and the number of sites
on the current (pinned, reviewed) tree -> tables/entry_sets.json. Run deliberately, never by a check."""
import glob, importlib, json, os, sys
os.environ['BA_FREEZE_ENTRY_SETS'] = '1'
V = os.path.dirname(os.path.dirname(os.path.abspath(__file__)))
sys.path.insert(0, os.path.join(V, 'engine', 'rules'))
import core, rules
from report import Report
import subprocess
fdir = subprocess.run([sys.executable, os.path.join(V, 'engine', 'extract.py'), 'quick'], stdout=subprocess.PIPE, text=True).stdout.strip().splitlines()[-1]
assert subprocess.run('git -C /repo status --porcelain --untracked-files=no', shell=True, stdout=subprocess.PIPE, text=True).stdout.strip() == '', '/repo must be clean (pinned tree) when freezing'
prog = core.Program(fdir)
prog.slicer = core.Slicer(prog)
prog.narrow = core.Slicer(prog, narrow=True)
for i in range(1, 21):
    pid = 'C%02d' % i
    mod = importlib.import_module('props.' + pid.lower())
    rep = Report(pid, 'quick', 'other')
    rep.config = 'quick'
    mod.run(prog, rep, 'quick', 'quick')
json.dump({'comment': 'frozen on the pinned tree by tools/gen_entry_sets.py: exported methods reaching a write / call site of each K4/K5 row, and the number of sites', 'rows': dict(sorted(rules.FREEZE.items()))},
          open(os.path.join(V, 'tables', 'entry_sets.json'), 'w'), indent=1)
print('rows:', len(rules.FREEZE))
json.dump({'comment': 'frozen on the pinned tree by tools/gen_entry_sets.py: per crate and callee, the reviewed places where a failing call is tolerated (the caller can still succeed)', 'crates': {k: dict(sorted(v.items())) for k, v in sorted(rules.FREEZE_TOL.items())}},
          open(os.path.join(V, 'tables', 'tolerated_failures.json'), 'w'), indent=1)
json.dump({'comment': 'frozen on the pinned tree by tools/gen_entry_sets.py: per crate, number of update sites of each state field named by a property (K16)', 'crates': {k: dict(sorted(v.items())) for k, v in sorted(rules.FREEZE_WS.items())}},
          open(os.path.join(V, 'tables', 'write_sites.json'), 'w'), indent=1)
print('tolerated-failure callees:', sum(len(v) for v in rules.FREEZE_TOL.values()))
