#!/usr/bin/env python3
"""seedcheck.py <patch.diff> <pid> [<pid>...]: apply a seeded change to /repo, run the quick checks, undo. Prints FAIL lines."""
import subprocess, sys
patch = sys.argv[1]
pids = sys.argv[2:]
def sh(c, **k): return subprocess.run(c, shell=True, stdout=subprocess.PIPE, stderr=subprocess.STDOUT, text=True, **k)
assert sh('git -C /repo status --porcelain --untracked-files=no').stdout.strip() == '', '/repo not clean'
a = sh('git -C /repo apply %s' % patch)
if a.returncode != 0:
    print('patch does not apply', a.stdout); sys.exit(2)
try:
    for pid in pids:
        r = sh('/verif/check %s quick' % pid, cwd='/verif')
        lines = [l for l in r.stdout.splitlines() if l.startswith('==') or 'FAIL' in l or l.startswith('VIOLATION') or l.startswith('KNOWN')]
        print('--- %s rc=%d' % (pid, r.returncode))
        for l in lines: print(l[:400])
finally:
    sh('git -C /repo checkout -- .')
