#!/usr/bin/env python3
"""seedcheck.py <patch.diff> <pid> [<pid>...]: apply a seeded change to a scratch copy of /repo (never to /repo), run the quick checks
against it, undo. Prints FAIL lines."""
import os, subprocess, sys
sys.path.insert(0, os.path.dirname(os.path.abspath(__file__)))
import scratch
patch = os.path.abspath(sys.argv[1])
pids = sys.argv[2:]
scratch.prepare()
a = scratch.apply(patch)
if a.returncode != 0:
    print('patch does not apply', a.stdout); sys.exit(2)
try:
    for pid in pids:
        r = subprocess.run('/verif/check %s quick' % pid, shell=True, cwd='/verif', env=scratch.env(), stdout=subprocess.PIPE, stderr=subprocess.STDOUT, text=True)
        lines = [l for l in r.stdout.splitlines() if l.startswith('==') or 'FAIL' in l or l.startswith('VIOLATION') or l.startswith('KNOWN') or l.strip().startswith('note:')]
        print('--- %s rc=%d' % (pid, r.returncode))
        for l in lines: print(l[:400])
finally:
    scratch.revert(patch)
