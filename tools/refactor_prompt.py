#!/usr/bin/env python3
"""Print the prompt given to a sub-agent that writes BEHAVIOUR-PRESERVING refactorings of the code behind one property
(used to test that the checks stay silent on code where the property still holds)."""
import json, sys
pid = sys.argv[1]
wt = sys.argv[2]
out = sys.argv[3]
n = sys.argv[4] if len(sys.argv) > 4 else "4"
for l in open('/verif/properties.jsonl'):
    p = json.loads(l)
    if p['id'] == pid:
        break
else:
    raise SystemExit("no such property")
print(f"""You are helping to evaluate a verification framework for the Rust repository filecoin-project/builtin-actors
(Filecoin's on-chain built-in actors). You have your own scratch git worktree of the repository at {wt}
(a detached checkout of the pinned commit). Work ONLY inside {wt} and write your deliverables to {out}/ (create it).
Do NOT read or write anything under /verif or /repo. There is no network; use `--offline` with cargo. Use at most 6 parallel jobs
(`-j 6`). DISK IS TIGHT: before ANY cargo command run `export CARGO_PROFILE_DEV_DEBUG=0 CARGO_PROFILE_TEST_DEBUG=0 CARGO_INCREMENTAL=0`
(in every shell invocation, e.g. prefix each command with it) so that build output stays small; never copy other target directories.
Never use `pkill`/`killall` on cargo or rustc (other jobs share this machine).

PROPERTY ({p['id']}): {p['title']}
Statement: {p['statement']}
Relevant files (starting points): {', '.join(p['anchors']['files'])}

TASK. Produce {n} independent, realistic, BEHAVIOUR-PRESERVING source changes (R1..R{n}) to the NON-TEST source code that implements the
property above (under actors/*/src, runtime/src) -- the kind of clean-up a maintainer would merge without a second thought and after
which the property above still holds exactly as before, for every input. Each change must touch code that actually matters for the
property (the checks, guards, ledger updates, sends, orderings that make it true), not unrelated code. Aim for variety, e.g.:
  - extract a few statements (including a check / guard) into a new private helper function or method and call it (with `?`);
  - inline a small private helper into its single caller;
  - re-spell a condition equivalently (`a >= b` as `!(a < b)` or `b <= a`; `if x {{ return Err }}` as a `match`; `if !ok {{ return Err(..) }}`
    vs `ok.then_some(()).ok_or_else(..)?`; early-return vs nested if/else);
  - hoist a sub-expression into a named local, rename locals / private functions, or reorder two statements that are independent;
  - replace a `for` loop by an iterator chain or vice versa, replace `+=` by `x = x + ..`/`&x + ..` where equivalent, `.clone()` placement;
  - add a log line, a comment, a debug assertion-free sanity `let`, a new read-only getter METHOD that validates its caller with
    `validate_immediate_caller_accept_any` and changes nothing;
  - move a guard earlier (never later) when that cannot change which calls succeed, or split a compound condition into two.
Requirements for each change separately:
 1. the workspace compiles and the EXISTING test suite passes completely
    (`cd {wt} && cargo test --workspace --offline -j 6 --no-fail-fast 2>&1 | grep -E "^test result|FAILED|failed|panicked"` shows no failures);
    to save time you may run only the affected crates' tests plus `-p fil_actors_integration_tests` while iterating, but run the whole
    suite once per final change;
 2. it is genuinely behaviour-preserving: same results, same errors (exit codes), same state, same messages sent in the same order, for
    every input. Explain in one paragraph why.
 3. it is small to medium (5-60 changed lines), stylistically plausible, does not edit tests, does not add cfg flags or dependencies.
DELIVERABLES in {out}/ :
  R1/patch.diff (git diff relative to the repo root, applies with `git apply` on the pinned commit), R1/README.md (what it does, why it
  preserves behaviour, which tests you ran and their result); the same for R2..R{n}.
When you are done, leave the worktree with NO source modifications applied (`git -C {wt} checkout -- . && git -C {wt} clean -fdq -e target`),
and reply with a short summary (one line per change).
""")
