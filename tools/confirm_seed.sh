#!/bin/bash
# confirm_seed.sh <worktree> <seed dir (contains patch.diff, demo.diff)> : independently confirm a seeded mutant:
#  (1) with patch: workspace compiles and the existing suite passes; (2) demo test fails with patch; (3) demo passes without.
# Writes <seed dir>/confirm.json. Leaves the worktree clean.
set -u
WT="$1"; SD="$2"
LOG="$SD/confirm.log"; : > "$LOG"
cd "$WT" || exit 2
git checkout -q -- . ; git clean -fdq -e target
export CARGO_NET_OFFLINE=true CARGO_PROFILE_DEV_DEBUG=0 CARGO_PROFILE_TEST_DEBUG=0 CARGO_INCREMENTAL=0
res() { echo "$1" >> "$LOG"; }
git apply "$SD/patch.diff" || { echo '{"ok":false,"why":"patch does not apply"}' > "$SD/confirm.json"; exit 1; }
res "== suite with patch"
cargo test --workspace --offline -j 8 --no-fail-fast > "$SD/suite_with_patch.log" 2>&1
SUITE_RC=$?
NOK=$(grep -c "^test result: ok" "$SD/suite_with_patch.log")
NFAIL=$(grep -c "^test result: FAILED" "$SD/suite_with_patch.log")
PASSED=$(grep "^test result:" "$SD/suite_with_patch.log" | sed -E 's/.* ([0-9]+) passed.*/\1/' | paste -sd+ | bc)
res "suite rc=$SUITE_RC ok_lines=$NOK failed_lines=$NFAIL passed=$PASSED"
# demo with patch
git apply "$SD/demo.diff" || { echo '{"ok":false,"why":"demo does not apply"}' > "$SD/confirm.json"; git checkout -q -- .; git clean -fdq -e target; exit 1; }
DEMOFILES=$(git status --porcelain | grep '^??' | awk '{print $2}')
res "demo files: $DEMOFILES"
run_demo() {
  local rc=0
  for f in $DEMOFILES; do
    case "$f" in
      */tests/*.rs) crate_dir=$(echo "$f" | sed -E 's#/tests/.*##'); name=$(basename "$f" .rs)
         pkg=$(grep -m1 '^name' "$crate_dir/Cargo.toml" | sed -E 's/name *= *"(.*)"/\1/')
         cargo test -p "$pkg" --test "$name" --offline -j 8 >> "$1" 2>&1 || rc=1 ;;
      *) ;;
    esac
  done
  return $rc
}
run_demo "$SD/demo_with_patch.log"; DEMO_WITH=$?
res "demo with patch rc=$DEMO_WITH"
# demo without patch
git apply -R "$SD/patch.diff"
run_demo "$SD/demo_without_patch.log"; DEMO_WITHOUT=$?
res "demo without patch rc=$DEMO_WITHOUT"
git checkout -q -- . ; git clean -fdq -e target
OK=false
if [ "$SUITE_RC" = 0 ] && [ "$NFAIL" = 0 ] && [ "$DEMO_WITH" != 0 ] && [ "$DEMO_WITHOUT" = 0 ]; then OK=true; fi
echo "{\"ok\":$OK,\"suite_rc\":$SUITE_RC,\"suite_ok_lines\":$NOK,\"suite_failed_lines\":$NFAIL,\"tests_passed\":${PASSED:-0},\"demo_with_patch_rc\":$DEMO_WITH,\"demo_without_patch_rc\":$DEMO_WITHOUT}" > "$SD/confirm.json"
cat "$SD/confirm.json"
