"""A persistent scratch copy of /repo (outside /repo and /verif) for trying patches against the checks without touching /repo:
the checks honour BA_REPO / VERIF_CACHE_DIR. `prepare()` re-syncs it with /repo's current working tree."""
import os, shutil, subprocess
ROOT = os.environ.get('BA_SCRATCH', '/tmp/ba-scratch')
SRC = os.path.join(ROOT, 'repo')
CACHE = os.path.join(ROOT, 'cache')
V = os.path.dirname(os.path.dirname(os.path.abspath(__file__)))


def env():
    e = dict(os.environ, BA_REPO=SRC, VERIF_CACHE_DIR=CACHE)
    # evidence / out files of scratch runs must not overwrite the real ones
    e['BA_SCRATCH_RUN'] = '1'
    return e


def prepare():
    os.makedirs(SRC, exist_ok=True)
    subprocess.run(['rsync', '-a', '--delete', '--exclude', '/target', '--exclude', '/.git', '--exclude', '/output', '/repo/', SRC + '/'], check=True)
    if not os.path.isdir(os.path.join(CACHE, 'target-quick')):
        os.makedirs(CACHE, exist_ok=True)
        warm = os.path.join(V, '.cache', 'target-quick')
        if os.path.isdir(warm):
            subprocess.run(['cp', '-a', warm, os.path.join(CACHE, 'target-quick')])
            shutil.rmtree(os.path.join(CACHE, 'target-quick', 'ba-latest'), ignore_errors=True)
    return SRC


def apply(patch):
    return subprocess.run(['git', 'apply', patch], cwd=SRC, stdout=subprocess.PIPE, stderr=subprocess.STDOUT, text=True)


def revert(patch):
    return subprocess.run(['git', 'apply', '-R', patch], cwd=SRC, stdout=subprocess.PIPE, stderr=subprocess.STDOUT, text=True)
