#!/usr/bin/env python3
"""rule_coverage.py [crate-substring]: which functions of the actor crates are never looked up as an anchor by any property
module (blind spots for mutation), largest first. Diagnostic only; decides nothing."""
import sys, os, importlib, glob
sys.path.insert(0, '/verif/engine/rules')
import core
from report import Report
touched = {}
_one = core.Program.one
_find = core.Program.find
def one(self, suffix, crate=None):
    f = _one(self, suffix, crate)
    touched.setdefault(f.id, set()).add(CUR[0])
    return f
def find(self, suffix, crate=None):
    r = _find(self, suffix, crate)
    for f in r:
        touched.setdefault(f.id, set()).add(CUR[0])
    return r
core.Program.one = one
core.Program.find = find
CUR = ['']
fdir = sorted(glob.glob('/verif/.cache/facts/*-quick'), key=os.path.getmtime)[-1]
prog = core.Program(fdir)
prog.slicer = core.Slicer(prog)
prog.narrow = core.Slicer(prog, narrow=True)
for p in ['c%02d' % i for i in range(1, 21) if i != 17]:
    CUR[0] = p.upper()
    mod = importlib.import_module('props.' + p)
    rep = Report(p.upper(), 'quick', 'other')
    rep.config = 'quick'
    try:
        mod.run(prog, rep, 'quick', 'quick')
    except Exception as e:
        print('ERR', p, e)
    # obligations carrying a fn in their evidence
    for o in rep.obligations:
        s = o.get('sample') or {}
        for k in ('fn', 'from'):
            if isinstance(s, dict) and s.get(k):
                touched.setdefault(s[k], set()).add(CUR[0])
sub = sys.argv[1] if len(sys.argv) > 1 else ''
rows = []
for f in prog.fns.values():
    if f.kind not in ('fn', 'assocfn'):
        continue
    if sub not in f.crate:
        continue
    if core.re.search(r'serde|__Visitor|Clone>::clone|Default>::default|::testing::|test_utils|fmt::|Serialize|Deserialize', f.id):
        continue
    fam = [f] + prog.closures_of(f.id)
    t = set()
    for g in fam:
        t |= touched.get(g.id, set())
    nb = sum(len(g.blocks) for g in fam)
    rows.append((nb, f.crate, f.id, f.file, f.line, sorted(t)))
rows.sort(reverse=True)
print('untouched functions (blocks incl. closures, crate, fn, file:line):')
for (nb, cr, fid, fl, ln, t) in rows:
    if not t and nb >= int(os.environ.get('MINB', '12')):
        print('%5d %-22s %s  %s:%s' % (nb, cr, fid, fl, ln))
print('touched: %d of %d' % (sum(1 for r in rows if r[5]), len(rows)))
