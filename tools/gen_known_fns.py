#!/usr/bin/env python3
"""Freeze the inventory of workspace function ids of the pinned tree -> tables/known_fns.json (see engine/rules/inline.py)."""
import json, os, subprocess, sys
V = os.path.dirname(os.path.dirname(os.path.abspath(__file__)))
sys.path.insert(0, os.path.join(V, 'engine', 'rules'))
import core
assert subprocess.run('git -C /repo status --porcelain --untracked-files=no', shell=True, stdout=subprocess.PIPE, text=True).stdout.strip() == '', '/repo must be clean (pinned tree) when freezing'
fns = {}
for cfg in ('quick', 'nofilactor', 'testing'):
    fdir = subprocess.run([sys.executable, os.path.join(V, 'engine', 'extract.py'), cfg], stdout=subprocess.PIPE, text=True).stdout.strip().splitlines()[-1]
    prog = core.Program(fdir)
    for f in prog.fns.values():
        if f.kind in ('fn', 'assocfn'):
            fns.setdefault(f.id, core.fingerprint(f))
json.dump({'comment': 'function ids of the pinned tree (all three analysed configurations); a function not listed here is new and may be inlined into its callers when a row fails (inline.py)',
           'fns': dict(sorted(fns.items()))}, open(os.path.join(V, 'tables', 'known_fns.json'), 'w'), indent=0)
print('functions:', len(fns))
