#!/usr/bin/env python3
"""Print the prompt given to a mutant-seeding sub-agent for one property (text of the property only)."""
import json, sys
pid = sys.argv[1]
wt = sys.argv[2]
out = sys.argv[3]
hint = sys.argv[4] if len(sys.argv) > 4 else ""
for l in open('/verif/properties.jsonl'):
    p = json.loads(l)
    if p['id'] == pid:
        break
else:
    raise SystemExit("no such property")
print(f"""You are helping to evaluate a verification framework for the Rust repository filecoin-project/builtin-actors
(Filecoin's on-chain built-in actors). You have your own scratch git worktree of the repository at {wt}
(a detached checkout of the pinned commit). Work ONLY inside {wt} and write your deliverables to {out}/ (create it).
Do NOT read or write anything under /verif or /repo. There is no network; use `--offline` with cargo. Use at most 6 parallel jobs
(`-j 6`). DISK IS TIGHT: before ANY cargo command run `export CARGO_PROFILE_DEV_DEBUG=0 CARGO_PROFILE_TEST_DEBUG=0 CARGO_INCREMENTAL=0`
(in every shell invocation, e.g. prefix each command with it) so that build output stays small; never copy other target directories.
Never use `pkill`/`killall` on cargo or rustc (other jobs share this machine).

PROPERTY ({p['id']}): {p['title']}
Statement: {p['statement']}
Quantified: {p['quantifier']['text']}
Relevant files (starting points): {', '.join(p['anchors']['files'])}

TASK. Produce TWO independent, realistic source changes ("mutants", A and B, touching different mechanisms / code sites)
to the non-test source of the repository (under actors/*/src, runtime/src) such that, for each one separately:
 1. the workspace still compiles, and the EXISTING test suite still passes completely
    (`cd {wt} && cargo test --workspace --offline -j 6 --no-fail-fast 2>&1 | grep -E "^test result|FAILED|failed|panicked" `
    must show no failures; run it with the change applied);
 2. the change makes the repository VIOLATE the property above (a real behavioural break, not a cosmetic edit);
 3. the break needs something specific to manifest -- a particular multi-step sequence of operations, an unusual input,
    a tolerated nested failure at a particular point, a rarely exercised method/branch, or two cooperating sites that each
    look fine alone -- NOT something ordinary use or the existing tests would expose at once;
 4. it looks like a plausible slip or "simplification" a developer could make (a dropped or weakened check, a wrong operand,
    a missing update/notification, an off-by-one in a guard, a reordered effect, a wrong recipient...). Do not edit tests,
    do not add cfg flags, do not touch unrelated code, keep each change small (a few lines).
 5. you provide a demonstration: a NEW test (a new file under the relevant crate's tests/ directory, or under
    integration_tests/tests/, using the repository's existing MockRuntime / test_vm harnesses) that PASSES on the
    unmodified source and FAILS with the change applied. Confirm both runs yourself.
{hint}
DELIVERABLES in {out}/ :
  A/patch.diff  (git diff of the source change only, relative to the repo root, applies with `git apply`)
  A/demo.diff   (git diff adding only the new demonstration test file(s); generate with `git add -N` + `git diff` or similar)
  A/README.md   (what the change is, why it breaks the property, what is needed for it to manifest, the exact command that
                 runs the demo test, and the observed output with and without the change, and the result of the full suite)
  B/...         (same for the second mutant)
When you are done, leave the worktree with NO source modifications applied (`git -C {wt} checkout -- . && git -C {wt} clean -fdq -e target`),
and reply with a short summary (what A and B are, files touched, confirmation of each of the 5 points).
If, after a serious attempt, you cannot get a second mutant that passes the existing tests, deliver one and say so.
""")
