#!/usr/bin/env python3
"""Regenerate MANIFEST.json from the per-property modules present in engine/rules/props."""
import json, os, importlib, sys
V = os.path.dirname(os.path.dirname(os.path.abspath(__file__)))
sys.path.insert(0, os.path.join(V, 'engine', 'rules'))
props = [json.loads(l) for l in open(os.path.join(V, 'properties.jsonl'))]
NA = {}
checks, na = [], []
for p in props:
    pid = p['id']
    modp = os.path.join(V, 'engine', 'rules', 'props', pid.lower() + '.py')
    if pid in NA:
        na.append({'property_id': pid, 'reason': NA[pid]})
        continue
    if not os.path.exists(modp):
        na.append({'property_id': pid, 'reason': 'static rules for this property are designed (DESIGN.md section 4) but not built yet; nothing is claimed until they are'})
        continue
    mod = importlib.import_module('props.' + pid.lower())
    checks.append({
        'property_id': pid,
        'quick_cmd': './check %s quick' % pid,
        'thorough_cmd': './check %s thorough' % pid,
        'evidence_file': '/verif/evidence/%s.json' % pid,
        'replay_cmd_template': './check %s quick --replay {path}' % pid,
        'engine': 'ba-facts+ba-rules',
        'level_claimed': {'category': getattr(mod, 'LEVEL', 'other'), 'text': mod.LEVEL_TEXT, 'design_ref': 'DESIGN.md section 4 (%s)' % pid},
        'level_note': getattr(mod, 'LEVEL_NOTE', 'Trusted: rustc nightly MIR (mir-opt-level=0) faithful to source; closure/fn-pointer call edges over-approximated; no unsafe aliasing of actor state; FVM reverts aborted messages; external crates (frc46_token, fvm_ipld_*, fvm_sdk) correct.'),
        'technique': mod.TECHNIQUE,
    })
m = {
    'version': 1,
    'setup_cmd': './setup.sh',
    'hooks': {'guard': 'filecoin_project_builtin_actors_verif', 'enable': 'none needed: the analysis reads the unmodified source through a rustc_private driver (RUSTC_WORKSPACE_WRAPPER) under cargo +nightly check',
              'baseline_off_cmd': 'cd /repo && cargo test --workspace --no-fail-fast --offline', 'source_commits': [], 'add_only': True},
    'engines': [
        {'name': 'ba-facts', 'path': 'engine/ba-facts', 'serves_properties': [c['property_id'] for c in checks], 'kind_free_text': 'rustc_private driver: dumps MIR facts (CFG, resolved callees, const generics, field projections, constants, ADTs) of every workspace body'},
        {'name': 'ba-rules', 'path': 'engine/rules', 'serves_properties': [c['property_id'] for c in checks], 'kind_free_text': 'python rule engine over the facts: dispatch matrix, caller-validation typestate, writers/callers sets, guard dominance by edge deletion, followed-by, send discipline, table agreement, constant values'},
    ],
    'checks': checks,
    'not_applicable': na,
    'notes': 'Static analysis only: no actor code is executed, concretely or symbolically. Every check re-extracts facts from /repo\'s current working tree (content-addressed cache) and reports file:line + rule + instance. Known genuine findings: known_findings.json.',
}
json.dump(m, open(os.path.join(V, 'MANIFEST.json'), 'w'), indent=1)
print('checks:', [c['property_id'] for c in checks], 'na:', [x['property_id'] for x in na])
