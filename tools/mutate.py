#!/usr/bin/env python3
"""Author / run checker-sensitivity mutants.

  mutate.py make            regenerate selftest/mutants/*.patch from selftest/mutants.py specs (needs a clean /repo)
  mutate.py run [ids...]    apply each patch to /repo, run ./check <pid> quick, expect the named rule to fire (or silence
                            for refactor patches), revert. Never leaves /repo modified.
"""
import importlib.util, json, os, re, subprocess, sys, time
sys.path.insert(0, os.path.dirname(os.path.abspath(__file__)))
import scratch
V = os.path.dirname(os.path.dirname(os.path.abspath(__file__)))
REPO = '/repo'
MD = os.path.join(V, 'selftest', 'mutants')


def specs():
    sp = importlib.util.spec_from_file_location('mutspecs', os.path.join(V, 'selftest', 'mutants.py'))
    m = importlib.util.module_from_spec(sp)
    sp.loader.exec_module(m)
    return m.MUTANTS


def sh(cmd, **kw):
    return subprocess.run(cmd, shell=True, stdout=subprocess.PIPE, stderr=subprocess.STDOUT, text=True, **kw)


def clean():
    return sh('git -C %s status --porcelain --untracked-files=no' % REPO).stdout.strip() == ''


def make(only=None):
    assert clean(), '/repo not clean'
    for m in specs():
        if only and m['id'] not in only:
            continue
        p = os.path.join(REPO, m['file'])
        src = open(p).read()
        n = src.count(m['old'])
        if n != 1:
            print('SPEC ERROR %s: old text occurs %d times' % (m['id'], n))
            continue
        open(p, 'w').write(src.replace(m['old'], m['new']))
        if m.get('extra'):
            f2, o2, n2 = m['extra']
            p2 = os.path.join(REPO, f2)
            s2 = open(p2).read()
            assert s2.count(o2) == 1, 'extra old text not unique in %s' % m['id']
            open(p2, 'w').write(s2.replace(o2, n2))
        d = sh('git -C %s diff' % REPO).stdout
        open(os.path.join(MD, m['id'] + '.patch'), 'w').write(d)
        sh('git -C %s checkout -- .' % REPO)
    print('made', len(os.listdir(MD)))


def all_specs():
    out = list(specs())
    rd = os.path.join(V, 'selftest', 'refactors')
    if os.path.isdir(rd):
        for fn in sorted(os.listdir(rd)):
            if fn.endswith('.patch') and fn.startswith('R-'):
                out.append({'id': fn[:-6], 'pid': fn[2:].split('-')[0].split('+'), 'expect': None, 'patchfile': os.path.join(rd, fn)})
    return out


def run(only=None):
    scratch.prepare()       # patches are tried on a scratch copy; /repo itself is never modified by `run`
    res = []
    for m in all_specs():
        pidl = m['pid'] if isinstance(m['pid'], list) else [m['pid']]
        if only and m['id'] not in only and not (set(pidl) & set(only)):
            continue
        patch = m.get('patchfile') or os.path.join(MD, m['id'] + '.patch')
        if not os.path.exists(patch):
            print('%s: no patch' % m['id'])
            continue
        a = scratch.apply(patch)
        if a.returncode != 0:
            print('%s: STALE (patch does not apply)' % m['id'])
            res.append((m['id'], 'stale'))
            continue
        try:
            t = time.time()
            pids = m['pid'] if isinstance(m['pid'], list) else [m['pid']]
            out = ''
            rc = 0
            for pid in pids:
                r = sh('%s/check %s quick' % (V, pid), cwd=V, env=scratch.env())
                out += r.stdout
                rc = max(rc, r.returncode)
            fails = [l for l in out.splitlines() if l.strip().startswith('FAIL')]
            exp = m.get('expect')
            if exp is None:
                ok = (rc == 0)
                verdict = 'silent-ok' if ok else 'FALSE-ALARM'
            else:
                hit = [l for l in fails if re.search(exp, l)]
                ok = bool(hit)
                verdict = 'detected' if ok else ('MISSED (rc=%d, %d other fails)' % (rc, len(fails)))
            print('%-40s %-12s %5.1fs  %s' % (m['id'], verdict, time.time() - t, (fails[0][:200] if fails else '')))
            if rc == 2:
                print(out[-1500:])
            res.append((m['id'], verdict))
        finally:
            scratch.revert(patch)
    bad = [r for r in res if r[1] not in ('detected', 'silent-ok')]
    print('summary: %d run, %d not as expected: %s' % (len(res), len(bad), bad))
    return 0 if not bad else 1


if __name__ == '__main__':
    cmd = sys.argv[1]
    only = sys.argv[2:] or None
    if cmd == 'make':
        make(only)
    else:
        sys.exit(run(only))
