#!/usr/bin/env python3
"""check_seeds.py: replay every stored seeded change (seeded/<id>/patch.diff) on a scratch copy of /repo and verify that the
quick check of its property fires with a FAIL line matching meta.expect_regex. Prints one line per seed."""
import glob, json, os, re, subprocess, sys
sys.path.insert(0, os.path.dirname(os.path.abspath(__file__)))
import scratch
scratch.prepare()
bad = 0
only = sys.argv[1:]
for mp in sorted(glob.glob('/verif/seeded/*/meta.json')):
    m = json.load(open(mp))
    sid = m['id']
    if only and not any(o in sid for o in only):
        continue
    patch = os.path.join(os.path.dirname(mp), 'patch.diff')
    a = scratch.apply(patch)
    if a.returncode != 0:
        print('%-60s STALE' % sid); bad += 1
        continue
    try:
        hit = False
        for pid in m.get('detected_by_checks', [m['property']]):
            r = subprocess.run('/verif/check %s quick' % pid, shell=True, cwd='/verif', env=scratch.env(), stdout=subprocess.PIPE, stderr=subprocess.STDOUT, text=True)
            fails = [l for l in r.stdout.splitlines() if l.strip().startswith('FAIL')]
            ok = any(re.search(m.get('expect_regex', '.'), l) for l in fails)
            if pid == m['property']:
                hit = ok
            print('%-60s %-4s %s' % (sid, pid, 'detected' if ok else ('MISSED (%d other fails)' % len(fails))))
        if not hit:
            bad += 1
    finally:
        scratch.revert(patch)
print('summary: %d seed(s) not detected under their own property' % bad)
sys.exit(1 if bad else 0)
