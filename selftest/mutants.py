"""Checker-sensitivity mutants: each is a realistic break of one property (or, with expect=None, a behaviour-preserving
refactor that must stay silent). `expect` is a regex over the FAIL lines of ./check <pid> quick."""
MUTANTS = [
 # ---------------- C11
 dict(id='C11-drop-validate-getter', pid='C11', file='actors/miner/src/lib.rs',
      old="""    fn get_peer_id(rt: &impl Runtime) -> Result<GetPeerIDReturn, ActorError> {
        rt.validate_immediate_caller_accept_any()?;""",
      new="""    fn get_peer_id(rt: &impl Runtime) -> Result<GetPeerIDReturn, ActorError> {""",
      expect=r'K2-once.*GetPeerID'),
 dict(id='C11-weaken-owner-to-cwo', pid='C11', file='actors/miner/src/lib.rs',
      old="""            let mut info = get_miner_info(rt.store(), state)?;

            rt.validate_immediate_caller_is(std::iter::once(&info.owner))?;

            process_pending_worker(&mut info, rt, state)?;""",
      new="""            let mut info = get_miner_info(rt.store(), state)?;

            rt.validate_immediate_caller_is(
                info.control_addresses.iter().chain(&[info.worker, info.owner]),
            )?;

            process_pending_worker(&mut info, rt, state)?;""",
      expect=r'K2-designated.*ConfirmChangeWorkerAddress'),
 dict(id='C11-double-validate', pid='C11', file='actors/power/src/lib.rs',
      old="""        rt.validate_immediate_caller_type(std::iter::once(&Type::Miner))?;
        rt.transaction(|st: &mut State, rt| {
            st.validate_miner_has_claim(rt.store(), &rt.message().caller())?;
            st.add_pledge_total(""",
      new="""        rt.validate_immediate_caller_type(std::iter::once(&Type::Miner))?;
        rt.transaction(|st: &mut State, rt| {
            rt.validate_immediate_caller_accept_any()?;
            st.validate_miner_has_claim(rt.store(), &rt.message().caller())?;
            st.add_pledge_total(""",
      expect=r'K2-once.*UpdatePledgeTotal'),
 dict(id='C11-refactor-extract-helper', pid='C11', file='actors/cron/src/lib.rs',
      old="""        rt.validate_immediate_caller_is(std::iter::once(&SYSTEM_ACTOR_ADDR))?;

        let st: State = rt.state()?;""",
      new="""        Self::only_system(rt)?;

        let st: State = rt.state()?;""",
      expect=None, extra=('actors/cron/src/lib.rs', """    /// Executes built-in periodic actions, run at every Epoch.""",
                          """    fn only_system(rt: &impl Runtime) -> Result<(), ActorError> {
        rt.validate_immediate_caller_is(std::iter::once(&SYSTEM_ACTOR_ADDR))
    }

    /// Executes built-in periodic actions, run at every Epoch.""")),
 # ---------------- C12
 dict(id='C12-drop-purge-swap', pid='C12', file='actors/multisig/src/lib.rs',
      old="""            st.purge_approvals(rt.store(), &Address::new_id(from_resolved))?;
            Ok(())""",
      new="""            Ok(())""",
      expect=r'swap_signer:purge'),
 dict(id='C12-threshold-off-by-one', pid='C12', file='actors/multisig/src/lib.rs',
      old="""    let threshold_met = txn.approved.len() as u64 >= st.num_approvals_threshold;""",
      new="""    let threshold_met = txn.approved.len() as u64 + 1 >= st.num_approvals_threshold;""",
      expect=r'execute:threshold'),
 dict(id='C12-send-before-delete', pid='C12', file='actors/multisig/src/lib.rs',
      old="""            ptx.delete(&txn_id)?;
            st.pending_txs = ptx.flush()?;
            Ok(())
        })?;

        match extract_send_result(""",
      new="""            ptx.delete(&txn_id)?;
            Ok(())
        })?;

        match extract_send_result(""",
      expect=r'execute:delete'),
 dict(id='C12-cancel-any-approver', pid='C12', file='actors/multisig/src/lib.rs',
      old="""            if tx.approved.first() != Some(&caller_addr) {""",
      new="""            if !tx.approved.contains(&caller_addr) {""",
      expect=r'cancel:first-approver'),
 dict(id='C12-lock-twice', pid='C12', file='actors/multisig/src/lib.rs',
      old="""            if st.unlock_duration != 0 {
                return Err(actor_error!(forbidden, "modification of unlock disallowed"));
            }""",
      new="""""",
      expect=r'lock_balance:once'),
 dict(id='C12-remove-below-threshold', pid='C12', file='actors/multisig/src/lib.rs',
      old="""            if !params.decrease && ((st.signers.len() - 1) as u64) < st.num_approvals_threshold {""",
      new="""            if !params.decrease && ((st.signers.len() - 1) as u64) < st.num_approvals_threshold - 1 {""",
      expect=r'remove_signer:below-threshold'),
 dict(id='C12-check-available-skipped', pid='C12', file='actors/multisig/src/state.rs',
      old="""        if remaining_balance < amount_locked {""",
      new="""        if remaining_balance < amount_locked && !self.initial_balance.is_zero() && false {""",
      expect=r'check_available:lock'),
 # ---------------- C13
 dict(id='C13-owner-confirm-any-address', pid='C13', file='actors/miner/src/lib.rs',
      old="""                if new_address != pending_address {
                    return Err(actor_error!(
                        illegal_argument,
                        "expected confirmation of {} got {}",
                        pending_address,
                        new_address
                    ));
                }
""",
      new="""""",
      expect=r'change_owner:same-address'),
 dict(id='C13-worker-no-delay', pid='C13', file='actors/miner/src/lib.rs',
      old="""                    effective_at: rt.curr_epoch() + rt.policy().worker_key_change_delay,""",
      new="""                    effective_at: rt.curr_epoch(),""",
      expect=r'change_worker:effective_at'),
 dict(id='C13-worker-override', pid='C13', file='actors/miner/src/lib.rs',
      old="""            if new_worker != info.worker && info.pending_worker_key.is_none() {""",
      new="""            if new_worker != info.worker {""",
      expect=r'change_worker:no-override'),
 dict(id='C13-beneficiary-one-sided', pid='C13', file='actors/miner/src/lib.rs',
      old="""                if pending_term.approved_by_beneficiary && pending_term.approved_by_nominee {""",
      new="""                if pending_term.approved_by_beneficiary || pending_term.approved_by_nominee {""",
      expect=r'change_beneficiary:approved-by'),
 dict(id='C13-nominee-flag-by-owner', pid='C13', file='actors/miner/src/lib.rs',
      old="""                if caller == new_beneficiary {
                    pending_term.approved_by_nominee = true
                }""",
      new="""                if caller == new_beneficiary || caller == info.owner {
                    pending_term.approved_by_nominee = true
                }""",
      expect=r'change_beneficiary:flag-nominee'),
 dict(id='C13-effective-epoch-flip', pid='C13', file='actors/miner/src/lib.rs',
      old="""    if rt.curr_epoch() < pending_worker_key.effective_at {
        return Ok(());
    }""",
      new="""    if rt.curr_epoch() > pending_worker_key.effective_at {
        return Ok(());
    }""",
      expect=r'worker:effective-epoch'),

 # ---------------- C16
 dict(id='C16-merge-nonce-dropped', pid='C16', file='actors/paych/src/lib.rs',
      old="""                if other_ls.nonce >= merge.nonce {
                    return Err(actor_error!(illegal_argument;
                            "merged lane in voucher has outdated nonce, cannot redeem"));
                }
""", new="""""", expect=r'update:merge-nonce'),
 dict(id='C16-nonce-gt', pid='C16', file='actors/paych/src/lib.rs',
      old="""                if state.nonce >= sv.nonce {""", new="""                if state.nonce > sv.nonce {""", expect=r'update:lane-nonce'),
 dict(id='C16-signer-self', pid='C16', file='actors/paych/src/lib.rs',
      old="""        let signer = if rt.message().caller() == st.from { st.to } else { st.from };""",
      new="""        let signer = if rt.message().caller() == st.from { st.from } else { st.to };""", expect=r'update:signer-is-other-party'),
 dict(id='C16-time-lock-max-ignored', pid='C16', file='actors/paych/src/lib.rs',
      old="""        if sv.time_lock_max != 0 && rt.curr_epoch() > sv.time_lock_max {""",
      new="""        if sv.time_lock_max != 0 && rt.curr_epoch() > sv.time_lock_max + SETTLE_DELAY {""", expect=r'update:time_lock_max'),
 dict(id='C16-balance-check-dropped', pid='C16', file='actors/paych/src/lib.rs',
      old="""            if new_send_balance > rt.current_balance() {
                return Err(actor_error!(illegal_argument;
                    "not enough funds in channel to cover voucher"));
            }
""", new="""""", expect=r'update:balance-covered'),
 dict(id='C16-collect-early', pid='C16', file='actors/paych/src/lib.rs',
      old="""        if st.settling_at == 0 || rt.curr_epoch() < st.settling_at {""",
      new="""        if st.settling_at == 0 {""", expect=r'collect:delay-elapsed'),
 dict(id='C16-collect-swapped-recipients', pid='C16', file='actors/paych/src/lib.rs',
      old="""        extract_send_result(rt.send_simple(&st.to, METHOD_SEND, None, st.to_send))""",
      new="""        extract_send_result(rt.send_simple(&st.from, METHOD_SEND, None, st.to_send))""", expect=r'collect:payee'),
 dict(id='C16-settle-height-lowered', pid='C16', file='actors/paych/src/lib.rs',
      old="""                if st.settling_at != 0 && st.settling_at < sv.min_settle_height {""",
      new="""                if st.settling_at != 0 {""", expect=r'update:settling_at-only-raised'),
 dict(id='C16-secret-skipped-when-empty-secret', pid='C16', file='actors/paych/src/lib.rs',
      old="""        if !sv.secret_pre_image.is_empty() {""",
      new="""        if !sv.secret_pre_image.is_empty() && !params.secret.is_empty() {""", expect=r'update:secret'),
 dict(id='C16-redeemed-not-updated', pid='C16', file='actors/paych/src/lib.rs',
      old="""            lane_state.redeemed = sv.amount;""",
      new="""            lane_state.redeemed = sv.amount.clone() - &lane_state.redeemed;""", expect=r'update:'),
 dict(id='C16-auth-not-readonly-refactor', pid='C16', file='actors/paych/src/lib.rs',
      old="""        let pch_addr = rt.message().receiver();""",
      new="""        let receiver_info = rt.message();
        let pch_addr = receiver_info.receiver();""", expect=None),

 # ---------------- C18
 dict(id='C18-primop0-instantiated', pid='C18', file='actors/evm/src/interpreter/instructions/mod.rs',
      old="""def_stdfun! { MSIZE() => memory::msize }""",
      new="""def_primop! { MSIZE() => context::msize_zero }""", expect=r'0x59:MSIZE',
      extra=('actors/evm/src/interpreter/instructions/context.rs', """#[inline]
pub fn blockhash(""", """#[inline]
pub fn msize_zero() -> U256 {
    U256::zero()
}

#[inline]
pub fn blockhash(""")),
 dict(id='C18-wrong-arity', pid='C18', file='actors/evm/src/interpreter/instructions/mod.rs',
      old="""def_stdproc! { MSTORE8(a, b) => memory::mstore8 }""",
      new="""def_stdproc! { MSTORE8(a, b, _c) => memory::mstore8_3 }""", expect=r'0x53:MSTORE8',
      extra=('actors/evm/src/interpreter/instructions/memory.rs', """#[inline]
pub fn mcopy(""", """#[inline]
pub fn mstore8_3(
    state: &mut ExecutionState,
    system: &System<impl Runtime>,
    index: U256,
    value: U256,
    _c: U256,
) -> Result<(), ActorError> {
    mstore8(state, system, index, value)
}

#[inline]
pub fn mcopy(""")),
 dict(id='C18-swapped-slots', pid='C18', file='actors/evm/src/interpreter/execution.rs',
      old="""        0x1c: SHR,
        0x1d: SAR,""", new="""        0x1c: SAR,
        0x1d: SHR,""", expect=r'opcode:0x1c'),
 dict(id='C18-tstore-readonly-dropped', pid='C18', file='actors/evm/src/interpreter/instructions/storage.rs',
      old="""    if system.readonly {
        return Err(ActorError::read_only("store called while read-only".into()));
    }

    system.set_transient_storage(key, value)""",
      new="""    system.set_transient_storage(key, value)""", expect=r'readonly:tstore'),
 dict(id='C18-stack-bound-off', pid='C18', file='actors/evm/src/interpreter/stack.rs',
      old="""    pub fn ensure_one(&self) -> Result<(), ActorError> {
        if self.stack.len() >= STACK_SIZE {""",
      new="""    pub fn ensure_one(&self) -> Result<(), ActorError> {
        if self.stack.len() > STACK_SIZE {""", expect=r'ensure_one:bound'),
 dict(id='C18-jumpi-unchecked', pid='C18', file='actors/evm/src/interpreter/instructions/control.rs',
      old="""        let dst =
            dest.try_into().context_code(EVM_CONTRACT_BAD_JUMPDEST, "jumpdest exceeds u32")?;
        if !bytecode.valid_jump_destination(dst) {""",
      new="""        let dst: usize =
            dest.try_into().context_code(EVM_CONTRACT_BAD_JUMPDEST, "jumpdest exceeds u32")?;
        if dst >= bytecode.len() {""", expect=r'jumpi:valid-destination'),
 dict(id='C18-memory-unchecked-add', pid='C18', file='actors/evm/src/interpreter/instructions/memory.rs',
      old="""    let new_size: u32 = offset
        .checked_add(size)
        .context_code(EVM_CONTRACT_ILLEGAL_MEMORY_ACCESS, "new memory size exceeds max u32")?;""",
      new="""    let new_size: u32 = offset.wrapping_add(size);""", expect=r'get_memory_region:checked_add'),
 dict(id='C18-call-value-static', pid='C18', file='actors/evm/src/interpreter/instructions/call.rs',
      old="""    if system.readonly && value > U256::zero() {""",
      new="""    if system.readonly && value > U256::zero() && kind != CallKind::DelegateCall {""", expect=r'readonly:call-with-value'),
 dict(id='C18-selfdestruct-readonly-after-transfer', pid='C18', file='actors/evm/src/interpreter/instructions/lifecycle.rs',
      old="""    if system.readonly {
        return Err(ActorError::read_only("selfdestruct called while read-only".into()));
    }

    // Try to give funds""",
      new="""    // Try to give funds""", expect=r'readonly:selfdestruct'),

 # ---------------- C20
 dict(id='C20-exec-anyone-miner', pid='C20', file='actors/init/src/lib.rs',
      old="""            Type::Miner if rt.resolve_builtin_actor_type(caller) == Some(Type::Power) => true,""",
      new="""            Type::Miner => true,""", expect=r'can_exec:miner-only-by-power'),
 dict(id='C20-exec-evm-allowed', pid='C20', file='actors/init/src/lib.rs',
      old="""            Type::Multisig | Type::PaymentChannel => true,""",
      new="""            Type::Multisig | Type::PaymentChannel | Type::EthAccount => true,""", expect=r'can_exec:allowed-types'),
 dict(id='C20-exec4-overwrite', pid='C20', file='actors/init/src/lib.rs',
      old="""            if code_cid != placeholder_cid {
                return Err(ActorError::forbidden(format!(
                    "cannot replace an existing non-placeholder actor with code: {code_cid}"
                )));
            }""", new="""            let _ = placeholder_cid;""", expect=r'exec4:placeholder-only'),
 dict(id='C20-id-reuse', pid='C20', file='actors/init/src/state.rs',
      old="""            // With no delegated address, always create a new actor ID.
            let new_id = self.next_id;
            self.next_id += 1;""",
      new="""            // With no delegated address, always create a new actor ID.
            let new_id = self.next_id;""", expect=r'next_id'),
 dict(id='C20-robust-overwrite', pid='C20', file='actors/init/src/state.rs',
      old="""        let is_new = map.set_if_absent(robust_addr, id)?;
        if !is_new {""", new="""        let is_new = map.set_if_absent(robust_addr, id)?;
        if !is_new && delegated_addr.is_none() {""", expect=r'robust-address-fresh'),
 dict(id='C20-eam-reserved-skip-id', pid='C20', file='actors/eam/src/lib.rs',
      old="""    !addr.is_precompile() && !addr.is_id() && !addr.is_null()""",
      new="""    !addr.is_precompile() && !addr.is_null()""", expect=r'can_assign_address:is_id'),
 dict(id='C20-eam-resurrect-any', pid='C20', file='actors/eam/src/lib.rs',
      old="""            // If it's a Placeholder, continue on to create it.
            Some(Type::Placeholder) => {}""",
      new="""            // If it's a Placeholder, continue on to create it.
            Some(Type::Placeholder) | Some(Type::EthAccount) => {}""", expect=r'deploy-only-over-placeholder'),
 dict(id='C20-nonce-after-send', pid='C20', file='actors/evm/src/interpreter/instructions/lifecycle.rs',
      old="""    system.increment_nonce();

    // Apply EIP-150""", new="""    // Apply EIP-150""", expect=r'evm:nonce-before-create|callers-present:System::increment_nonce'),
 dict(id='C20-create2-salt-dropped', pid='C20', file='actors/eam/src/lib.rs',
      old="""    EthAddress(hash_20(rt, &[&[0xff], &from.0[..], salt, &inithash].concat()))""",
      new="""    let _ = salt;
    EthAddress(hash_20(rt, &[&[0xff], &from.0[..], &inithash].concat()))""", expect=r'create2-formula'),

 # ---------------- C19
 dict(id='C19-tstore-not-dirty', pid='C19', file='actors/evm/src/interpreter/system.rs',
      old="""        if changed {
            self.saved_state_root = None; // Mark state as dirty
        }
""", new="""        let _ = changed;
""", expect=r'dirty:set_transient_storage'),
 dict(id='C19-nonce-not-dirty', pid='C19', file='actors/evm/src/interpreter/system.rs',
      old="""    pub fn increment_nonce(&mut self) {
        self.saved_state_root = None;""", new="""    pub fn increment_nonce(&mut self) {""", expect=r'dirty:increment_nonce|saved_state_root'),
 dict(id='C19-no-reload', pid='C19', file='actors/evm/src/interpreter/system.rs',
      old="""            Ok(r) if r.exit_code.is_success() => self.reload()?,""",
      new="""            Ok(r) if r.exit_code.is_success() && !self.readonly => {}""", expect=r'send_raw:reload'),
 dict(id='C19-raw-send-bypass', pid='C19', file='actors/evm/src/interpreter/system.rs',
      old="""        let result = self.send_raw(to, method, params, value, gas_limit, send_flags)?.map_err(|err| {""",
      new="""        let result = Ok::<_, ActorError>(self.rt.send(to, method, params, value, gas_limit, send_flags).map_err(|e| e.0))?.map_err(|err| {""",
      expect=r'Runtime::send\* in evm|System::send->send_raw'),
 dict(id='C19-lifespan-by-caller', pid='C19', file='actors/evm/src/interpreter/system.rs',
      old="""        origin: rt.message().origin().id().unwrap(),
        nonce: rt.message().nonce(),
    }
}""", new="""        origin: rt.message().caller().id().unwrap(),
        nonce: rt.message().nonce(),
    }
}""", expect=r'TransientDataLifespan:origin'),
 dict(id='C19-flush-drops-tombstone', pid='C19', file='actors/evm/src/interpreter/system.rs',
      old="""                    nonce: self.nonce,
                    tombstone: self.tombstone,
                },
                Code::Blake2b256,""", new="""                    nonce: self.nonce,
                    tombstone: None,
                },
                Code::Blake2b256,""", expect=r'flush:persists:tombstone'),
 dict(id='C19-revert-flushes', pid='C19', file='actors/evm/src/lib.rs',
      old="""    match output.outcome {
        Outcome::Return => {
            system.flush()?;
            Ok(output.return_data.to_vec())
        }""", new="""    match output.outcome {
        Outcome::Return => {
            Ok(output.return_data.to_vec())
        }""", expect=r'invoke:flush-before-return'),
 dict(id='C19-delegate-caller-self', pid='C19', file='actors/evm/src/interpreter/instructions/call.rs',
      old="""                                caller: state.caller,
                                value: state.value_received.clone(),""",
      new="""                                caller: state.receiver,
                                value: state.value_received.clone(),""", expect=r'delegatecall:caller'),
 dict(id='C19-load-stale-transient', pid='C19', file='actors/evm/src/interpreter/system.rs',
      old="""            Some(transient_data)
                if current_transient_data_lifespan == transient_data.transient_data_lifespan =>""",
      new="""            Some(transient_data)
                if current_transient_data_lifespan.origin == transient_data.transient_data_lifespan.origin =>""", expect=r'load:transient-only-same-lifespan'),
]
