"""Checker-sensitivity mutants: each is a realistic break of one property (or, with expect=None, a behaviour-preserving
refactor that must stay silent). `expect` is a regex over the FAIL lines of ./check <pid> quick."""
MUTANTS = [
 # ---------------- C11
 dict(id='C11-drop-validate-getter', pid='C11', file='actors/miner/src/lib.rs',
      old="""    fn get_peer_id(rt: &impl Runtime) -> Result<GetPeerIDReturn, ActorError> {
        rt.validate_immediate_caller_accept_any()?;""",
      new="""    fn get_peer_id(rt: &impl Runtime) -> Result<GetPeerIDReturn, ActorError> {""",
      expect=r'K2-once.*GetPeerID'),
 dict(id='C11-weaken-owner-to-cwo', pid='C11', file='actors/miner/src/lib.rs',
      old="""            let mut info = get_miner_info(rt.store(), state)?;

            rt.validate_immediate_caller_is(std::iter::once(&info.owner))?;

            process_pending_worker(&mut info, rt, state)?;""",
      new="""            let mut info = get_miner_info(rt.store(), state)?;

            rt.validate_immediate_caller_is(
                info.control_addresses.iter().chain(&[info.worker, info.owner]),
            )?;

            process_pending_worker(&mut info, rt, state)?;""",
      expect=r'K2-designated.*ConfirmChangeWorkerAddress'),
 dict(id='C11-double-validate', pid='C11', file='actors/power/src/lib.rs',
      old="""        rt.validate_immediate_caller_type(std::iter::once(&Type::Miner))?;
        rt.transaction(|st: &mut State, rt| {
            st.validate_miner_has_claim(rt.store(), &rt.message().caller())?;
            st.add_pledge_total(""",
      new="""        rt.validate_immediate_caller_type(std::iter::once(&Type::Miner))?;
        rt.transaction(|st: &mut State, rt| {
            rt.validate_immediate_caller_accept_any()?;
            st.validate_miner_has_claim(rt.store(), &rt.message().caller())?;
            st.add_pledge_total(""",
      expect=r'K2-once.*UpdatePledgeTotal'),
 dict(id='C11-refactor-extract-helper', pid='C11', file='actors/cron/src/lib.rs',
      old="""        rt.validate_immediate_caller_is(std::iter::once(&SYSTEM_ACTOR_ADDR))?;

        let st: State = rt.state()?;""",
      new="""        Self::only_system(rt)?;

        let st: State = rt.state()?;""",
      expect=None, extra=('actors/cron/src/lib.rs', """    /// Executes built-in periodic actions, run at every Epoch.""",
                          """    fn only_system(rt: &impl Runtime) -> Result<(), ActorError> {
        rt.validate_immediate_caller_is(std::iter::once(&SYSTEM_ACTOR_ADDR))
    }

    /// Executes built-in periodic actions, run at every Epoch.""")),
 # ---------------- C12
 dict(id='C12-drop-purge-swap', pid='C12', file='actors/multisig/src/lib.rs',
      old="""            st.purge_approvals(rt.store(), &Address::new_id(from_resolved))?;
            Ok(())""",
      new="""            Ok(())""",
      expect=r'swap_signer:purge'),
 dict(id='C12-threshold-off-by-one', pid='C12', file='actors/multisig/src/lib.rs',
      old="""    let threshold_met = txn.approved.len() as u64 >= st.num_approvals_threshold;""",
      new="""    let threshold_met = txn.approved.len() as u64 + 1 >= st.num_approvals_threshold;""",
      expect=r'execute:threshold'),
 dict(id='C12-send-before-delete', pid='C12', file='actors/multisig/src/lib.rs',
      old="""            ptx.delete(&txn_id)?;
            st.pending_txs = ptx.flush()?;
            Ok(())
        })?;

        match extract_send_result(""",
      new="""            ptx.delete(&txn_id)?;
            Ok(())
        })?;

        match extract_send_result(""",
      expect=r'execute:delete'),
 dict(id='C12-cancel-any-approver', pid='C12', file='actors/multisig/src/lib.rs',
      old="""            if tx.approved.first() != Some(&caller_addr) {""",
      new="""            if !tx.approved.contains(&caller_addr) {""",
      expect=r'cancel:first-approver'),
 dict(id='C12-lock-twice', pid='C12', file='actors/multisig/src/lib.rs',
      old="""            if st.unlock_duration != 0 {
                return Err(actor_error!(forbidden, "modification of unlock disallowed"));
            }""",
      new="""""",
      expect=r'lock_balance:once'),
 dict(id='C12-remove-below-threshold', pid='C12', file='actors/multisig/src/lib.rs',
      old="""            if !params.decrease && ((st.signers.len() - 1) as u64) < st.num_approvals_threshold {""",
      new="""            if !params.decrease && ((st.signers.len() - 1) as u64) < st.num_approvals_threshold - 1 {""",
      expect=r'remove_signer:below-threshold'),
 dict(id='C12-check-available-skipped', pid='C12', file='actors/multisig/src/state.rs',
      old="""        if remaining_balance < amount_locked {""",
      new="""        if remaining_balance < amount_locked && !self.initial_balance.is_zero() && false {""",
      expect=r'check_available:lock'),
 # ---------------- C13
 dict(id='C13-owner-confirm-any-address', pid='C13', file='actors/miner/src/lib.rs',
      old="""                if new_address != pending_address {
                    return Err(actor_error!(
                        illegal_argument,
                        "expected confirmation of {} got {}",
                        pending_address,
                        new_address
                    ));
                }
""",
      new="""""",
      expect=r'change_owner:same-address'),
 dict(id='C13-worker-no-delay', pid='C13', file='actors/miner/src/lib.rs',
      old="""                    effective_at: rt.curr_epoch() + rt.policy().worker_key_change_delay,""",
      new="""                    effective_at: rt.curr_epoch(),""",
      expect=r'change_worker:effective_at'),
 dict(id='C13-worker-override', pid='C13', file='actors/miner/src/lib.rs',
      old="""            if new_worker != info.worker && info.pending_worker_key.is_none() {""",
      new="""            if new_worker != info.worker {""",
      expect=r'change_worker:no-override'),
 dict(id='C13-beneficiary-one-sided', pid='C13', file='actors/miner/src/lib.rs',
      old="""                if pending_term.approved_by_beneficiary && pending_term.approved_by_nominee {""",
      new="""                if pending_term.approved_by_beneficiary || pending_term.approved_by_nominee {""",
      expect=r'change_beneficiary:approved-by'),
 dict(id='C13-nominee-flag-by-owner', pid='C13', file='actors/miner/src/lib.rs',
      old="""                if caller == new_beneficiary {
                    pending_term.approved_by_nominee = true
                }""",
      new="""                if caller == new_beneficiary || caller == info.owner {
                    pending_term.approved_by_nominee = true
                }""",
      expect=r'change_beneficiary:flag-nominee'),
 dict(id='C13-effective-epoch-flip', pid='C13', file='actors/miner/src/lib.rs',
      old="""    if rt.curr_epoch() < pending_worker_key.effective_at {
        return Ok(());
    }""",
      new="""    if rt.curr_epoch() > pending_worker_key.effective_at {
        return Ok(());
    }""",
      expect=r'worker:effective-epoch'),

 # ---------------- C16
 dict(id='C16-merge-nonce-dropped', pid='C16', file='actors/paych/src/lib.rs',
      old="""                if other_ls.nonce >= merge.nonce {
                    return Err(actor_error!(illegal_argument;
                            "merged lane in voucher has outdated nonce, cannot redeem"));
                }
""", new="""""", expect=r'update:merge-nonce'),
 dict(id='C16-nonce-gt', pid='C16', file='actors/paych/src/lib.rs',
      old="""                if state.nonce >= sv.nonce {""", new="""                if state.nonce > sv.nonce {""", expect=r'update:lane-nonce'),
 dict(id='C16-signer-self', pid='C16', file='actors/paych/src/lib.rs',
      old="""        let signer = if rt.message().caller() == st.from { st.to } else { st.from };""",
      new="""        let signer = if rt.message().caller() == st.from { st.from } else { st.to };""", expect=r'update:signer-is-other-party'),
 dict(id='C16-time-lock-max-ignored', pid='C16', file='actors/paych/src/lib.rs',
      old="""        if sv.time_lock_max != 0 && rt.curr_epoch() > sv.time_lock_max {""",
      new="""        if sv.time_lock_max != 0 && rt.curr_epoch() > sv.time_lock_max + SETTLE_DELAY {""", expect=r'update:time_lock_max'),
 dict(id='C16-balance-check-dropped', pid='C16', file='actors/paych/src/lib.rs',
      old="""            if new_send_balance > rt.current_balance() {
                return Err(actor_error!(illegal_argument;
                    "not enough funds in channel to cover voucher"));
            }
""", new="""""", expect=r'update:balance-covered'),
 dict(id='C16-collect-early', pid='C16', file='actors/paych/src/lib.rs',
      old="""        if st.settling_at == 0 || rt.curr_epoch() < st.settling_at {""",
      new="""        if st.settling_at == 0 {""", expect=r'collect:delay-elapsed'),
 dict(id='C16-collect-swapped-recipients', pid='C16', file='actors/paych/src/lib.rs',
      old="""        extract_send_result(rt.send_simple(&st.to, METHOD_SEND, None, st.to_send))""",
      new="""        extract_send_result(rt.send_simple(&st.from, METHOD_SEND, None, st.to_send))""", expect=r'collect:payee'),
 dict(id='C16-settle-height-lowered', pid='C16', file='actors/paych/src/lib.rs',
      old="""                if st.settling_at != 0 && st.settling_at < sv.min_settle_height {""",
      new="""                if st.settling_at != 0 {""", expect=r'update:settling_at-only-raised'),
 dict(id='C16-secret-skipped-when-empty-secret', pid='C16', file='actors/paych/src/lib.rs',
      old="""        if !sv.secret_pre_image.is_empty() {""",
      new="""        if !sv.secret_pre_image.is_empty() && !params.secret.is_empty() {""", expect=r'update:secret'),
 dict(id='C16-redeemed-not-updated', pid='C16', file='actors/paych/src/lib.rs',
      old="""            lane_state.redeemed = sv.amount;""",
      new="""            lane_state.redeemed = sv.amount.clone() - &lane_state.redeemed;""", expect=r'update:'),
 dict(id='C16-auth-not-readonly-refactor', pid='C16', file='actors/paych/src/lib.rs',
      old="""        let pch_addr = rt.message().receiver();""",
      new="""        let receiver_info = rt.message();
        let pch_addr = receiver_info.receiver();""", expect=None),

 # ---------------- C18
 dict(id='C18-primop0-instantiated', pid='C18', file='actors/evm/src/interpreter/instructions/mod.rs',
      old="""def_stdfun! { MSIZE() => memory::msize }""",
      new="""def_primop! { MSIZE() => context::msize_zero }""", expect=r'0x59:MSIZE',
      extra=('actors/evm/src/interpreter/instructions/context.rs', """#[inline]
pub fn blockhash(""", """#[inline]
pub fn msize_zero() -> U256 {
    U256::zero()
}

#[inline]
pub fn blockhash(""")),
 dict(id='C18-wrong-arity', pid='C18', file='actors/evm/src/interpreter/instructions/mod.rs',
      old="""def_stdproc! { MSTORE8(a, b) => memory::mstore8 }""",
      new="""def_stdproc! { MSTORE8(a, b, _c) => memory::mstore8_3 }""", expect=r'0x53:MSTORE8',
      extra=('actors/evm/src/interpreter/instructions/memory.rs', """#[inline]
pub fn mcopy(""", """#[inline]
pub fn mstore8_3(
    state: &mut ExecutionState,
    system: &System<impl Runtime>,
    index: U256,
    value: U256,
    _c: U256,
) -> Result<(), ActorError> {
    mstore8(state, system, index, value)
}

#[inline]
pub fn mcopy(""")),
 dict(id='C18-swapped-slots', pid='C18', file='actors/evm/src/interpreter/execution.rs',
      old="""        0x1c: SHR,
        0x1d: SAR,""", new="""        0x1c: SAR,
        0x1d: SHR,""", expect=r'opcode:0x1c'),
 dict(id='C18-tstore-readonly-dropped', pid='C18', file='actors/evm/src/interpreter/instructions/storage.rs',
      old="""    if system.readonly {
        return Err(ActorError::read_only("store called while read-only".into()));
    }

    system.set_transient_storage(key, value)""",
      new="""    system.set_transient_storage(key, value)""", expect=r'readonly:tstore'),
 dict(id='C18-stack-bound-off', pid='C18', file='actors/evm/src/interpreter/stack.rs',
      old="""    pub fn ensure_one(&self) -> Result<(), ActorError> {
        if self.stack.len() >= STACK_SIZE {""",
      new="""    pub fn ensure_one(&self) -> Result<(), ActorError> {
        if self.stack.len() > STACK_SIZE {""", expect=r'ensure_one:bound'),
 dict(id='C18-jumpi-unchecked', pid='C18', file='actors/evm/src/interpreter/instructions/control.rs',
      old="""        let dst =
            dest.try_into().context_code(EVM_CONTRACT_BAD_JUMPDEST, "jumpdest exceeds u32")?;
        if !bytecode.valid_jump_destination(dst) {""",
      new="""        let dst: usize =
            dest.try_into().context_code(EVM_CONTRACT_BAD_JUMPDEST, "jumpdest exceeds u32")?;
        if dst >= bytecode.len() {""", expect=r'jumpi:valid-destination'),
 dict(id='C18-memory-unchecked-add', pid='C18', file='actors/evm/src/interpreter/instructions/memory.rs',
      old="""    let new_size: u32 = offset
        .checked_add(size)
        .context_code(EVM_CONTRACT_ILLEGAL_MEMORY_ACCESS, "new memory size exceeds max u32")?;""",
      new="""    let new_size: u32 = offset.wrapping_add(size);""", expect=r'get_memory_region:checked_add'),
 dict(id='C18-call-value-static', pid='C18', file='actors/evm/src/interpreter/instructions/call.rs',
      old="""    if system.readonly && value > U256::zero() {""",
      new="""    if system.readonly && value > U256::zero() && kind != CallKind::DelegateCall {""", expect=r'readonly:call-with-value'),
 dict(id='C18-selfdestruct-readonly-after-transfer', pid='C18', file='actors/evm/src/interpreter/instructions/lifecycle.rs',
      old="""    if system.readonly {
        return Err(ActorError::read_only("selfdestruct called while read-only".into()));
    }

    // Try to give funds""",
      new="""    // Try to give funds""", expect=r'readonly:selfdestruct'),

 # ---------------- C20
 dict(id='C20-exec-anyone-miner', pid='C20', file='actors/init/src/lib.rs',
      old="""            Type::Miner if rt.resolve_builtin_actor_type(caller) == Some(Type::Power) => true,""",
      new="""            Type::Miner => true,""", expect=r'can_exec:miner-only-by-power'),
 dict(id='C20-exec-evm-allowed', pid='C20', file='actors/init/src/lib.rs',
      old="""            Type::Multisig | Type::PaymentChannel => true,""",
      new="""            Type::Multisig | Type::PaymentChannel | Type::EthAccount => true,""", expect=r'can_exec:allowed-types'),
 dict(id='C20-exec4-overwrite', pid='C20', file='actors/init/src/lib.rs',
      old="""            if code_cid != placeholder_cid {
                return Err(ActorError::forbidden(format!(
                    "cannot replace an existing non-placeholder actor with code: {code_cid}"
                )));
            }""", new="""            let _ = placeholder_cid;""", expect=r'exec4:placeholder-only'),
 dict(id='C20-id-reuse', pid='C20', file='actors/init/src/state.rs',
      old="""            // With no delegated address, always create a new actor ID.
            let new_id = self.next_id;
            self.next_id += 1;""",
      new="""            // With no delegated address, always create a new actor ID.
            let new_id = self.next_id;""", expect=r'next_id'),
 dict(id='C20-robust-overwrite', pid='C20', file='actors/init/src/state.rs',
      old="""        let is_new = map.set_if_absent(robust_addr, id)?;
        if !is_new {""", new="""        let is_new = map.set_if_absent(robust_addr, id)?;
        if !is_new && delegated_addr.is_none() {""", expect=r'robust-address-fresh'),
 dict(id='C20-eam-reserved-skip-id', pid='C20', file='actors/eam/src/lib.rs',
      old="""    !addr.is_precompile() && !addr.is_id() && !addr.is_null()""",
      new="""    !addr.is_precompile() && !addr.is_null()""", expect=r'can_assign_address:is_id'),
 dict(id='C20-eam-resurrect-any', pid='C20', file='actors/eam/src/lib.rs',
      old="""            // If it's a Placeholder, continue on to create it.
            Some(Type::Placeholder) => {}""",
      new="""            // If it's a Placeholder, continue on to create it.
            Some(Type::Placeholder) | Some(Type::EthAccount) => {}""", expect=r'deploy-only-over-placeholder'),
 dict(id='C20-nonce-after-send', pid='C20', file='actors/evm/src/interpreter/instructions/lifecycle.rs',
      old="""    system.increment_nonce();

    // Apply EIP-150""", new="""    // Apply EIP-150""", expect=r'evm:nonce-before-create|callers-present:System::increment_nonce'),
 dict(id='C20-create2-salt-dropped', pid='C20', file='actors/eam/src/lib.rs',
      old="""    EthAddress(hash_20(rt, &[&[0xff], &from.0[..], salt, &inithash].concat()))""",
      new="""    let _ = salt;
    EthAddress(hash_20(rt, &[&[0xff], &from.0[..], &inithash].concat()))""", expect=r'create2-formula'),

 # ---------------- C19
 dict(id='C19-tstore-not-dirty', pid='C19', file='actors/evm/src/interpreter/system.rs',
      old="""        if changed {
            self.saved_state_root = None; // Mark state as dirty
        }
""", new="""        let _ = changed;
""", expect=r'dirty:set_transient_storage'),
 dict(id='C19-nonce-not-dirty', pid='C19', file='actors/evm/src/interpreter/system.rs',
      old="""    pub fn increment_nonce(&mut self) {
        self.saved_state_root = None;""", new="""    pub fn increment_nonce(&mut self) {""", expect=r'dirty:increment_nonce|saved_state_root'),
 dict(id='C19-no-reload', pid='C19', file='actors/evm/src/interpreter/system.rs',
      old="""            Ok(r) if r.exit_code.is_success() => self.reload()?,""",
      new="""            Ok(r) if r.exit_code.is_success() && !self.readonly => {}""", expect=r'send_raw:reload'),
 dict(id='C19-raw-send-bypass', pid='C19', file='actors/evm/src/interpreter/system.rs',
      old="""        let result = self.send_raw(to, method, params, value, gas_limit, send_flags)?.map_err(|err| {""",
      new="""        let result = Ok::<_, ActorError>(self.rt.send(to, method, params, value, gas_limit, send_flags).map_err(|e| e.0))?.map_err(|err| {""",
      expect=r'Runtime::send\* in evm|System::send->send_raw'),
 dict(id='C19-lifespan-by-caller', pid='C19', file='actors/evm/src/interpreter/system.rs',
      old="""        origin: rt.message().origin().id().unwrap(),
        nonce: rt.message().nonce(),
    }
}""", new="""        origin: rt.message().caller().id().unwrap(),
        nonce: rt.message().nonce(),
    }
}""", expect=r'TransientDataLifespan:origin'),
 dict(id='C19-flush-drops-tombstone', pid='C19', file='actors/evm/src/interpreter/system.rs',
      old="""                    nonce: self.nonce,
                    tombstone: self.tombstone,
                },
                Code::Blake2b256,""", new="""                    nonce: self.nonce,
                    tombstone: None,
                },
                Code::Blake2b256,""", expect=r'flush:persists:tombstone'),
 dict(id='C19-revert-flushes', pid='C19', file='actors/evm/src/lib.rs',
      old="""    match output.outcome {
        Outcome::Return => {
            system.flush()?;
            Ok(output.return_data.to_vec())
        }""", new="""    match output.outcome {
        Outcome::Return => {
            Ok(output.return_data.to_vec())
        }""", expect=r'invoke:flush-before-return'),
 dict(id='C19-delegate-caller-self', pid='C19', file='actors/evm/src/interpreter/instructions/call.rs',
      old="""                                caller: state.caller,
                                value: state.value_received.clone(),""",
      new="""                                caller: state.receiver,
                                value: state.value_received.clone(),""", expect=r'delegatecall:caller'),
 dict(id='C19-load-stale-transient', pid='C19', file='actors/evm/src/interpreter/system.rs',
      old="""            Some(transient_data)
                if current_transient_data_lifespan == transient_data.transient_data_lifespan =>""",
      new="""            Some(transient_data)
                if current_transient_data_lifespan.origin == transient_data.transient_data_lifespan.origin =>""", expect=r'load:transient-only-same-lifespan'),

 # ---------------- C15
 dict(id='C15-fallback-removed', pid=['C15', 'C01'], file='actors/miner/src/lib.rs',
      old="""            // The reward was taken out of the penalty already paid; if it cannot be delivered, burn it.
            burn_amount += reward_amount;
""", new="""""", expect=r'fallback'),
 dict(id='C15-burn-wrong-component', pid='C15', file='actors/miner/src/lib.rs',
      old="""        notify_pledge_changed(rt, &total_unlocked.neg())?;
        burn_funds(rt, burn_amount)?;

        state.check_balance_invariants""",
      new="""        notify_pledge_changed(rt, &total_unlocked.clone().neg())?;
        burn_funds(rt, total_unlocked)?;
        let _ = burn_amount;

        state.check_balance_invariants""", expect=r'burn-what-was-repaid:repay_debt'),
 dict(id='C15-penalty-not-applied', pid='C15', file='actors/miner/src/lib.rs',
      old="""            let daily_fee = daily_proof_fee_payable(policy, &result.daily_fee, &day_reward);

            state
                .apply_penalty(&daily_fee)
                .map_err(|e| actor_error!(illegal_state, "failed to apply penalty: {}", e))?;""",
      new="""            let daily_fee = daily_proof_fee_payable(policy, &result.daily_fee, &day_reward);
            log::debug!("daily fee {}", daily_fee);""", expect=r'penalty-charged:daily_proof_fee_payable'),
 dict(id='C15-negative-penalty-allowed', pid='C15', file='actors/miner/src/state.rs',
      old="""        if penalty.is_negative() {
            Err(anyhow!("applying negative penalty {} not allowed", penalty))
        } else {
            self.fee_debt += penalty;
            Ok(())
        }""", new="""        self.fee_debt += penalty;
        Ok(())""", expect=r'apply_penalty:non-negative'),
 dict(id='C15-debt-gate-dropped-recovery', pid='C15', file='actors/miner/src/lib.rs',
      old="""            let fee_to_burn = repay_debts_or_abort(rt, state)?;

            let info = get_miner_info(rt.store(), state)?;

            rt.validate_immediate_caller_is(
                info.control_addresses.iter().chain(&[info.worker, info.owner]),
            )?;

            if consensus_fault_active(&info, rt.curr_epoch()) {
                return Err(actor_error!(
                    forbidden,
                    "recovery not allowed during active consensus fault"
                ));
            }""",
      new="""            let fee_to_burn = TokenAmount::zero();

            let info = get_miner_info(rt.store(), state)?;

            rt.validate_immediate_caller_is(
                info.control_addresses.iter().chain(&[info.worker, info.owner]),
            )?;

            if consensus_fault_active(&info, rt.curr_epoch()) {
                return Err(actor_error!(
                    forbidden,
                    "recovery not allowed during active consensus fault"
                ));
            }""", expect=r'debt-gate|burn-what-was-repaid:declare_faults_recovered|callers-present'),
 dict(id='C15-reward-not-clamped', pid='C15', file='actors/miner/src/lib.rs',
      old="""            let reward_amount = std::cmp::min(&burn_amount, &slasher_reward).clone();""",
      new="""            let reward_amount = slasher_reward.clone();""", expect=r'reporter-reward:report_consensus_fault:clamped'),
 # ---------------- C03
 dict(id='C03-withdraw-no-notify', pid='C03', file='actors/miner/src/lib.rs',
      old="""        burn_funds(rt, fee_to_burn)?;
        notify_pledge_changed(rt, &newly_vested.neg())?;

        state.check_balance_invariants(&rt.current_balance()).map_err(balance_invariants_broken)?;
        Ok(WithdrawBalanceReturn { amount_withdrawn })""",
      new="""        burn_funds(rt, fee_to_burn)?;
        let _ = newly_vested;

        state.check_balance_invariants(&rt.current_balance()).map_err(balance_invariants_broken)?;
        Ok(WithdrawBalanceReturn { amount_withdrawn })""", expect=r'pledge-total-pairing:WithdrawBalance|notify-site:withdraw_balance'),
 dict(id='C03-notify-wrong-delta', pid='C03', file='actors/miner/src/lib.rs',
      old="""        notify_pledge_changed(rt, &total_unlocked.neg())?;
        burn_funds(rt, burn_amount)?;

        state.check_balance_invariants""",
      new="""        notify_pledge_changed(rt, &burn_amount.clone().neg())?;
        burn_funds(rt, burn_amount)?;
        let _ = total_unlocked;

        state.check_balance_invariants""", expect=r'notify-delta:repay_debt'),
 dict(id='C03-pledge-sign-guard-dropped', pid='C03', file='actors/miner/src/state.rs',
      old="""        let new_total = &self.initial_pledge + amount;
        if new_total.is_negative() {
            return Err(anyhow!(
                "negative initial pledge requirement {} after adding {} to prior {}",
                new_total,
                amount,
                self.initial_pledge
            ));
        }
        self.initial_pledge = new_total;""",
      new="""        let new_total = &self.initial_pledge + amount;
        self.initial_pledge = new_total;""", expect=r'add_initial_pledge:non-negative'),
 dict(id='C03-power-claim-unchecked', pid='C03', file='actors/power/src/lib.rs',
      old="""            st.validate_miner_has_claim(rt.store(), &rt.message().caller())?;
            st.add_pledge_total(params.pledge_delta);""",
      new="""            st.add_pledge_total(params.pledge_delta);""", expect=r'power:claim-checked'),
 # ---------------- C14
 dict(id='C14-withdraw-to-owner', pid='C14', file='actors/miner/src/lib.rs',
      old="""            extract_send_result(rt.send_simple(
                &info.beneficiary,
                METHOD_SEND,
                None,
                amount_withdrawn.clone(),
            ))?;""",
      new="""            extract_send_result(rt.send_simple(
                &info.owner,
                METHOD_SEND,
                None,
                amount_withdrawn.clone(),
            ))?;""", expect=r'withdraw:recipient'),
 dict(id='C14-quota-not-charged', pid='C14', file='actors/miner/src/lib.rs',
      old="""                        info.beneficiary_term.used_quota += amount_withdrawn;""",
      new="""                        info.beneficiary_term.used_quota = amount_withdrawn.clone();""", expect=r'used-quota'),
 dict(id='C14-early-terminations-ignored', pid='C14', file='actors/miner/src/lib.rs',
      old="""                // Ensure we don't have any pending terminations.
                if !state.early_terminations.is_empty() {""",
      new="""                // Ensure we don't have any pending terminations.
                if !state.early_terminations.is_empty() && params.amount_requested.is_zero() {""", expect=r'no-pending-early-terminations'),
 dict(id='C14-available-ignores-debt', pid='C14', file='actors/miner/src/state.rs',
      old="""        Ok(self.get_unlocked_balance(actor_balance)? - &self.fee_debt)""",
      new="""        self.get_unlocked_balance(actor_balance)""", expect=r'available-balance:formula'),
 dict(id='C14-vest-at-current-epoch', pid='C14', file='actors/miner/src/vesting_state.rs',
      old="""    iter.peeking_take_while(|fund| fund.epoch < current_epoch).map(|f| f.amount).sum()""",
      new="""    iter.peeking_take_while(|fund| fund.epoch <= current_epoch).map(|f| f.amount).sum()""", expect=r'unlock_vested:strictly-before'),
 dict(id='C14-lock-factor', pid='C14', file='actors/miner/src/monies.rs',
      old="""const LOCKED_REWARD_FACTOR_NUM: u32 = 3;""", new="""const LOCKED_REWARD_FACTOR_NUM: u32 = 1;""", expect=r'LOCKED_REWARD_FACTOR_NUM'),
 # ---------------- C06
 dict(id='C06-lock-total-wrong-field', pid='C06', file='actors/market/src/state.rs',
      old="""        self.total_provider_locked_collateral += &proposal.provider_collateral;
        Ok(())""", new="""        self.total_provider_locked_collateral += &proposal.client_collateral;
        Ok(())""", expect=r'lock:total:total_provider_locked_collateral'),
 dict(id='C06-unlock-reason-crossed', pid='C06', file='actors/market/src/state.rs',
      old="""            Reason::ClientStorageFee => {
                self.total_client_storage_fee -= amount;
            }""", new="""            Reason::ClientStorageFee => {
                self.total_client_locked_collateral -= amount;
            }""", expect=r'unlock:reason:ClientStorageFee'),
 dict(id='C06-withdraw-floor-dropped', pid=['C06', 'C01'], file='actors/market/src/state.rs',
      old="""        let min_balance = locked_table.get(addr)?;
        let ex = escrow_table.subtract_with_minimum(addr, amount, &min_balance)?;""",
      new="""        let min_balance = TokenAmount::zero();
        let _ = locked_table.get(addr)?;
        let ex = escrow_table.subtract_with_minimum(addr, amount, &min_balance)?;""", expect=r'floor'),
 dict(id='C06-withdraw-to-caller', pid='C06', file='actors/market/src/lib.rs',
      old="""        extract_send_result(rt.send_simple(
            &recipient,
            METHOD_SEND,
            None,
            amount_extracted.clone(),
        ))?;""", new="""        extract_send_result(rt.send_simple(
            &rt.message().caller(),
            METHOD_SEND,
            None,
            amount_extracted.clone(),
        ))?;
        let _ = recipient;""", expect=r'withdraw:recipient'),
 dict(id='C06-transfer-no-unlock', pid='C06', file='actors/market/src/state.rs',
      old="""        escrow_table.must_subtract(from_addr, amount)?;
        self.unlock_balance(store, from_addr, amount, Reason::ClientStorageFee)
            .context("unlocking client balance")?;
""", new="""        escrow_table.must_subtract(from_addr, amount)?;
""", expect=r'transfer:sites|callers-present'),
 # ---------------- C07
 dict(id='C07-progress-not-recorded', pid='C07', file='actors/market/src/lib.rs',
      old="""                } else {
                    deal_state.last_updated_epoch = curr_epoch;
                    new_deal_states.push((deal_id, deal_state));
                }""", new="""                } else {
                    new_deal_states.push((deal_id, deal_state));
                }""", expect=r'settle_deal_payments:progress'),
 dict(id='C07-window-start-ignored', pid='C07', file='actors/market/src/state.rs',
      old="""        let payment_start_epoch = if ever_updated && state.last_updated_epoch > deal.start_epoch {
            state.last_updated_epoch
        } else {
            deal.start_epoch
        };""", new="""        let payment_start_epoch = deal.start_epoch;""", expect=r'update:window-start-choice|update:amount'),
 dict(id='C07-pay-provider-to-client', pid='C07', file='actors/market/src/state.rs',
      old="""            self.transfer_balance(store, &deal.client, &deal.provider, &elapsed_payment)?;""",
      new="""            self.transfer_balance(store, &deal.provider, &deal.client, &elapsed_payment)?;""", expect=r'update:payer|update:payee'),
 dict(id='C07-slash-partial', pid='C07', file='actors/market/src/state.rs',
      old="""        // slash provider collateral
        let slashed = proposal.provider_collateral.clone();
        self.slash_balance(store, &proposal.provider, &slashed, Reason::ProviderCollateral)
            .context("slashing balance")?;

        Ok(slashed)""", new="""        // slash provider collateral
        let slashed = proposal.provider_collateral.clone().div_floor(2);
        self.slash_balance(store, &proposal.provider, &slashed, Reason::ProviderCollateral)
            .context("slashing balance")?;

        Ok(slashed)""", expect=r'terminate:slash-whole-collateral'),
 # ---------------- C08
 dict(id='C08-duplicate-in-message', pid='C08', file='actors/market/src/lib.rs',
      old="""            if duplicate_in_state || duplicate_in_message {""", new="""            let _ = duplicate_in_message;
            if duplicate_in_state {""", expect=r'publish:not-in-message'),
 dict(id='C08-activate-after-start', pid='C08', file='actors/market/src/lib.rs',
      old="""    if curr_epoch > proposal.start_epoch {
        return Err(ActorError::unchecked(""", new="""    if curr_epoch > proposal.end_epoch {
        return Err(ActorError::unchecked(""", expect=r'can-activate:not-after-start'),
 dict(id='C08-foreign-provider-activation', pid='C08', file='actors/market/src/lib.rs',
      old="""    if &proposal.provider != miner_addr {
        return Err(ActorError::forbidden(format!(
            "proposal has provider {}, must be {}",
            proposal.provider, miner_addr
        )));
    };
""", new="""""", expect=r'can-activate:own-provider'),
 dict(id='C08-timeout-keeps-pending', pid='C08', file='actors/market/src/state.rs',
      old="""                // delete pending deal cid
                self.remove_pending_deal(store, *dcid)?.ok_or_else(|| {
                    actor_error!(
                        illegal_state,
                        format!(
                            "failed to delete pending deal {}: cid {} does not exist",
                            deal_id, dcid
                        )
                    )
                })?;
""", new="""""", expect=r'timeout:remove_pending_deal'),
 dict(id='C08-client-cover-not-running', pid='C08', file='actors/market/src/lib.rs',
      old="""            let mut client_lockup =
                total_client_lockup.get(&client_id).cloned().unwrap_or_default();
            client_lockup += deal.proposal.client_balance_requirement();""",
      new="""            let client_lockup = deal.proposal.client_balance_requirement();""", expect=r'client-cover-running-total'),
 # ---------------- C09
 dict(id='C09-claim-not-burnt', pid='C09', file='actors/verifreg/src/lib.rs',
      old="""        // Burn the datacap tokens from verified registry's own balance.
        burn(rt, &total_claimed_space)?;""", new="""        let _ = &total_claimed_space;""", expect=r'claim:burn'),
 dict(id='C09-claim-size-from-request', pid='C09', file='actors/verifreg/src/lib.rs',
      old="""                                size: alloc.size,
                                term_min: alloc.term_min,""", new="""                                size: claim.size,
                                term_min: alloc.term_min,""", expect=r'claim:new-claim.size|claim:burn-amount'),
 dict(id='C09-expired-check-dropped', pid='C09', file='actors/verifreg/src/lib.rs',
      old="""        && curr_epoch <= alloc.expiration
""", new="""""", expect=r'can_claim_alloc:conjunct'),
 dict(id='C09-grant-cap-not-reduced', pid='C09', file='actors/verifreg/src/lib.rs',
      old="""            let new_verifier_cap = verifier_cap - &params.allowance;""",
      new="""            let new_verifier_cap = verifier_cap.clone();""", expect=r'grant:new-cap'),
 dict(id='C09-hook-amount-ge', pid='C09', file='actors/verifreg/src/lib.rs',
      old="""        if datacap_total != tokens_as_datacap {""", new="""        if datacap_total > tokens_as_datacap {""", expect=r'hook:amount-matches-requests'),
 dict(id='C09-refund-to-caller', pid='C09', file='actors/verifreg/src/lib.rs',
      old="""        transfer(rt, params.client, &recovered_datacap).with_context(|| {""",
      new="""        transfer(rt, rt.message().caller().id().unwrap(), &recovered_datacap).with_context(|| {""", expect=r'expire:refund-to-client'),
 # ---------------- C10
 dict(id='C10-verified-space-from-pieces', pid='C10', file='actors/miner/src/lib.rs',
      old="""            let mut unverified_space = BigInt::zero();
            let mut pieces = Vec::new();
            for piece in *sector_pieces {
                if piece.verified_allocation_key.is_none() {
                    unverified_space += piece.size.0;
                }
                pieces.push((piece.cid, piece.size.0));
            }
            DataActivationOutput {
                unverified_space: unverified_space.clone(),
                verified_space: sector_claim.claimed_space.clone(),""",
      new="""            let mut unverified_space = BigInt::zero();
            let mut declared_verified = BigInt::zero();
            let mut pieces = Vec::new();
            for piece in *sector_pieces {
                if piece.verified_allocation_key.is_none() {
                    unverified_space += piece.size.0;
                } else {
                    declared_verified += piece.size.0;
                }
                pieces.push((piece.cid, piece.size.0));
            }
            let _ = sector_claim;
            DataActivationOutput {
                unverified_space: unverified_space.clone(),
                verified_space: declared_verified,""", expect=r'verified-space-from-registry'),
 dict(id='C10-term-decrease-allowed', pid='C10', file='actors/verifreg/src/lib.rs',
      old="""                    if term.term_max < claim.term_max {
                        batch_gen.add_fail(ExitCode::USR_ILLEGAL_ARGUMENT);
                        info!(
                            "term_max {} for claim {} is less than current {}",
                            term.term_max, term.claim_id, claim.term_max,
                        );
                        continue;
                    }
""", new="""""", expect=r'extend-terms:no-decrease'),
 dict(id='C10-drop-anytime', pid='C10', file='actors/miner/src/lib.rs',
      old="""        if dropping_claims && sector.expiration - curr_epoch > policy.end_of_life_claim_drop_period
        {""", new="""        if dropping_claims && sector.expiration - curr_epoch > policy.max_sector_expiration_extension
        {""", expect=r'extend:drop-only-at-end-of-life'),
 dict(id='C10-foreign-claim-accepted', pid='C10', file='actors/miner/src/lib.rs',
      old="""                if claim.sector != sc.sector_number {""", new="""                if claim.sector != sc.sector_number && claim.sector != 0 {""", expect=r'extend:claim-of-this-sector'),
 # ---------------- C05
 dict(id='C05-cron-propagates-entry-failure', pid='C05', file='actors/cron/src/lib.rs',
      old="""            if let Err(e) = res {
                log::error!(
                    "cron failed to send entry to {}, send error code {}",
                    entry.receiver,
                    e
                );
            }""", new="""            res?;""", expect=r'cron'),
 dict(id='C05-no-reenrol', pid='C05', file='actors/miner/src/lib.rs',
      old="""        let new_deadline_info = state.deadline_info(rt.policy(), curr_epoch + 1);""",
      new="""        let new_deadline_info = state.deadline_info(rt.policy(), curr_epoch);""", expect=r'deadline:next-deadline-last-epoch'),
 dict(id='C05-market-error-always-swallowed', pid='C05', file='actors/miner/src/lib.rs',
      old="""        if rt.message().origin() == SYSTEM_ACTOR_ADDR {
            if let Err(e) = res {
                error!("OnSectorsTerminate event failed from cron caller {}", e)
            }
        } else {
            res?;
        }""", new="""        if let Err(e) = res {
            error!("OnSectorsTerminate event failed {}", e)
        }""", expect=r'market-failure-swallowed'),
 dict(id='C03-notify-result-dropped', pid='C03', file='actors/miner/src/lib.rs',
      old="""    burn_funds(rt, penalty_total)?;
    // Update the total locked funds in the network.
    notify_pledge_changed(rt, &pledge_delta_total)?;""",
      new="""    burn_funds(rt, penalty_total)?;
    // Update the total locked funds in the network.
    let _ = notify_pledge_changed(rt, &pledge_delta_total);""", expect=r'notify-propagated:handle_proving_deadline'),
 # ---------------- C02
 dict(id='C02-power-at-precommit', pid='C02', file='actors/miner/src/lib.rs',
      old="""        burn_funds(rt, fee_to_burn)?;
        let state: State = rt.state()?;
        state.check_balance_invariants(&rt.current_balance()).map_err(balance_invariants_broken)?;
        if needs_cron {""", new="""        burn_funds(rt, fee_to_burn)?;
        request_update_power(rt, PowerPair::zero())?;
        let state: State = rt.state()?;
        state.check_balance_invariants(&rt.current_balance()).map_err(balance_invariants_broken)?;
        if needs_cron {""", expect=r'no-power-change:PreCommitSectorBatch2|callers:request_update_power'),
 dict(id='C02-claim-keyed-by-param', pid='C02', file='actors/power/src/state.rs',
      old="""        let new_claim = Claim {
            raw_byte_power: old_claim.raw_byte_power.clone() + power,
            quality_adj_power: old_claim.quality_adj_power.clone() + qa_power,""",
      new="""        let new_claim = Claim {
            raw_byte_power: old_claim.raw_byte_power.clone() + power,
            quality_adj_power: old_claim.quality_adj_power.clone() + power,""", expect=r'power:new-qa'),
 dict(id='C02-negative-claim-allowed', pid='C02', file='actors/power/src/state.rs',
      old="""        if new_claim.quality_adj_power.is_negative() {
            return Err(actor_error!(
                illegal_state,
                "negative claimed quality adjusted power: {}",
                new_claim.quality_adj_power
            ));
        }
""", new="""""", expect=None),  # equivalent: set_claim() repeats the same sign checks, so the property still holds (found by guard lifting)
 # ---------------- C04
 dict(id='C04-ni-allows-collisions', pid='C04', file='actors/miner/src/lib.rs',
      old="""            state.allocate_sector_numbers(
                store,
                &sector_numbers,
                CollisionPolicy::DenyCollisions,
            )?;""", new="""            state.allocate_sector_numbers(
                store,
                &sector_numbers,
                CollisionPolicy::AllowCollisions,
            )?;""", expect=r'allocate:policy'),
 dict(id='C04-validate-dropped', pid='C04', file='actors/miner/src/partition_state.rs',
      old="""        // check invariants
        self.validate_state()?;

        // No change to faults, recoveries, or terminations.
        // No change to faulty or recovering power.
        Ok((power, daily_fee))""", new="""        // No change to faults, recoveries, or terminations.
        // No change to faulty or recovering power.
        Ok((power, daily_fee))""", expect=r'partition-revalidated'),
 # ---------------- C01
 dict(id='C01-invariant-check-dropped', pid='C01', file='actors/miner/src/lib.rs',
      old="""        notify_pledge_changed(rt, &total_unlocked.neg())?;
        burn_funds(rt, burn_amount)?;

        state.check_balance_invariants(&rt.current_balance()).map_err(balance_invariants_broken)?;
        Ok(())
    }""", new="""        notify_pledge_changed(rt, &total_unlocked.neg())?;
        burn_funds(rt, burn_amount)?;
        let _ = state;
        Ok(())
    }""", expect=r'solvency:RepayDebt'),
 dict(id='C01-new-value-send', pid='C01', file='actors/miner/src/lib.rs',
      old="""        rt.validate_immediate_caller_accept_any()?;
        let state: State = rt.state()?;
        let peer_id = get_miner_info(rt.store(), &state)?.peer_id;""",
      new="""        rt.validate_immediate_caller_accept_any()?;
        let state: State = rt.state()?;
        extract_send_result(rt.send_simple(&rt.message().caller(), METHOD_SEND, None, state.fee_debt.clone()))?;
        let peer_id = get_miner_info(rt.store(), &state)?.peer_id;""", expect=r'value-send:'),
 dict(id='C01-reward-cap-removed', pid='C01', file='actors/reward/src/lib.rs',
      old="""        if total_reward > prior_balance {
            return Err(actor_error!(
                illegal_state,
                "reward {} exceeds balance {}",
                total_reward,
                prior_balance
            ));
        }
""", new="""""", expect=r'reward:payout<=prior-balance'),

 # ---------------- behaviour-preserving refactors (must stay silent)
 dict(id='R-C16-extract-timelock-helper', pid='C16', file='actors/paych/src/lib.rs',
      old="""        if rt.curr_epoch() < sv.time_lock_min {
            return Err(actor_error!(illegal_argument; "cannot use this voucher yet"));
        }

        if sv.time_lock_max != 0 && rt.curr_epoch() > sv.time_lock_max {
            return Err(actor_error!(illegal_argument; "this voucher has expired"));
        }
""", new="""        check_time_locks(rt, &sv)?;
""", expect=None,
      extra=('actors/paych/src/lib.rs', """#[inline]
fn find_lane<'a, BS>(""", """fn check_time_locks(rt: &impl Runtime, sv: &SignedVoucher) -> Result<(), ActorError> {
    let now = rt.curr_epoch();
    if now < sv.time_lock_min {
        return Err(actor_error!(illegal_argument; "cannot use this voucher yet"));
    }
    if sv.time_lock_max != 0 && now > sv.time_lock_max {
        return Err(actor_error!(illegal_argument; "this voucher has expired"));
    }
    Ok(())
}

#[inline]
fn find_lane<'a, BS>(""")),
 dict(id='R-C18-extract-writable-helper', pid='C18', file='actors/evm/src/interpreter/instructions/storage.rs',
      old="""    if system.readonly {
        return Err(ActorError::read_only("store called while read-only".into()));
    }

    system.set_storage(key, value)""", new="""    ensure_writable(system)?;

    system.set_storage(key, value)""", expect=None,
      extra=('actors/evm/src/interpreter/instructions/storage.rs', """#[inline]
pub fn sstore(""", """fn ensure_writable(system: &System<impl Runtime>) -> Result<(), ActorError> {
    if system.readonly {
        return Err(ActorError::read_only("store called while read-only".into()));
    }
    Ok(())
}

#[inline]
pub fn sstore(""")),
 dict(id='R-C13-extract-confirm-helper', pid='C13', file='actors/miner/src/lib.rs',
      old="""                if new_address != pending_address {
                    return Err(actor_error!(
                        illegal_argument,
                        "expected confirmation of {} got {}",
                        pending_address,
                        new_address
                    ));
                }
""", new="""                ensure_same_address(&new_address, &pending_address)?;
""", expect=None,
      extra=('actors/miner/src/lib.rs', """fn process_pending_worker(""", """fn ensure_same_address(new_address: &Address, pending_address: &Address) -> Result<(), ActorError> {
    if new_address != pending_address {
        return Err(actor_error!(
            illegal_argument,
            "expected confirmation of {} got {}",
            pending_address,
            new_address
        ));
    }
    Ok(())
}

fn process_pending_worker(""")),
 dict(id='R-C15-rename-and-reorder', pid=['C15', 'C03', 'C01'], file='actors/miner/src/lib.rs',
      old="""        burn_funds(rt, burn_amount)?;
        notify_pledge_changed(rt, &pledge_delta)?;

        let state: State = rt.state()?;
        state.check_balance_invariants(&rt.current_balance()).map_err(balance_invariants_broken)?;
        Ok(())
    }

    fn withdraw_balance(""", new="""        notify_pledge_changed(rt, &pledge_delta)?;
        let amount_to_burn = burn_amount;
        burn_funds(rt, amount_to_burn)?;

        let state: State = rt.state()?;
        state.check_balance_invariants(&rt.current_balance()).map_err(balance_invariants_broken)?;
        Ok(())
    }

    fn withdraw_balance(""", expect=None),
 dict(id='R-C12-hoist-threshold-local', pid='C12', file='actors/multisig/src/lib.rs',
      old="""    let threshold_met = txn.approved.len() as u64 >= st.num_approvals_threshold;
    if threshold_met {""", new="""    let approvals = txn.approved.len() as u64;
    let needed = st.num_approvals_threshold;
    if approvals >= needed {""", expect=None),
 dict(id='R-C06-early-return-style', pid='C06', file='actors/market/src/state.rs',
      old="""        if amount.is_negative() {
            return Err(actor_error!(illegal_state, "unlock negative amount: {}", amount));
        }
""", new="""        let negative = amount.is_negative();
        if negative {
            return Err(actor_error!(illegal_state, "unlock negative amount: {}", amount));
        }
""", expect=None),
 dict(id='C09-transfer-exit-code-ignored', pid='C09', file='actors/verifreg/src/lib.rs',
      old="""    extract_send_result(rt.send_simple(
        &DATACAP_TOKEN_ACTOR_ADDR,
        ext::datacap::Method::Transfer as u64,
        IpldBlock::serialize_cbor(&params)?,
        TokenAmount::zero(),
    ))
    .context(""",
      new="""    rt.send_simple(
        &DATACAP_TOKEN_ACTOR_ADDR,
        ext::datacap::Method::Transfer as u64,
        IpldBlock::serialize_cbor(&params)?,
        TokenAmount::zero(),
    )
    .context(""", expect=r'send-exit-code-inspected:transfer'),
 dict(id='C16-collect-payout-exit-code-ignored', pid='C16', file='actors/paych/src/lib.rs',
      old="""        extract_send_result(rt.send_simple(&st.to, METHOD_SEND, None, st.to_send))
            .map_err(|e| e.wrap("Failed to send funds to `to` address"))?;""",
      new="""        rt.send_simple(&st.to, METHOD_SEND, None, st.to_send)
            .context("Failed to send funds to `to` address")?;""", expect=r'send-exit-code-inspected:Actor::collect'),
 dict(id='C06-withdraw-exit-code-ignored', pid='C06', file='actors/market/src/lib.rs',
      old="""        extract_send_result(rt.send_simple(
            &recipient,
            METHOD_SEND,
            None,
            amount_extracted.clone(),
        ))?;""",
      new="""        rt.send_simple(&recipient, METHOD_SEND, None, amount_extracted.clone())
            .context("failed to send funds")?;""", expect=r'send-exit-code-inspected:Actor::withdraw_balance'),
 dict(id='C15-early-flag-wrong-deadline', pid='C15', file='actors/miner/src/state.rs',
      old="""            self.early_terminations.set(dl_info.index);""",
      new="""            self.early_terminations.set(self.current_deadline);""", expect=r'early-termination-queued:advance_deadline:deadline-index'),
 dict(id='C15-early-flag-inverted', pid='C15', file='actors/miner/src/state.rs',
      old="""        if !no_early_terminations {
            self.early_terminations.set(dl_info.index);""",
      new="""        if no_early_terminations {
            self.early_terminations.set(dl_info.index);""", expect=r'early-termination-queued:advance_deadline:flagged-when-any'),
 dict(id='C04-deadline-stored-under-next-index', pid='C04', file='actors/miner/src/state.rs',
      old="""        deadlines.update_deadline(policy, store, dl_info.index, &deadline)?;

        self.save_deadlines(store, deadlines)?;

        Ok(AdvanceDeadlineResult {""",
      new="""        deadlines.update_deadline(policy, store, self.current_deadline, &deadline)?;

        self.save_deadlines(store, deadlines)?;

        Ok(AdvanceDeadlineResult {""", expect=r'deadline-index:state::State::advance_deadline'),
 dict(id='R-C15-early-flag-hoisted-index', pid='C15', file='actors/miner/src/state.rs',
      old="""            self.early_terminations.set(dl_info.index);""",
      new="""            let processed = dl_info.index;
            self.early_terminations.set(processed);""", expect=None),
 # ---------------- provenance tables (partition / deadline / expiration-queue summaries): C02, C04, C15
 dict(id='C02-missed-post-ignores-unproven', pid=['C02', 'C04'], file='actors/miner/src/partition_state.rs',
      old="""        let power_delta = &self.unproven_power - &new_faulty_power;""",
      new="""        let power_delta = new_faulty_power.clone().neg();""", expect=r'summary:partition_state::Partition::record_missed_post:ret:0'),
 dict(id='C04-terminate-keeps-recovering-power', pid=['C04', 'C02'], file='actors/miner/src/partition_state.rs',
      old="""        self.recovering_power -= &removed_recovering;
        self.unproven -= &unproven_nos;""",
      new="""        self.unproven -= &unproven_nos;""", expect=r'summary:partition_state::Partition::terminate_sectors:memo:Partition.recovering_power'),
 dict(id='C02-add-faults-double-counts-unproven', pid=['C02', 'C04'], file='actors/miner/src/partition_state.rs',
      old="""            self.unproven_power -= &lost_unproven_power;
            power_delta += &lost_unproven_power;""",
      new="""            self.unproven_power -= &lost_unproven_power;""", expect=r'summary:partition_state::Partition::add_faults:ret:0'),
 dict(id='C04-expset-swapped-power-args', pid=['C04', 'C02'], file='actors/miner/src/expiration_queue.rs',
      old="""                &early_sectors,
                &PowerPair::zero(),
                &rescheduled_power,
                &TokenAmount::zero(),
                &rescheduled_daily_fee,""",
      new="""                &early_sectors,
                &rescheduled_power,
                &PowerPair::zero(),
                &TokenAmount::zero(),
                &rescheduled_daily_fee,""", expect=r'reschedule_as_faults:arg:ExpirationQueue'),
 dict(id='C15-deadline-faulty-power-not-mirrored', pid=['C15', 'C04', 'C02'], file='actors/miner/src/deadline_state.rs',
      old="""            self.faulty_power += &partition_new_faulty_power;
            power_delta += &partition_power_delta;""",
      new="""            power_delta += &partition_power_delta;""", expect=r'summary:deadline_state::Deadline::record_faults:memo:Deadline.faulty_power'),
 dict(id='C02-deadline-end-skips-recovering', pid='C02', file='actors/miner/src/deadline_state.rs',
      old="""            if partition.recovering_power.is_zero()
                && partition.faulty_power == partition.live_power
            {""",
      new="""            if partition.recovering_power.is_zero()
                || partition.faulty_power == partition.live_power
            {""", expect=r'deadline-end:skip-only-if-all-faulty'),
 dict(id='C02-post-double-prove-allowed', pid='C02', file='actors/miner/src/deadline_state.rs',
      old="""        if !already_proven.is_empty() {
            return Err(anyhow!(actor_error!(
                illegal_argument,
                "partition already proven: {:?}",
                already_proven
            )));
        }
""",
      new="""        let _ = already_proven;
""", expect=r'post:not-already-proven'),
 dict(id='C02-post-not-recorded', pid=['C02', 'C04'], file='actors/miner/src/deadline_state.rs',
      old="""            // Record the post.
            self.partitions_posted.set(post.index);""",
      new="""""", expect=r'post:marks-posted|partitions_posted'),
 dict(id='R-C04-addassign-respelled', pid=['C04', 'C02'], file='actors/miner/src/partition_state.rs',
      old="""        self.sectors |= &sector_numbers;
        self.live_power += &power;

        if !proven {""",
      new="""        self.live_power = &self.live_power + &power;
        self.sectors |= &sector_numbers;

        if !proven {""", expect=None),
 dict(id='R-C02-missed-post-renamed-hoisted', pid=['C02', 'C04', 'C15'], file='actors/miner/src/partition_state.rs',
      old="""        let new_faulty_power = &self.live_power - &self.faulty_power;
        // Penalized power is the newly faulty power, plus the failed recovery power.
        let penalized_power = &self.recovering_power + &new_faulty_power;

        // The power delta is -(newFaultyPower-unproven), because unproven power
        // was never activated in the first place.
        let power_delta = &self.unproven_power - &new_faulty_power;""",
      new="""        let fresh_faults = Self::newly_faulty(&self.live_power, &self.faulty_power);
        // The power delta is -(newFaultyPower-unproven), because unproven power
        // was never activated in the first place.
        let power_delta = &self.unproven_power - &fresh_faults;
        // Penalized power is the newly faulty power, plus the failed recovery power.
        let penalized_power = &fresh_faults + &self.recovering_power;
        let new_faulty_power = fresh_faults;""",
      extra=('actors/miner/src/partition_state.rs', """    pub fn pop_early_terminations<BS: Blockstore>(""",
             """    fn newly_faulty(live: &PowerPair, faulty: &PowerPair) -> PowerPair {
        live - faulty
    }

    pub fn pop_early_terminations<BS: Blockstore>("""), expect=None),

 # ---------------- C17 (structural clause of instruction semantics)
 dict(id='C17-sub-swapped', pid='C17', file='actors/evm/src/interpreter/instructions/arithmetic.rs', old="""    a.overflowing_sub(b).0""", new="""    b.overflowing_sub(a).0""", expect=r'semantics:SUB:wsub'),
 dict(id='C17-slt-unsigned', pid='C17', file='actors/evm/src/interpreter/instructions/boolean.rs', old="""    U256::from_u64((a.i256_cmp(&b) == Ordering::Less).into())""", new="""    U256::from_u64((a.cmp(&b) == Ordering::Less).into())""", expect=r'semantics:SLT:scmp'),
 dict(id='C17-sgt-as-sge', pid='C17', file='actors/evm/src/interpreter/instructions/boolean.rs', old="""    U256::from_u64((a.i256_cmp(&b) == Ordering::Greater).into())""", new="""    U256::from_u64((a.i256_cmp(&b) != Ordering::Less).into())""", expect=r'semantics:SGT:ordeq'),
 dict(id='C17-addmod-narrow', pid='C17', file='actors/evm/src/interpreter/instructions/arithmetic.rs', old="""        ((al + bl) % cl).low_u256()
    } else {
        c
    }
}

#[inline]
pub fn mulmod""", new="""        let _ = (al, bl);
        (U512::from(a.overflowing_add(b).0) % cl).low_u256()
    } else {
        c
    }
}

#[inline]
pub fn mulmod""", expect=r'semantics:ADDMOD:(add512|no-other)'),
 dict(id='C17-shr-bound-off', pid='C17', file='actors/evm/src/interpreter/instructions/bitwise.rs', old="""    if value.is_zero() || shift >= 256 { U256::ZERO } else { value >> shift }""", new="""    if value.is_zero() || shift > 256 { U256::ZERO } else { value >> shift }""", expect=r'semantics:SHR:shift'),
 dict(id='C17-byte-little-endian', pid='C17', file='actors/evm/src/interpreter/instructions/bitwise.rs', old="""x.byte(31 - i.low_u64() as usize)""", new="""x.byte(i.low_u64() as usize)""", expect=r'semantics:BYTE'),
 dict(id='C17-sdiv-sign-of-dividend', pid='C17', file='actors/evm/shared/src/uints.rs', old="""        if d.is_zero() || first_neg == second_neg { d } else { d.i256_neg() }""", new="""        if d.is_zero() || !first_neg { d } else { d.i256_neg() }""", expect=r'signed:i256_div:negate'),
 dict(id='C17-smod-sign-of-divisor', pid='C17', file='actors/evm/shared/src/uints.rs', old="""        let negative = first.i256_is_negative();
        if negative {
            first = first.i256_neg();
        }

        if second.i256_is_negative() {
            second = second.i256_neg()
        }""", new="""        if first.i256_is_negative() {
            first = first.i256_neg();
        }

        let negative = second.i256_is_negative();
        if negative {
            second = second.i256_neg()
        }""", expect=r'signed:i256_mod:sign'),
 dict(id='C17-scmp-sign-flipped', pid='C17', file='actors/evm/shared/src/uints.rs', old="""        match other.i256_is_negative().cmp(&self.i256_is_negative()) {""", new="""        match self.i256_is_negative().cmp(&other.i256_is_negative()) {""", expect=r'signed:i256_cmp:order'),
 dict(id='C17-codecopy-size-offset-swapped', pid='C17', file='actors/evm/src/interpreter/instructions/call.rs', old="""    copy_to_memory(&mut state.memory, mem_index, size, input_index, code, true)""", new="""    copy_to_memory(&mut state.memory, mem_index, input_index, size, code, true)""", expect=r'role:CODECOPY'),
 dict(id='C17-mstore8-offset-from-value', pid='C17', file='actors/evm/src/interpreter/instructions/memory.rs', old="""    let region = get_memory_region(&mut state.memory, index, 1)?.expect("empty region");

    let value = (value.low_u32() & 0xff) as u8;""", new="""    let region = get_memory_region(&mut state.memory, value, 1)?.expect("empty region");

    let value = (index.low_u32() & 0xff) as u8;""", expect=r'role:MSTORE8'),
 dict(id='C17-mcopy-reversed', pid='C17', file='actors/evm/src/interpreter/instructions/memory.rs', old="""    let source_range = src_region.offset..(src_region.offset + src_region.size.get());
    let destination_index = destination_region.offset;""", new="""    let source_range =
        destination_region.offset..(destination_region.offset + destination_region.size.get());
    let destination_index = src_region.offset;""", expect=r'role:mcopy:direction'),
 dict(id='C17-revert-as-return', pid='C17', file='actors/evm/src/interpreter/instructions/control.rs', old="""    exit(&mut state.memory, pc, offset, size, Outcome::Revert)""", new="""    exit(&mut state.memory, pc, offset, size, Outcome::Return)""", expect=r'role:REVERT:outcome'),
 dict(id='C17-tload-persistent', pid='C17', file='actors/evm/src/interpreter/instructions/storage.rs', old="""    system.get_transient_storage(location)""", new="""    system.get_storage(location)""", expect=r'role:TLOAD'),
 dict(id='C17-operands-not-reversed', pid='C17', file='actors/evm/src/interpreter/instructions/mod.rs', old="""    ($op:ident ($($arg:ident),+) => $impl:path) => {
        def_op!{ $op (m) => {
            let &rev![$($arg),*] = m.state.stack.pop_many()?;
            let result = $impl($($arg),*);""", new="""    ($op:ident ($($arg:ident),+) => $impl:path) => {
        def_op!{ $op (m) => {
            let &[$($arg),*] = m.state.stack.pop_many()?;
            let result = $impl($($arg),*);""", expect=r'binding:SUB'),
 dict(id='C17-returndatacopy-end-unchecked', pid='C17', file='actors/evm/src/interpreter/instructions/control.rs', old="""    if end > state.return_data.len() {""", new="""    if src > state.return_data.len() {""", expect=r'role:RETURNDATACOPY:end'),
 dict(id='C17-jumpi-dest-cond-swapped', pid='C17', file='actors/evm/src/interpreter/instructions/control.rs', old="""    if !test.is_zero() {
        let dst =
            dest.try_into()""", new="""    if !dest.is_zero() {
        let dst =
            test.try_into()""", expect=r'role:JUMPI'),
 dict(id='R-C17-div-arms-respelled', pid='C17', file='actors/evm/src/interpreter/instructions/arithmetic.rs', old="""    if !b.is_zero() { a / b } else { b }""", new="""    if b.is_zero() {
        return U256::ZERO;
    }
    a / b""", expect=None),
 dict(id='R-C17-gt-respelled-mstore8-cast', pid='C17', file='actors/evm/src/interpreter/instructions/boolean.rs', old="""    U256::from_u64((a > b).into())""", new="""    let greater = b < a;
    U256::from_u64(greater.into())""", expect=None,
      extra=('actors/evm/src/interpreter/instructions/memory.rs', """    let value = (value.low_u32() & 0xff) as u8;""", """    let value = value.low_u32() as u8;""")),

 # ---------------- K12 running totals (generic accumulator integrity; no property-specific row names these sites)
 dict(id='K12-precommit-deposit-last-wins', pid=['C03', 'C01'], file='actors/miner/src/lib.rs', old="""                total_deposit_required += &deposit_req;""", new="""                total_deposit_required = deposit_req.clone();""", expect=r'running-totals:.*total_deposit_required'),
 dict(id='K12-claimed-space-last-wins', pid=['C09', 'C10'], file='actors/verifreg/src/lib.rs', old="""                    sector_claimed_space += DataCap::from(new_claim.size.0);""", new="""                    sector_claimed_space = DataCap::from(new_claim.size.0);""", expect=r'running-totals:.*sector_claimed_space'),
 dict(id='K12-declared-fault-power-last-wins', pid=['C02', 'C04'], file='actors/miner/src/lib.rs', old="""                new_fault_power_total += &deadline_power_delta;""", new="""                new_fault_power_total = deadline_power_delta.clone();""", expect=r'running-totals:.*new_fault_power_total'),
 dict(id='K12-expired-pledge-last-wins', pid=['C04', 'C03'], file='actors/miner/src/deadline_state.rs', old="""            all_on_time_pledge += &partition_expiration.on_time_pledge;""", new="""            all_on_time_pledge = partition_expiration.on_time_pledge.clone();""", expect=r'running-totals:.*all_on_time_pledge|prov'),

 # ---------------- K14 error discipline (generic: no Result discarded)
 dict(id='K14-market-pending-removal-error-ignored', pid=['C08', 'C06'], file='actors/market/src/state.rs', old="""            self.remove_pending_deal(store, *deal_cid)?;""", new="""            let _ = self.remove_pending_deal(store, *deal_cid);""", expect=r'results-not-discarded:.*remove_pending_deal'),
 dict(id='K14-multisig-purge-error-swallowed', pid=['C12'], file='actors/multisig/src/lib.rs', old="""            st.purge_approvals(rt.store(), &Address::new_id(from_resolved))?;
            Ok(())""", new="""            st.purge_approvals(rt.store(), &Address::new_id(from_resolved)).ok();
            Ok(())""", expect=r'results-not-discarded:.*purge_approvals'),
 dict(id='K14-miner-notify-error-ignored', pid=['C03', 'C05'], file='actors/miner/src/lib.rs', old="""        notify_pledge_changed(rt, &newly_vested.neg())?;""", new="""        let _ = notify_pledge_changed(rt, &newly_vested.neg());""", expect=r'results-not-discarded:.*notify_pledge_changed|notify-propagated'),

 # ---------------- K15 tolerated failures (generic: a `?` turned into a logged-and-ignored error)
 dict(id='K15-market-cron-swallows-update-error', pid=['C07', 'C05'], file='actors/market/src/lib.rs', old="""                        st.remove_pending_deal(rt.store(), dcid)?.ok_or_else(|| {""", new="""                        if let Err(e) = st.put_deal_states(rt.store(), &[]) {
                            log::warn!("ignored: {}", e);
                        }
                        st.remove_pending_deal(rt.store(), dcid)?.ok_or_else(|| {""", expect=r'tolerated-failures:.*put_deal_states'),
 dict(id='K15-verifreg-burn-failure-tolerated', pid=['C09'], file='actors/verifreg/src/lib.rs', old="""        burn(rt, &total_claimed_space)?;""", new="""        if let Err(e) = burn(rt, &total_claimed_space) {
            log::warn!("failed to burn claimed datacap: {}", e);
        }""", expect=r'tolerated-failures:.*burn'),
 dict(id='K15-miner-invariant-check-tolerated', pid=['C01', 'C15'], file='actors/miner/src/lib.rs', old="""        let state: State = rt.state()?;
        state.check_balance_invariants(&rt.current_balance()).map_err(balance_invariants_broken)?;
        Ok(())
    }
}""", new="""        let state: State = rt.state()?;
        state.check_balance_invariants(&rt.current_balance()).map_err(balance_invariants_broken).unwrap_or_default();
        Ok(())
    }
}""", expect=r'tolerated-failures:.*check_balance_invariants|solvency'),

 # ---------------- K16 state updates do not disappear (generic)
 dict(id='K16-verifreg-proposal-ids-not-stored', pid=['C09'], file='actors/verifreg/src/lib.rs', old="""            st.remove_data_cap_proposal_ids = proposal_ids.flush()?;
            Ok((verifier_1_id, verifier_2_id))""", new="""            proposal_ids.flush()?;
            Ok((verifier_1_id, verifier_2_id))""", expect=r'updates-present:verifreg:State.remove_data_cap_proposal_ids'),
 dict(id='K16-power-cron-epoch-not-advanced', pid=['C05'], file='actors/power/src/lib.rs', old="""            st.first_cron_epoch = rt_epoch + 1;
            st.cron_event_queue""", new="""            st.cron_event_queue""", expect=r'updates-present:power:State.first_cron_epoch|first_cron_epoch'),
]
