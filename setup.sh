#!/bin/bash
# setup_cmd: build the fact extractor from files on disk and warm the dependency cache (offline).
set -e
cd "$(dirname "$0")"
export CARGO_NET_OFFLINE=true
(cd engine/ba-facts && cargo build --release --offline 2>&1 | tail -3)
PY=/usr/bin/python3; [ -x "$PY" ] || PY=python3
"$PY" engine/extract.py quick | tail -3
